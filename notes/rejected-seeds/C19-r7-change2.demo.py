"""C19 demo 2: the LRU cache holds the max_size most recently USED keys.

A hit that happens while the cache still has free slots must count as a use: when the cache
later fills up and something has to go, the key that was hit is not the least recently used one.
The clock is frozen, so nothing ever expires.
"""
import sys
import time

from orso.tools import lru_cache_with_expiry

time.time = lambda: 1000.0  # frozen clock: deterministic, no expiry

problems = []


def run(max_size, history):
    """Replay `history` on a fresh wrapper and on a reference LRU; compare hit/miss per call."""
    calls = []

    @lru_cache_with_expiry(max_size=max_size, valid_for_seconds=60)
    def f(x):
        calls.append(x)
        return (x, len(calls))

    held = []  # reference: most recently used last, values as produced
    values = {}
    for step, x in enumerate(history):
        before = len(calls)
        got = f(x)
        invoked = len(calls) > before
        should_invoke = x not in held
        if should_invoke:
            held.append(x)
            if len(held) > max_size:
                values.pop(held.pop(0), None)
        else:
            held.remove(x)
            held.append(x)
        if invoked:
            values[x] = got
        if invoked != should_invoke:
            problems.append(
                f"max_size={max_size} history={history} step {step} f({x!r}): wrapped function "
                f"{'was' if invoked else 'was not'} invoked, but {x!r} "
                f"{'is not' if should_invoke else 'is'} among the {max_size} most recently used keys"
            )
            return
        if got[0] != x:
            problems.append(f"max_size={max_size} history={history} step {step}: f({x!r}) returned {got!r}")
            return


# hit 'a' while there is still room, then fill the cache and overflow it by one
run(3, ["a", "b", "a", "c", "d", "a"])
run(4, ["a", "b", "c", "a", "d", "e", "a"])
run(4, ["a", "b", "a", "c", "d", "e", "a"])
run(2, ["a", "a", "b", "c", "b"])          # control: hit on the only key
run(3, ["a", "b", "c", "a", "d", "a"])     # control: hit when already full
run(1, ["a", "a", "b", "a"])               # control

if problems:
    print("C19 violated:")
    for p in problems:
        print("  " + p)
    sys.exit(1)
print("ok")
sys.exit(0)
