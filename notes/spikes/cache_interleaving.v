(* spike 3: interleaving semantics for single_item_cache, pinned (4 slots) vs repaired (1 slot) *)
From Coq Require Import List Bool Arith Lia.
Import ListNotations.
Section C.
Variable f : nat -> nat.                 (* wrapped function: args -> result *)
(* ---------- pinned code: slots written one by one, result re-read after the check ---------- *)
Record cache4 := { c_args : option nat; c_res : nat }.   (* kwargs/time elided in the spike *)
Inductive pc := Chk | RdRes | Call | WArgs (r:nat) | WRes (r:nat) | Ret (r:nat).
Record thr := { arg : nat; at_ : pc }.
Definition step4 (c : cache4) (t : thr) : cache4 * thr :=
  match at_ t with
  | Chk => if match c_args c with Some a => Nat.eqb a (arg t) | None => false end
           then (c, {| arg := arg t; at_ := RdRes |}) else (c, {| arg := arg t; at_ := Call |})
  | RdRes => (c, {| arg := arg t; at_ := Ret (c_res c) |})
  | Call => (c, {| arg := arg t; at_ := WArgs (f (arg t)) |})
  | WArgs r => ({| c_args := Some (arg t); c_res := c_res c |}, {| arg := arg t; at_ := WRes r |})
  | WRes r => ({| c_args := c_args c; c_res := r |}, {| arg := arg t; at_ := Ret r |})
  | Ret r => (c, t)
  end.
Fixpoint upd {A} (l : list A) (i : nat) (x : A) : list A :=
  match l, i with [], _ => [] | _ :: t, O => x :: t | h :: t, S j => h :: upd t j x end.
Definition sched4 (st : cache4 * list thr) (i : nat) : cache4 * list thr :=
  match nth_error (snd st) i with
  | Some t => let '(c', t') := step4 (fst st) t in (c', upd (snd st) i t')
  | None => st end.
Definition run4 (sch : list nat) st := fold_left sched4 sch st.
Definition bad (t : thr) := match at_ t with Ret r => negb (Nat.eqb r (f (arg t))) | _ => false end.
End C.
(* refutation: f = S; cache holds (7 -> 8); two callers with arg 3 *)
Example pinned_refuted :
  exists sch, existsb (bad S) (snd (run4 S sch ({| c_args := Some 7; c_res := 8 |},
     [ {| arg := 3; at_ := Chk |}; {| arg := 3; at_ := Chk |} ]))) = true.
Proof. exists [0;0;0;1;1;1]. vm_compute. reflexivity. Qed.

Section R.
Variable f : nat -> nat.
(* ---------- repaired: one slot holding an immutable entry, read once ---------- *)
Definition entry := option (nat * nat).
Inductive pc1 := Rd | Cmp (e:entry) | Call1 | Wr (r:nat) | Ret1 (r:nat).
Record thr1 := { arg1 : nat; at1 : pc1 }.
Definition step1 (c : entry) (t : thr1) : entry * thr1 :=
  match at1 t with
  | Rd => (c, {| arg1 := arg1 t; at1 := Cmp c |})
  | Cmp e => match e with
             | Some (a, r) => if Nat.eqb a (arg1 t) then (c, {| arg1 := arg1 t; at1 := Ret1 r |})
                              else (c, {| arg1 := arg1 t; at1 := Call1 |})
             | None => (c, {| arg1 := arg1 t; at1 := Call1 |}) end
  | Call1 => (c, {| arg1 := arg1 t; at1 := Wr (f (arg1 t)) |})
  | Wr r => (Some (arg1 t, r), {| arg1 := arg1 t; at1 := Ret1 r |})
  | Ret1 r => (c, t)
  end.
Definition ok_entry (e : entry) := match e with Some (a, r) => r = f a | None => True end.
Definition ok_thr (t : thr1) := match at1 t with
  | Cmp e => ok_entry e | Wr r => r = f (arg1 t) | Ret1 r => r = f (arg1 t) | _ => True end.
Definition Inv (st : entry * list thr1) := ok_entry (fst st) /\ Forall ok_thr (snd st).
Lemma step1_inv c t : ok_entry c -> ok_thr t -> ok_entry (fst (step1 c t)) /\ ok_thr (snd (step1 c t)).
Proof.
  unfold step1, ok_thr. intros Hc Ht. destruct t as [a p]; cbn in *.
  destruct p as [|e| |r|r]; cbn; auto.
  - destruct e as [[a' r']|]; cbn; auto. destruct (Nat.eqb_spec a' a); cbn; auto.
    subst. cbn in Ht. auto.
Qed.
Lemma Forall_upd {A} (P : A -> Prop) l i x : Forall P l -> P x -> Forall P (upd l i x).
Proof. revert i; induction l as [|h t IH]; intros [|j] Hl Hx; cbn; auto; inversion Hl; subst; constructor; auto. Qed.
Definition sched1 (st : entry * list thr1) (i : nat) :=
  match nth_error (snd st) i with
  | Some t => let '(c', t') := step1 (fst st) t in (c', upd (snd st) i t')
  | None => st end.
Lemma sched1_inv st i : Inv st -> Inv (sched1 st i).
Proof.
  intros [Hc Ht]. unfold sched1. destruct (nth_error (snd st) i) as [t|] eqn:E; [|split; auto].
  assert (ok_thr t) by (eapply Forall_forall; eauto using nth_error_In).
  destruct (step1 (fst st) t) as [c' t'] eqn:E2.
  pose proof (step1_inv _ _ Hc H) as [H1 H2]. rewrite E2 in *. cbn in *.
  split; cbn; auto using Forall_upd.
Qed.
Theorem repaired_safe sch st : Inv st -> Inv (fold_left sched1 sch st).
Proof. revert st; induction sch as [|i sch IH]; cbn; intros st H; auto using sched1_inv. Qed.
(* every thread that has returned holds f of ITS OWN argument, for every schedule and any number of threads *)
Corollary returns_own sch st t r : Inv st -> In t (snd (fold_left sched1 sch st)) -> at1 t = Ret1 r -> r = f (arg1 t).
Proof. intros H Hin E. destruct (repaired_safe sch st H) as [_ HF]. rewrite Forall_forall in HF.
  specialize (HF _ Hin). unfold ok_thr in HF. now rewrite E in HF. Qed.
End R.
Print Assumptions returns_own.
