(* spike: executable model of distogram.update (in-place shortcut, cached gaps, trim) over Q; run on three histories *)
From Coq Require Import QArith ZArith List Bool.
Import ListNotations.
Open Scope Q_scope.
Definition bin := (Q * Z)%type.
Record st := { bins : list bin; hmin : option Q; hmax : option Q; diffs : option (list Q); min_diff : Q; cap : nat }.
Definition qlt a b := negb (Qle_bool b a).
Definition qle a b := Qle_bool a b.
Definition qeq a b := Qeq_bool a b.
Definition qmin a b := if qlt b a then b else a.
Fixpoint list_min (d : Q) (l : list Q) : Q := match l with [] => d | x :: t => list_min (qmin d x) t end.
Definition minl (l : list Q) : Q := match l with [] => 0 | x :: t => list_min x t end.   (* Python min(); [] is an error there *)
Fixpoint index_of (x : Q) (l : list Q) : nat := match l with [] => O | y :: t => if qeq y x then O else S (index_of x t) end.
Fixpoint insert_at {A} (i : nat) (x : A) (l : list A) : list A :=
  match i, l with O, _ => x :: l | S j, h :: t => h :: insert_at j x t | S _, [] => [x] end.
Fixpoint set_at {A} (i : nat) (x : A) (l : list A) : list A :=
  match i, l with O, _ :: t => x :: t | S j, h :: t => h :: set_at j x t | _, [] => [] end.
Fixpoint remove_at {A} (i : nat) (l : list A) : list A :=
  match i, l with O, _ :: t => t | S j, h :: t => h :: remove_at j t | _, [] => [] end.
Definition getb (l : list bin) (i : nat) : bin := nth i l (0, 0%Z).
Definition getq (l : list Q) (i : nat) : Q := nth i l 0.
Definition gaps (b : list bin) : list Q :=
  (fix go l := match l with (v1, _) :: (((v2, _) :: _) as t) => (v2 - v1) :: go t | _ => [] end) b.
(* _update_diffs(h, i) *)
Definition update_diffs (s : st) (i : nat) : st :=
  match diffs s with
  | None => s
  | Some d =>
    let n := length (bins s) in
    let '(d, md, upd) :=
      if Nat.ltb 0 i then
        let upd := qeq (getq d (i - 1)) (min_diff s) in
        let g := fst (getb (bins s) i) - fst (getb (bins s) (i - 1)) in
        let d := set_at (i - 1) g d in
        (d, (if qlt g (min_diff s) then g else min_diff s), upd)
      else (d, min_diff s, false) in
    let '(d, md, upd) :=
      if Nat.ltb i (n - 1) then
        let upd := upd || qeq (getq d i) md in
        let g := fst (getb (bins s) (S i)) - fst (getb (bins s) i) in
        let d := set_at i g d in
        (d, (if qlt g md then g else md), upd)
      else (d, md, upd) in
    let md := if upd then minl d else md in
    {| bins := bins s; hmin := hmin s; hmax := hmax s; diffs := Some d; min_diff := md; cap := cap s |}
  end.
(* _trim *)
Fixpoint trim (fuel : nat) (s : st) : st :=
  match fuel with O => s | S fuel =>
  if Nat.leb (length (bins s)) (cap s) then s else
  let i := match diffs s with Some d => index_of (min_diff s) d | None => index_of (minl (gaps (bins s))) (gaps (bins s)) end in
  let '(v1, f1) := getb (bins s) i in let '(v2, f2) := getb (bins s) (S i) in
  let b' := set_at i ((v1 * inject_Z f1 + v2 * inject_Z f2) / inject_Z (f1 + f2), (f1 + f2)%Z) (remove_at (S i) (bins s)) in
  let s1 := {| bins := b'; hmin := hmin s; hmax := hmax s; diffs := option_map (remove_at i) (diffs s); min_diff := min_diff s; cap := cap s |} in
  let s2 := update_diffs s1 i in
  let s3 := match diffs s2 with Some d => {| bins := bins s2; hmin := hmin s2; hmax := hmax s2; diffs := Some d; min_diff := minl d; cap := cap s2 |} | None => s2 end in
  trim fuel s3 end.
Definition bisect_left (b : list bin) (v : Q) : nat :=
  (fix go l := match l with [] => O | (x, f) :: t => if qlt x v || (qeq x v && Z.ltb f 1) then S (go t) else O end) b.
Inductive idx := First | Last | At (i : nat).
Definition update (s : st) (v : Q) (c : Z) : st :=
  let n := length (bins s) in
  let ix := match bins s with [] => At 0 | (v0, _) :: _ =>
              if qle v v0 then At 0 else if qle (fst (getb (bins s) (n - 1))) v then Last else At (bisect_left (bins s) v) end in
  let pos := match ix with Last => (n - 1)%nat | At i => i | First => O end in
  let hit := match bins s with [] => false | _ => qeq (fst (getb (bins s) pos)) v end in
  if hit then {| bins := set_at pos (fst (getb (bins s) pos), (snd (getb (bins s) pos) + c)%Z) (bins s); hmin := hmin s; hmax := hmax s; diffs := diffs s; min_diff := min_diff s; cap := cap s |}
  else
  let interior := match ix with At (S _) => true | _ => false end in
  (* _search_in_place_index computes the gap cache on first use *)
  let s := if interior && Nat.leb (cap s) n then
             match diffs s with None => {| bins := bins s; hmin := hmin s; hmax := hmax s; diffs := Some (gaps (bins s)); min_diff := minl (gaps (bins s)); cap := cap s |} | Some _ => s end
           else s in
  let inplace : option nat :=
    if interior && Nat.leb (cap s) n then
      let d1 := v - fst (getb (bins s) (pos - 1)) in let d2 := fst (getb (bins s) pos) - v in
      let '(ib, d) := if qlt d1 d2 then ((pos - 1)%nat, d1) else (pos, d2) in
      if qlt d (min_diff s) && Nat.ltb 0 ib then Some ib else None
    else None in
  match inplace with
  | Some ib =>
    let '(cv, cf) := getb (bins s) ib in
    update_diffs {| bins := set_at ib ((cv * inject_Z cf + v * inject_Z c) / inject_Z (cf + c), (cf + c)%Z) (bins s);
                    hmin := hmin s; hmax := hmax s; diffs := diffs s; min_diff := min_diff s; cap := cap s |} ib
  | None =>
    let s1 := match ix with
      | Last => let b' := bins s ++ [(v, c)] in
                let g := v - fst (getb (bins s) (n - 1)) in
                {| bins := b'; hmin := hmin s; hmax := hmax s; diffs := option_map (fun d => d ++ [g]) (diffs s);
                   min_diff := (match diffs s with Some _ => qmin (min_diff s) g | None => min_diff s end); cap := cap s |}
      | _ => update_diffs {| bins := insert_at pos (v, c) (bins s); hmin := hmin s; hmax := hmax s;
                             diffs := option_map (insert_at pos 0) (diffs s); min_diff := min_diff s; cap := cap s |} pos
      end in
    let mn := match hmin s1 with None => Some v | Some m => if qlt v m then Some v else Some m end in
    let mx := match hmax s1 with None => Some v | Some m => if qlt m v then Some v else Some m end in
    trim (S (length (bins s1))) {| bins := bins s1; hmin := mn; hmax := mx; diffs := diffs s1; min_diff := min_diff s1; cap := cap s1 |}
  end.
Definition empty (c : nat) : st := {| bins := []; hmin := None; hmax := None; diffs := None; min_diff := 0; cap := c |}.
Definition run (c : nat) (vs : list Z) : st := fold_left (fun s v => update s (inject_Z v) 1%Z) vs (empty c).
Definition show (s : st) := (map (fun b => (Qred (fst b), snd b)) (bins s), option_map Qred (hmin s), option_map Qred (hmax s), option_map (map Qred) (diffs s), Qred (min_diff s)).
Eval vm_compute in show (run 3 [100;200;300;400;150;1000]%Z).
Eval vm_compute in show (run 3 [10;20;30;25;12;28;40;11;29;29;5]%Z).
Eval vm_compute in show (run 2 [1;5;2;4;3;3;10;-1]%Z).
