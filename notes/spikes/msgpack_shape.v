(* spike 5: shape of the msgpack round-trip proof: nested value type, fuelled reader, nested induction *)
From Coq Require Import ZArith List Bool Lia ZifyBool ZifyNat.
Import ListNotations.
Open Scope Z_scope.
Inductive mval := MNil | MInt (z : Z) | MArr (l : list mval).
Fixpoint pack (v : mval) : list Z :=
  match v with
  | MNil => [192]
  | MInt z => if z <? 128 then [z] else [204; z]          (* posfixint / uint8 only in the spike *)
  | MArr l => (144 + Z.of_nat (length l)) :: flat_map pack l
  end.
Fixpoint wf (v : mval) : Prop :=
  match v with
  | MNil => True | MInt z => 0 <= z < 256
  | MArr l => (length l < 16)%nat /\ (fix all l := match l with [] => True | x :: t => wf x /\ all t end) l
  end.
Fixpoint depth (v : mval) : nat :=
  match v with MArr l => S (fold_right (fun x m => Nat.max (depth x) m) O l) | _ => 1%nat end.
Fixpoint unpack (fuel : nat) (bs : list Z) : option (mval * list Z) :=
  match fuel with O => None | S fuel =>
  match bs with
  | [] => None
  | b :: r =>
    if b =? 192 then Some (MNil, r)
    else if (0 <=? b) && (b <? 128) then Some (MInt b, r)
    else if b =? 204 then match r with z :: r' => Some (MInt z, r') | [] => None end
    else if (144 <=? b) && (b <? 160) then
      match (fix many (n : nat) (bs : list Z) : option (list mval * list Z) :=
         match n with O => Some ([], bs) | S n =>
           match unpack fuel bs with
           | Some (v, bs') => match many n bs' with Some (vs, bs'') => Some (v :: vs, bs'') | None => None end
           | None => None end end) (Z.to_nat (b - 144)) r with
      | Some (vs, r') => Some (MArr vs, r') | None => None end
    else None
  end end.
(* nested induction principle *)
Lemma mval_ind' (P : mval -> Prop) :
  P MNil -> (forall z, P (MInt z)) -> (forall l, Forall P l -> P (MArr l)) -> forall v, P v.
Proof.
  intros Hn Hi Ha. fix IH 1. intros [|z|l]; [exact Hn|exact (Hi z)|]. apply Ha.
  induction l as [|x t IHt]; constructor; [apply IH|exact IHt].
Qed.
Lemma wf_arr l : wf (MArr l) -> (length l < 16)%nat /\ Forall wf l.
Proof. cbn. intros [H1 H2]. split; [exact H1|]. clear H1. induction l as [|x t IHt]; [constructor|]. destruct H2 as [Hx Ht]. constructor; [exact Hx|exact (IHt Ht)]. Qed.
Theorem unpack_pack v : wf v -> forall fuel rest, (depth v <= fuel)%nat -> unpack fuel (pack v ++ rest) = Some (v, rest).
Proof.
  induction v as [|z|l IH] using mval_ind'; intros Hwf fuel rest Hf.
  - destruct fuel; cbn in *; [lia|reflexivity].
  - destruct fuel; [cbn in Hf; lia|]. cbn in Hwf. cbn [pack].
    destruct (z <? 128) eqn:E; cbn [app unpack].
    + destruct (z =? 192) eqn:E1; [lia|]. replace ((0 <=? z) && (z <? 128)) with true by lia. reflexivity.
    + cbn. reflexivity.
  - destruct fuel; [cbn in Hf; lia|].
    apply wf_arr in Hwf. destruct Hwf as [Hlen Hall].
    cbn [pack app unpack].
    set (b := 144 + Z.of_nat (length l)).
    destruct (b =? 192) eqn:E1; [lia|].
    replace ((0 <=? b) && (b <? 128)) with false by lia.
    destruct (b =? 204) eqn:E2; [lia|].
    replace ((144 <=? b) && (b <? 160)) with true by lia.
    replace (Z.to_nat (b - 144)) with (length l) by lia.
    clear E1 E2 b Hlen.
    assert (Hd : Forall (fun x => (depth x <= fuel)%nat) l).
    { cbn in Hf. apply Nat.succ_le_mono in Hf. clear -Hf. induction l as [|x t IHt]; constructor; cbn in Hf; [lia| apply IHt; lia]. }
    clear Hf.
    enough (G : forall rest, (fix many (n : nat) (bs : list Z) {struct n} : option (list mval * list Z) :=
         match n with O => Some ([], bs) | S n =>
           match unpack fuel bs with
           | Some (v, bs') => match many n bs' with Some (vs, bs'') => Some (v :: vs, bs'') | None => None end
           | None => None end end) (length l) (flat_map pack l ++ rest) = Some (l, rest)).
    { rewrite G. reflexivity. }
    induction l as [|x t IHt]; intros rest0; [reflexivity|].
    inversion IH; subst. inversion Hall; subst. inversion Hd; subst.
    cbn [length flat_map]. rewrite <- app_assoc. rewrite H1 by assumption.
    rewrite IHt by assumption. reflexivity.
Qed.
Print Assumptions unpack_pack.
