# spike: deterministic line-level scheduler over the REAL single_item_cache wrapper
import sys, threading
sys.path.insert(0, "/repo")
from orso.tools import single_item_cache

calls = []
@single_item_cache
def f(x):
    calls.append(x); return ("result-for", x)

wrapper_code = f.__code__            # the inner 'wrapper' function object's code
class Sched:
    def __init__(self, schedule):
        self.schedule = list(schedule); self.turn = threading.Condition(); self.cur = None
        self.done = set(); self.pos = 0
    def want(self, tid):
        with self.turn:
            while True:
                if self.pos >= len(self.schedule): return            # free-run after schedule ends
                nxt = self.schedule[self.pos]
                if nxt in self.done: self.pos += 1; self.turn.notify_all(); continue
                if nxt == tid: self.pos += 1; self.turn.notify_all(); return
                self.turn.wait(0.05)
    def finish(self, tid):
        with self.turn: self.done.add(tid); self.turn.notify_all()
def run(schedule, args):
    s = Sched(schedule); out = {}
    def tracer_for(tid):
        def local(frame, event, arg):
            if event == "line": s.want(tid)
            return local
        def glob(frame, event, arg):
            if event == "call" and frame.f_code is wrapper_code: return local
            return None
        return glob
    def body(tid, a):
        sys.settrace(tracer_for(tid))
        try: out[tid] = f(a)
        finally: sys.settrace(None); s.finish(tid)
    ts = [threading.Thread(target=body, args=(i, a)) for i, a in enumerate(args)]
    [t.start() for t in ts]; [t.join() for t in ts]
    return out
f(7)                                   # cache now holds 7 -> result-for 7
# thread 0 runs until it has written last_args (but not last_result); then thread 1 runs to completion
for k in range(4, 14):
    f(7)
    out = run([0]*k + [1]*30 + [0]*30, [3, 3])
    bad = {t: r for t, r in out.items() if r != ("result-for", 3)}
    print(k, out, "STALE" if bad else "")
