(* spike 2: exact-arithmetic facts the histogram proofs rest on *)
From Coq Require Import QArith Lqa Psatz List Lia.
Import ListNotations.
Open Scope Q_scope.
(* weighted centroid of two bins lies strictly between them *)
Lemma centroid_between (a b f1 f2 : Q) :
  a < b -> 0 < f1 -> 0 < f2 ->
  a < (a * f1 + b * f2) / (f1 + f2) /\ (a * f1 + b * f2) / (f1 + f2) < b.
Proof.
  intros Hab H1 H2.
  assert (Hs : 0 < f1 + f2) by lra.
  split.
  - apply Qlt_shift_div_l; [exact Hs|]. nra.
  - apply Qlt_shift_div_r; [exact Hs|]. nra.
Qed.
(* merging conserves the first moment *)
Lemma centroid_moment (a b f1 f2 : Q) : 0 < f1 + f2 ->
  (a * f1 + b * f2) / (f1 + f2) * (f1 + f2) == a * f1 + b * f2.
Proof. intros H. field. lra. Qed.
(* count_at interior branch is monotone: trapezoid area *)
Lemma trapezoid_mono (vi vj fi fj x y : Q) :
  vi < vj -> 0 < fi -> 0 < fj -> vi <= x -> x <= y -> y <= vj ->
  let g t := (fi + (fi + (fj - fi) / (vj - vi) * (t - vi))) / 2 * (t - vi) / (vj - vi) in
  g x <= g y.
Proof.
  intros Hv Hfi Hfj Hx Hxy Hy g. unfold g.
  set (d := vj - vi). assert (Hd : 0 < d) by (unfold d; lra).
  set (s := x - vi). set (t := y - vi).
  assert (0 <= s) by (unfold s; lra). assert (s <= t) by (unfold s, t; lra). assert (t <= d) by (unfold t, d; lra).
  (* g = (2 fi u + (fj-fi) u^2/d) / (2 d) with u = t - vi *)
  assert (E : forall u, (fi + (fi + (fj - fi) / d * u)) / 2 * u / d == (2 * fi * u * d + (fj - fi) * u * u) / (2 * d * d)).
  { intros u. field. lra. }
  rewrite (E s), (E t).
  apply Qle_shift_div_l; [nra|].
  assert (E2 : (2 * fi * s * d + (fj - fi) * s * s) / (2 * d * d) * (2 * d * d) == 2 * fi * s * d + (fj - fi) * s * s) by (field; lra).
  rewrite E2.
  (* f(t)-f(s) = (t-s)(2 fi d + (fj-fi)(t+s)) >= 0 since (t+s) <= 2d and fj>0 *)
  assert (0 <= (t - s) * (2 * fi * d + (fj - fi) * (t + s))).
  { apply Qmult_le_0_compat; [lra|].
    destruct (Qlt_le_dec fj fi).
    - assert ((fi - fj) * (t + s) <= (fi - fj) * (2 * d)) by (apply Qmult_le_l; lra). nra.
    - assert (0 <= (fj - fi) * (t + s)) by (apply Qmult_le_0_compat; lra). nra. }
  nra.
Qed.
Print Assumptions trapezoid_mono.
