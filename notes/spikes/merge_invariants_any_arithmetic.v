(* spike: order / mass / bounds survive a merge for ANY centroid function once it is clamped *)
From Coq Require Import QArith Lqa ZArith List Bool Lia.
Import ListNotations.
Open Scope Q_scope.
Definition bin := (Q * Z)%type.
Section M.
Variable mix : Q -> Z -> Q -> Z -> Q.            (* whatever the arithmetic computes: float, longdouble, exact *)
Definition qltb a b := negb (Qle_bool b a).
Definition clamp (x lo hi : Q) : Q := if qltb x lo then lo else if qltb hi x then hi else x.
Definition merge2 (b1 b2 : bin) : bin := (clamp (mix (fst b1) (snd b1) (fst b2) (snd b2)) (fst b1) (fst b2), (snd b1 + snd b2)%Z).
Fixpoint merge_at (i : nat) (l : list bin) {struct l} : list bin :=
  match l with
  | b1 :: ((b2 :: t) as r) => match i with O => merge2 b1 b2 :: t | S j => b1 :: merge_at j r end
  | _ => l
  end.
Lemma merge_at_S j b1 b2 t : merge_at (S j) (b1 :: b2 :: t) = b1 :: merge_at j (b2 :: t).
Proof. reflexivity. Qed.
Lemma merge_at_O b1 b2 t : merge_at O (b1 :: b2 :: t) = merge2 b1 b2 :: t.
Proof. reflexivity. Qed.
Fixpoint sorted (l : list bin) : Prop :=
  match l with
  | b1 :: ((b2 :: _) as r) => fst b1 < fst b2 /\ sorted r
  | _ => True
  end.
Definition mass (l : list bin) : Z := fold_right (fun b a => (snd b + a)%Z) 0%Z l.
Definition within (lo hi : Q) (l : list bin) : Prop := Forall (fun b => lo <= fst b <= hi) l.

Lemma qltb_spec a b : reflect (a < b) (qltb a b).
Proof.
  unfold qltb. destruct (Qle_bool b a) eqn:E; cbn [negb]; constructor.
  - apply Qle_bool_iff in E. lra.
  - destruct (Qlt_le_dec a b) as [H|H]; [exact H|]. apply Qle_bool_iff in H. congruence.
Qed.
Lemma clamp_between x lo hi : lo <= hi -> lo <= clamp x lo hi <= hi.
Proof. intros H. unfold clamp. destruct (qltb_spec x lo); [lra|]. destruct (qltb_spec hi x); lra. Qed.

Lemma merge_sorted i l : sorted l -> sorted (merge_at i l).
Proof.
  revert i. induction l as [|b1 r IH]; intros i Hs; [destruct i; exact I|].
  destruct r as [|b2 t]; [destruct i; exact I|].
  destruct i as [|j].
  - cbn [merge_at]. destruct Hs as [H12 Hr]. destruct t as [|b3 t']; [exact I|].
    destruct Hr as [H23 Ht]. cbn [sorted]. split; [|exact Ht].
    unfold merge2; cbn [fst]. pose proof (clamp_between (mix (fst b1) (snd b1) (fst b2) (snd b2)) (fst b1) (fst b2) ltac:(lra)). lra.
  - rewrite merge_at_S. destruct Hs as [H12 Hr]. specialize (IH j Hr).
    (* head of the merged tail is >= fst b2 or is b2 itself *)
    destruct t as [|b3 t'].
    + cbn in *. split; [exact H12|exact I].
    + destruct j as [|k].
      * cbn [merge_at] in *. split; [|exact IH].
        unfold merge2; cbn [fst]. destruct Hr as [H23 _].
        pose proof (clamp_between (mix (fst b2) (snd b2) (fst b3) (snd b3)) (fst b2) (fst b3) ltac:(lra)). lra.
      * cbn [merge_at] in *. split; [exact H12|exact IH].
Qed.
Lemma merge_mass i l : mass (merge_at i l) = mass l.
Proof.
  revert i. induction l as [|b1 r IH]; intros i; [destruct i; reflexivity|].
  destruct r as [|b2 t]; [destruct i; reflexivity|]. destruct i as [|j].
  - rewrite merge_at_O. unfold mass, merge2. cbn [fold_right snd]. lia.
  - rewrite merge_at_S. change (mass (b1 :: merge_at j (b2 :: t))) with (snd b1 + mass (merge_at j (b2 :: t)))%Z. rewrite IH. reflexivity.
Qed.
Lemma merge_length i l : (i + 1 < length l)%nat -> length (merge_at i l) = (length l - 1)%nat.
Proof.
  revert i. induction l as [|b1 r IH]; intros i H; [cbn in H; lia|].
  destruct r as [|b2 t]; [cbn in H; lia|]. destruct i as [|j]; [cbn; lia|].
  rewrite merge_at_S. cbn [length] in *. rewrite IH by (cbn [length]; lia). cbn [length]. lia.
Qed.
Lemma merge_within lo hi i l : within lo hi l -> within lo hi (merge_at i l).
Proof.
  revert i. induction l as [|b1 r IH]; intros i H; [destruct i; exact H|].
  destruct r as [|b2 t]; [destruct i; exact H|]. inversion H as [|? ? H1 Hr]; subst. inversion Hr as [|? ? H2 Ht]; subst.
  destruct i as [|j]; [rewrite merge_at_O|rewrite merge_at_S].
  - constructor; [|exact Ht]. unfold merge2; cbn [fst].
    destruct (Qlt_le_dec (fst b2) (fst b1)).
    + (* unsorted input: clamp still returns one of its arguments or x; handle by cases *)
      unfold clamp. destruct (qltb_spec (mix (fst b1) (snd b1) (fst b2) (snd b2)) (fst b1)); [lra|].
      destruct (qltb_spec (fst b2) (mix (fst b1) (snd b1) (fst b2) (snd b2))); lra.
    + pose proof (clamp_between (mix (fst b1) (snd b1) (fst b2) (snd b2)) (fst b1) (fst b2) ltac:(lra)). lra.
  - constructor; [exact H1|]. apply IH. exact Hr.
Qed.
End M.
Print Assumptions merge_sorted.
Print Assumptions merge_within.
