(* spike 1: Python slice clamping + the tail/slice window arithmetic of dataframe.py *)
From Coq Require Import ZArith List Bool Lia ZifyBool ZifyNat.
Import ListNotations.
Open Scope Z_scope.
Section S.
Context {A : Type}.
(* l[a:b] with Python semantics, a b arbitrary integers *)
Definition norm (n i : Z) : Z := if i <? 0 then Z.max 0 (i + n) else Z.min i n.
Definition py_slice (a b : Z) (l : list A) : list A :=
  let n := Z.of_nat (length l) in
  let a' := norm n a in let b' := norm n b in
  firstn (Z.to_nat (b' - a')) (skipn (Z.to_nat a') l).
Definition py_slice_from (a : Z) (l : list A) : list A :=
  let n := Z.of_nat (length l) in skipn (Z.to_nat (norm n a)) l.
(* DataFrame.slice as written (pinned) *)
Definition df_slice (offset : Z) (len : option Z) (l : list A) : list A :=
  let n := Z.of_nat (length l) in
  let offset := if offset <? 0 then n + offset else offset in
  match len with
  | None => py_slice_from offset l
  | Some 0 => []
  | Some k => py_slice offset (offset + k) l
  end.
Definition df_tail (k : Z) l := df_slice (0 - k) (Some k) l.
(* repaired: clamp *)
Definition df_slice' (offset : Z) (len : option Z) (l : list A) : list A :=
  let n := Z.of_nat (length l) in
  let offset := if offset <? 0 then Z.max 0 (n + offset) else offset in
  match len with
  | None => py_slice_from offset l
  | Some 0 => []
  | Some k => py_slice offset (offset + k) l
  end.
Definition df_tail' (k : Z) l := df_slice' (0 - k) (Some k) l.
Definition spec_tail (k : Z) (l : list A) : list A :=
  skipn (length l - Nat.min (Z.to_nat k) (length l)) l.

Lemma firstn_all2' n (l : list A) : (length l <= n)%nat -> firstn n l = l.
Proof. apply firstn_all2. Qed.

Theorem tail_ok k l : 0 <= k -> df_tail' k l = spec_tail k l.
Proof.
  intros Hk. unfold df_tail', df_slice', spec_tail.
  destruct (Z.eqb_spec k 0) as [->|Hk0].
  - cbn. rewrite Nat.sub_0_r. now rewrite skipn_all.
  - assert (Hs : (match k with 0 => [] | _ => py_slice (if 0 - k <? 0 then Z.max 0 (Z.of_nat (length l) + (0 - k)) else 0 - k)
        ((if 0 - k <? 0 then Z.max 0 (Z.of_nat (length l) + (0 - k)) else 0 - k) + k) l end)
       = py_slice (Z.max 0 (Z.of_nat (length l) - k)) (Z.max 0 (Z.of_nat (length l) - k) + k) l).
    { destruct k; try lia. destruct (0 - Z.pos p <? 0) eqn:E; try lia. f_equal; lia. }
    rewrite Hs. clear Hs. unfold py_slice, norm.
    set (n := Z.of_nat (length l)).
    destruct (Z.max 0 (n - k) <? 0) eqn:E1; [lia|].
    destruct (Z.max 0 (n - k) + k <? 0) eqn:E2; [lia|].
    replace (Z.to_nat (Z.min (Z.max 0 (n - k)) n)) with (length l - Nat.min (Z.to_nat k) (length l))%nat by lia.
    apply firstn_all2. rewrite skipn_length. lia.
Qed.
End S.
(* the pinned code is refuted *)
Example tail_refuted : exists k (l : list nat), 0 <= k /\ df_tail k l <> spec_tail k l.
Proof. exists 5, [1;2;3]%nat. split; [lia|]. vm_compute. discriminate. Qed.
Print Assumptions tail_ok.
