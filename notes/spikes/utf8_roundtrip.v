(* spike: UTF-8 encode/decode over code points as Z, arithmetic (div/mod) formulation so lia can close it *)
From Coq Require Import ZArith List Bool Lia ZifyBool.
Import ListNotations.
Open Scope Z_scope.
Ltac Zify.zify_post_hook ::= Z.to_euclidean_division_equations.
Definition scalar (c : Z) : Prop := (0 <= c < 55296) \/ (57344 <= c < 1114112).   (* no surrogates *)
Definition enc1 (c : Z) : list Z :=
  if c <? 128 then [c]
  else if c <? 2048 then [192 + c / 64; 128 + c mod 64]
  else if c <? 65536 then [224 + c / 4096; 128 + (c / 64) mod 64; 128 + c mod 64]
  else [240 + c / 262144; 128 + (c / 4096) mod 64; 128 + (c / 64) mod 64; 128 + c mod 64].
Definition cont (b : Z) : bool := (128 <=? b) && (b <? 192).
(* strict decoder: rejects overlong forms, surrogates, > U+10FFFF, stray continuation bytes (as CPython does) *)
Definition dec1 (bs : list Z) : option (Z * list Z) :=
  match bs with
  | [] => None
  | b0 :: r =>
    if (0 <=? b0) && (b0 <? 128) then Some (b0, r)
    else if (194 <=? b0) && (b0 <? 224) then
      match r with b1 :: r' => if cont b1 then Some ((b0 - 192) * 64 + (b1 - 128), r') else None | _ => None end
    else if (224 <=? b0) && (b0 <? 240) then
      match r with b1 :: b2 :: r' =>
        if cont b1 && cont b2 then
          let c := (b0 - 224) * 4096 + (b1 - 128) * 64 + (b2 - 128) in
          if (2048 <=? c) && negb ((55296 <=? c) && (c <? 57344)) then Some (c, r') else None
        else None | _ => None end
    else if (240 <=? b0) && (b0 <? 245) then
      match r with b1 :: b2 :: b3 :: r' =>
        if cont b1 && cont b2 && cont b3 then
          let c := (b0 - 240) * 262144 + (b1 - 128) * 4096 + (b2 - 128) * 64 + (b3 - 128) in
          if (65536 <=? c) && (c <? 1114112) then Some (c, r') else None
        else None | _ => None end
    else None
  end.
Lemma dec1_enc1 c rest : scalar c -> dec1 (enc1 c ++ rest) = Some (c, rest).
Proof.
  intros Hc. unfold enc1.
  destruct (c <? 128) eqn:E1; [cbn [app dec1]; replace ((0 <=? c) && (c <? 128)) with true by (unfold scalar in Hc; lia); reflexivity|].
  destruct (c <? 2048) eqn:E2.
  { cbn [app dec1]. set (b0 := 192 + c / 64). set (b1 := 128 + c mod 64).
    replace ((0 <=? b0) && (b0 <? 128)) with false by (unfold b0; lia).
    replace ((194 <=? b0) && (b0 <? 224)) with true by (unfold b0; lia).
    unfold cont. replace ((128 <=? b1) && (b1 <? 192)) with true by (unfold b1; lia).
    do 2 f_equal. unfold b0, b1. lia. }
  destruct (c <? 65536) eqn:E3.
  { cbn [app dec1]. set (b0 := 224 + c / 4096). set (b1 := 128 + (c / 64) mod 64). set (b2 := 128 + c mod 64).
    replace ((0 <=? b0) && (b0 <? 128)) with false by (unfold b0; lia).
    replace ((194 <=? b0) && (b0 <? 224)) with false by (unfold b0; lia).
    replace ((224 <=? b0) && (b0 <? 240)) with true by (unfold b0; lia).
    unfold cont. replace ((128 <=? b1) && (b1 <? 192)) with true by (unfold b1; lia).
    replace ((128 <=? b2) && (b2 <? 192)) with true by (unfold b2; lia). cbn [andb].
    assert (Hv : (b0 - 224) * 4096 + (b1 - 128) * 64 + (b2 - 128) = c) by (unfold b0, b1, b2; lia).
    rewrite Hv. replace ((2048 <=? c) && negb ((55296 <=? c) && (c <? 57344))) with true by (unfold scalar in Hc; lia). reflexivity. }
  cbn [app dec1]. set (b0 := 240 + c / 262144). set (b1 := 128 + (c / 4096) mod 64). set (b2 := 128 + (c / 64) mod 64). set (b3 := 128 + c mod 64).
  assert (c < 1114112) by (unfold scalar in Hc; lia).
  replace ((0 <=? b0) && (b0 <? 128)) with false by (unfold b0; lia).
  replace ((194 <=? b0) && (b0 <? 224)) with false by (unfold b0; lia).
  replace ((224 <=? b0) && (b0 <? 240)) with false by (unfold b0; lia).
  replace ((240 <=? b0) && (b0 <? 245)) with true by (unfold b0; lia).
  unfold cont. replace ((128 <=? b1) && (b1 <? 192)) with true by (unfold b1; lia).
  replace ((128 <=? b2) && (b2 <? 192)) with true by (unfold b2; lia).
  replace ((128 <=? b3) && (b3 <? 192)) with true by (unfold b3; lia). cbn [andb].
  assert (Hv : (b0 - 240) * 262144 + (b1 - 128) * 4096 + (b2 - 128) * 64 + (b3 - 128) = c) by (unfold b0, b1, b2, b3; lia).
  rewrite Hv. replace ((65536 <=? c) && (c <? 1114112)) with true by lia. reflexivity.
Qed.
Print Assumptions dec1_enc1.
