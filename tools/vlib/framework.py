"""The per-property check pipeline (DESIGN.md section 2): regenerate tables, build the
proofs, hygiene, correspondence model<->implementation evaluated inside Coq, property
oracle on the implementation, known findings, verdict, evidence, replay."""
import importlib
import json
import os
import random
import re
import sys
import time
import traceback

from . import coqrun

VERIF = coqrun.VERIF
REPO = os.environ.get("ORSO_REPO", "/repo")
SHARD = 400

GLOBAL_TRUSTED = [
    "Coq 8.16.1 kernel (coqc); vm_compute used in finite-domain proofs and to evaluate the models in the correspondence files; native_compute not used",
    "no Axiom/Parameter/Admitted in the development (scanned on every run); Print Assumptions of every property theorem re-run on every run and recorded below",
    "tools/vlib (this pipeline), tools/vlib/coqlit.py (Python value -> Coq literal printer), the property's generator/canonicaliser in tools/props/<id>.py",
    "the hand-written Gallina models are models: theorems are about them; they are tied to /repo by the correspondence run (model evaluated by the Coq VM on the inputs the implementation ran on) and by tables regenerated from the live modules",
    "CPython 3.12 and the installed third-party libraries (numpy, pyarrow, pandas, ormsgpack, orjson, xxhash) as black boxes behind the implementation",
    "orso/compute/compiled.pyx cannot be rebuilt here (no Cython): checks execute the shipped compiled .so",
    "no extraction is used (no Extract Constant / Extract Inductive directives)",
]


def load_plugin(pid):
    return importlib.import_module(f"props.{pid}")


def jdump(x):
    return json.dumps(x, sort_keys=True, default=repr)


def load_known(pid):
    path = os.path.join(VERIF, "known_findings.jsonl")
    known, fixed = [], []
    if os.path.exists(path):
        for line in open(path):
            line = line.strip()
            if not line or line.startswith("#"):
                continue
            e = json.loads(line)
            if e.get("property") != pid:
                continue
            (known if e.get("status") == "known" else fixed).append(e)
    return known, fixed


def load_corpus(pid):
    path = os.path.join(VERIF, "tools", "corpus", pid + ".jsonl")
    out = []
    if os.path.exists(path):
        for line in open(path):
            line = line.strip()
            if line:
                out.append(json.loads(line))
    return out


def theorem_names(props_file):
    src = coqrun.strip_comments(open(props_file).read())
    return re.findall(r"^\s*Theorem\s+([A-Za-z0-9_']+)", src, re.M)


def assumptions_ok(text):
    if text.startswith("ERROR"):
        return False
    if "Closed under the global context" in text:
        return True
    # Only primitive machine operations (PrimFloat / Uint63) are tolerated: they are not
    # axioms of this development.  Anything else is an alarm.
    body = text.replace("Axioms:", "")
    names = re.findall(r"^([A-Za-z0-9_.']+)\s*:", body, re.M)
    allowed_prefix = ("PrimFloat.", "Uint63.", "PrimInt63.", "Float64.", "Coq.Floats.PrimFloat.", "Coq.Numbers.Cyclic.Int63.")
    return bool(names) and all(n.startswith(allowed_prefix) for n in names)


class Run:
    def __init__(self, pid, tier, seed):
        self.pid, self.tier, self.seed = pid, tier, seed
        self.t0 = time.time()
        self.P = load_plugin(pid)
        self.obligations = []  # (name, ok, detail)
        self.violations = []  # dicts
        self.notes = []
        self.scratch = None
        self.checker_cmds = []

    def ob(self, name, ok, detail=""):
        self.obligations.append((name, bool(ok), detail))

    # ---- S1/S2/S3 -------------------------------------------------------------
    def build(self):
        P = self.P
        if True:
            # S1 regenerate
            gen_ok = True
            if hasattr(P, "gen"):
                try:
                    tables = P.gen(REPO)
                    for name, text in tables.items():
                        coqrun.write_if_changed(os.path.join(coqrun.COQ, "Gen", name + ".v"), text)
                        self.ob(f"gen:{name}", True)
                except Exception as e:  # fail closed
                    gen_ok = False
                    self.ob("gen:" + self.pid, False, "".join(traceback.format_exception_only(type(e), e)).strip())
            # S2 build
            targets = [f"Props/{self.pid}.vo", "Corr/CorrLib.vo"] + list(getattr(P, "MODEL_VOS", [f"Model/{self.pid}.vo"])) \
                + [t for t in getattr(P, "EXTRA_TARGETS", [])]
            ok, log, cmd, dt = coqrun.make(targets)
            self.checker_cmds.append(f"cd {coqrun.COQ} && {cmd}")
            self.build_ok = ok
            self.build_log = log
        props_file = os.path.join(coqrun.COQ, "Props", self.pid + ".v")
        self.theorems = theorem_names(props_file)
        if not ok:
            loc = coqrun.locate_failure(log)
            self.build_failure = loc
            nm = (loc or {}).get("name") or "?"
            self.ob(f"thm:build {(loc or {}).get('file','?')}:{(loc or {}).get('line','?')} ({nm})", False, log[-1500:])
            for t in self.theorems:
                self.ob("thm:" + t, False, "development does not build")
            self.pa = {}
        else:
            self.pa = coqrun.print_assumptions(f"Props.{self.pid}", self.theorems, self.scratch)
            self.checker_cmds.append(f"coqc -Q {coqrun.COQ} Orso <scratch>/assumptions_Props_{self.pid}.v  (Print Assumptions for each theorem)")
            for t in self.theorems:
                self.ob("thm:" + t, assumptions_ok(self.pa.get(t, "ERROR")), self.pa.get(t, ""))
        if not self.theorems:
            self.ob("thm:none-found", False, "Props file declares no Theorem")
        # S3 hygiene
        roots = [f"Props/{self.pid}.v", "Corr/CorrLib.v"] + [t[:-1] for t in getattr(P, "MODEL_VOS", [f"Model/{self.pid}.vo"])]
        self.hygiene_files = coqrun.dep_closure(roots)
        bad = coqrun.hygiene(self.hygiene_files)
        self.ob("hygiene:no-axioms-admits", not bad, "; ".join(bad[:10]))
        if self.tier == "thorough" and ok and os.environ.get("VERIF_COQCHK", "1") == "1":
            self.coqchk()

    def coqchk(self):
        import subprocess

        cmd = ["timeout", "1500", "coqchk", "-silent", "-o", "-Q", coqrun.COQ, "Orso", f"Orso.Props.{self.pid}"]
        r = subprocess.run(cmd, cwd=coqrun.COQ, capture_output=True, text=True)
        out = (r.stdout + r.stderr)
        self.checker_cmds.append(" ".join(cmd))
        m = re.search(r"\* Axioms:(.*?)(\n\s*\*|\Z)", out, re.S)
        axioms = m.group(1).strip() if m else out[-800:]
        self.coqchk_axioms = axioms
        self.ob("coqchk:" + self.pid, r.returncode == 0, axioms[:2000])

    # ---- S4/S5 ----------------------------------------------------------------
    def all_cases(self):
        P = self.P
        rng = random.Random(self.seed)
        _, fixed = load_known(self.pid)
        for e in fixed:
            if "witness" in e and e["witness"] is not None:
                yield ("corpus", e["witness"])
        for c in load_corpus(self.pid):
            yield ("corpus", c)
        if hasattr(P, "corpus"):
            for c in P.corpus():
                yield ("corpus", c)
        self.exhaustive = False
        if hasattr(P, "exhaustive"):
            r = P.exhaustive(self.tier)
            if r is not None:
                it, label = r
                self.exhaustive_label = label
                self.exhaustive = True
                for c in it:
                    yield ("exhaustive", c)
        for c in P.generate(rng, self.tier):
            yield ("random", c)

    def explore(self, only_case=None):
        P = self.P
        known, _ = load_known(self.pid)
        self.evaluations = 0
        self.nontrivial = set()
        self.samples = []
        self.dist = {}
        self.known_skipped = {}
        streams = {}  # stream -> list of (idx, term)
        self.cases = []
        src = [("replay", only_case)] if only_case is not None else self.all_cases()
        for origin, case in src:
            idx = len(self.cases)
            try:
                obs = P.observe(case)
            except Exception as e:
                obs = {"harness_error": repr(e), "trace": traceback.format_exc()[-800:]}
                self.cases.append((origin, case, obs))
                self.violations.append({"kind": "harness-error", "case": case, "observed": obs,
                                        "required": "the harness must be able to observe the implementation on this case"})
                continue
            self.cases.append((origin, case, obs))
            self.evaluations += 1
            kf = P.known(case, obs) if hasattr(P, "known") else None
            if kf is not None:
                self.known_skipped[kf] = self.known_skipped.get(kf, 0) + 1
                continue
            if hasattr(P, "classify"):
                for k in P.classify(case, obs):
                    self.dist[k] = self.dist.get(k, 0) + 1
            key = P.nontrivial_key(case, obs) if hasattr(P, "nontrivial_key") else jdump(case)
            if key is not None:
                self.nontrivial.add(key if isinstance(key, (str, int, tuple)) else jdump(key))
            if len(self.samples) < 4 or (origin == "random" and len(self.samples) < 8):
                self.samples.append({"origin": origin, "case": case, "observed": obs})
            try:
                why = P.oracle(case, obs)
            except Exception as e:
                why = "oracle raised " + repr(e)
            if why is not None:
                self.violations.append({"kind": "impl-violates-property", "case": case, "observed": obs, "required": why, "origin": origin})
            t = P.to_coq(case, obs) if hasattr(P, "to_coq") else None
            if t is not None:
                stream, term = t
                streams.setdefault(stream, []).append((idx, term))
        self.ob("oracle:property-holds-on-implementation", not [v for v in self.violations if v["kind"] != "model-impl-mismatch"],
                f"{len(self.violations)} violating cases")
        self.run_corr(streams)
        # known findings: replay each witness
        self.known_lines = []
        for e in known:
            w = e.get("witness")
            if w is None:
                w = getattr(P, "KNOWN_WITNESSES", {}).get(e["id"])
            try:
                if w is None:
                    why = "listed without a replayable witness"
                elif hasattr(P, "known_still_fails"):
                    why = P.known_still_fails(e["id"], w)
                else:
                    obs = P.observe(w)
                    why = P.oracle(w, obs)
            except Exception as ex:
                why = "witness could not be replayed: " + repr(ex)
            if why is not None:
                self.known_lines.append(f"KNOWN-FINDING: property={self.pid} {e['id']} {e['what']}")
            else:
                self.notes.append(f"known finding {e['id']} no longer reproduces on its witness")

    def run_corr(self, streams):
        P = self.P
        self.corr_cases = 0
        self.mismatches = []
        if not streams:
            return
        if not getattr(self, "build_ok", True) and not self.model_built():
            self.ob("corr:models-build", False, "Model files do not compile; correspondence cannot run")
            return
        files = []
        meta = []
        for stream, items in streams.items():
            chk = P.COQ_CHECKS[stream]
            for s in range(0, len(items), SHARD):
                part = items[s:s + SHARD]
                name = f"cases_{self.pid}_{stream}_{s // SHARD}.v"
                path = os.path.join(self.scratch, name)
                with open(path, "w") as f:
                    f.write(P.COQ_IMPORTS.strip() + "\n")
                    f.write("From Orso Require Import Corr.CorrLib.\nFrom Coq Require Import List NArith ZArith.\nImport ListNotations.\n")
                    f.write("Definition cases := [\n" + ";\n".join(t for _, t in part) + "\n].\n")
                    f.write(f"Eval vm_compute in (mismatches ({chk}) cases).\n")
                files.append(path)
                meta.append((stream, part))
        self.checker_cmds.append(f"coqc -Q {coqrun.COQ} Orso <scratch>/cases_{self.pid}_<stream>_<k>.v  ({len(files)} shards, Eval vm_compute in (mismatches check cases))")
        results = coqrun.run_files(files)
        for (stream, part), (rc, out, err), path in zip(meta, results, files):
            self.corr_cases += len(part)
            shard = os.path.basename(path)
            if rc != 0:
                self.ob(f"corr:{shard}", False, "coqc failed: " + (err or out)[-600:])
                self.mismatches.append({"shard": shard, "error": (err or out)[-600:]})
                continue
            mm = coqrun.parse_N_list(out)
            if mm is None:
                self.ob(f"corr:{shard}", False, "unparsable coqc output: " + out[-300:])
                continue
            self.ob(f"corr:{shard}", not mm, f"{len(mm)} mismatching cases" if mm else "")
            for k in mm:
                idx, term = part[k]
                origin, case, obs = self.cases[idx]
                shown = self.show_model(stream, term) if len(self.mismatches) < 3 else None
                self.mismatches.append({"shard": shard, "stream": stream, "case": case, "observed": obs, "model_output": shown})

    def model_built(self):
        return all(os.path.exists(os.path.join(coqrun.COQ, t)) for t in getattr(self.P, "MODEL_VOS", [f"Model/{self.pid}.vo"]))

    def show_model(self, stream, term):
        P = self.P
        show = getattr(P, "COQ_SHOW", {}).get(stream)
        if not show:
            return None
        path = os.path.join(self.scratch, "show_%d.v" % int(time.time() * 1e6 % 1e9))
        with open(path, "w") as f:
            f.write(P.COQ_IMPORTS.strip() + "\nFrom Coq Require Import List NArith ZArith.\nImport ListNotations.\n")
            f.write(f"Eval vm_compute in (({show}) ({term})).\n")
        rc, out, err = coqrun.coqc_file(path, 120)
        return (out if rc == 0 else err)[-1500:].strip()

    # ---- S6 -------------------------------------------------------------------
    def search(self, budget_s):
        """An obligation broke but no explored case violates the property: look harder."""
        P = self.P
        rng = random.Random(self.seed + 7919)
        t_end = time.time() + budget_s
        n = 0
        gen = P.search(rng) if hasattr(P, "search") else P.generate(rng, "thorough")
        for case in gen:
            if time.time() > t_end:
                break
            n += 1
            try:
                obs = P.observe(case)
                if hasattr(P, "known") and P.known(case, obs) is not None:
                    continue
                why = P.oracle(case, obs)
            except Exception:
                continue
            if why is not None:
                return {"kind": "impl-violates-property", "case": case, "observed": obs, "required": why, "origin": "search"}, n
        return None, n

    def shrink(self, v):
        P = self.P
        if not hasattr(P, "shrink"):
            return v
        case = v["case"]
        t_end = time.time() + 20
        improved = True
        while improved and time.time() < t_end:
            improved = False
            for cand in P.shrink(case):
                try:
                    obs = P.observe(cand)
                    if hasattr(P, "known") and P.known(cand, obs) is not None:
                        continue
                    why = P.oracle(cand, obs)
                except Exception:
                    continue
                if why is not None:
                    case, v = cand, dict(v, case=cand, observed=obs, required=why, shrunk=True)
                    improved = True
                    break
        return v

    def write_replay(self, body):
        d = os.path.join(VERIF, "replays")
        os.makedirs(d, exist_ok=True)
        k = 0
        while True:
            path = os.path.join(d, f"{self.pid}-{self.seed}-{k}.json")
            if not os.path.exists(path):
                break
            k += 1
        body = dict(body)
        body.update({"property": self.pid, "seed": self.seed, "tier": self.tier, "repo": REPO,
                     "rerun": f"python3 tools/check.py {self.pid} --replay {path}"})
        with open(path, "w") as f:
            json.dump(body, f, indent=1, default=repr)
        return path

    def verdict(self):
        broken = [(n, d) for n, ok, d in self.obligations if not ok]
        impl_v = [v for v in self.violations if v["kind"] == "impl-violates-property"]
        harness = [v for v in self.violations if v["kind"] == "harness-error"]
        for line in getattr(self, "known_lines", []):
            print(line)
        for n in self.notes:
            print("NOTE:", n)
        if not broken and not self.mismatches and not impl_v and not harness:
            return 0
        if impl_v:
            v = self.shrink(impl_v[0])
            path = self.write_replay({"kind": "impl-violates-property", "input": v["case"], "observed": v["observed"],
                                      "required": v["required"], "other_failing_cases": len(impl_v) - 1,
                                      "broken_obligations": [n for n, _ in broken]})
            print(f"VIOLATION property={self.pid} replay={path}")
            return 1
        # obligations broken / model-implementation mismatch, no failing input yet
        found, tried = self.search(60 if self.tier == "quick" else 300)
        if found:
            v = self.shrink(found)
            path = self.write_replay({"kind": "impl-violates-property", "input": v["case"], "observed": v["observed"],
                                      "required": v["required"], "found_by": f"targeted search ({tried} cases)",
                                      "broken_obligations": [n for n, _ in broken]})
            print(f"VIOLATION property={self.pid} replay={path}")
            return 1
        path = self.write_replay({"kind": "proof-or-correspondence-broken",
                                  "broken_obligations": [{"obligation": n, "detail": d[-1200:]} for n, d in broken],
                                  "mismatching_cases": self.mismatches[:10],
                                  "harness_errors": harness[:3],
                                  "search": f"{tried} further cases tried against the property oracle, none failed"})
        print(f"VIOLATION property={self.pid} replay={path} no-failing-input-found")
        return 1

    def evidence(self, rc):
        P = self.P
        obl = len(self.obligations)
        dis = sum(1 for _, ok, _ in self.obligations if ok)
        cov = {
            "obligations": obl,
            "discharged": dis,
            "checker_cmd": " ; ".join(self.checker_cmds) or "none",
            "trusted_base": GLOBAL_TRUSTED + list(getattr(P, "TRUSTED", [])) + [
                f"Print Assumptions {t}: {txt}" for t, txt in getattr(self, "pa", {}).items()
            ] + ([f"coqchk -o axioms: {self.coqchk_axioms}"] if hasattr(self, "coqchk_axioms") else []),
            "obligation_list": [{"name": n, "discharged": ok} for n, ok, _ in self.obligations],
            "theorems": getattr(self, "theorems", []),
            "development_files_scanned": getattr(self, "hygiene_files", []),
            "evaluations": getattr(self, "evaluations", 0),
            "distinct_nontrivial": len(getattr(self, "nontrivial", ())),
            "rule": getattr(P, "RULE", "cases generated by tools/props/%s.py; distinct by canonical JSON of the case" % self.pid),
            "samples": getattr(self, "samples", [])[:8],
            "correspondence_cases_evaluated_in_coq": getattr(self, "corr_cases", 0),
            "correspondence_mismatches": len(getattr(self, "mismatches", [])),
            "input_distribution": getattr(self, "dist", {}),
            "known_finding_cases_skipped": getattr(self, "known_skipped", {}),
            "exhaustive": bool(getattr(self, "exhaustive", False)),
        }
        if getattr(self, "exhaustive", False):
            cov["exhaustive_scope"] = getattr(self, "exhaustive_label", "")
        ev = {
            "property_id": self.pid,
            "tier": self.tier,
            "seed": self.seed,
            "level": "proof",
            "coverage": cov,
            "assumptions": list(getattr(P, "ASSUMPTIONS", [])),
            "wall_s": round(time.time() - self.t0, 2),
            "violations": 0 if rc == 0 else max(1, len(self.violations) + len(getattr(self, "mismatches", []))),
        }
        # evidence/ holds runs against /repo itself; runs against another tree (seeded changes,
        # scratch copies) write elsewhere
        d = os.environ.get("VERIF_EVIDENCE_DIR") or (os.path.join(VERIF, "evidence") if os.path.realpath(REPO) == "/repo"
                                                     else os.path.join("/tmp", "orso-verif-evidence-other-tree"))
        os.makedirs(d, exist_ok=True)
        with open(os.path.join(d, self.pid + ".json"), "w") as f:
            json.dump(ev, f, indent=1, default=repr)


def main(pid, tier, seed, replay=None):
    run = Run(pid, tier, seed)
    run.scratch = coqrun.scratch_dir()
    try:
        run.build()
        only = None
        if replay:
            body = json.load(open(replay))
            only = body.get("input")
            if only is None:
                print("replay file names broken obligations only; re-running the full check")
        run.explore(only_case=only)
        rc = run.verdict()
        if not replay:
            run.evidence(rc)
        broken = [(n, d) for n, ok, d in run.obligations if not ok]
        print(f"[{pid}] tier={tier} seed={seed} obligations={len(run.obligations)} discharged={len(run.obligations)-len(broken)} "
              f"cases={run.evaluations} coq_cases={run.corr_cases} mismatches={len(run.mismatches)} "
              f"violations={len(run.violations)} wall={time.time()-run.t0:.1f}s")
        for n, d in broken[:8]:
            print(f"  BROKEN {n}: {d[-300:]}")
        return rc
    finally:
        coqrun.cleanup(run.scratch)
