"""Building the Coq development and running generated files (all under timeouts)."""
import fcntl
import hashlib
import os
import re
import shutil
import subprocess
import time
from concurrent.futures import ThreadPoolExecutor

VERIF = os.path.dirname(os.path.dirname(os.path.dirname(os.path.abspath(__file__))))
COQ = os.path.join(VERIF, "coq")
SUBDIRS = ["Base", "Gen", "Model", "Proofs", "Props", "Corr"]
JOBS = int(os.environ.get("VERIF_JOBS", "16"))
MEM_KB = int(os.environ.get("VERIF_MEM_KB", str(10 * 1024 * 1024)))


class BuildLock:
    def __enter__(self):
        self.f = open(os.path.join(VERIF, ".build.lock"), "w")
        fcntl.flock(self.f, fcntl.LOCK_EX)
        return self

    def __exit__(self, *a):
        fcntl.flock(self.f, fcntl.LOCK_UN)
        self.f.close()


def list_sources():
    out = []
    for d in SUBDIRS:
        p = os.path.join(COQ, d)
        if not os.path.isdir(p):
            continue
        for f in sorted(os.listdir(p)):
            if f.endswith(".v") and os.path.isfile(os.path.join(p, f)):
                out.append(f"{d}/{f}")
    return out


def write_if_changed(path, text):
    try:
        with open(path) as f:
            if f.read() == text:
                return False
    except FileNotFoundError:
        pass
    os.makedirs(os.path.dirname(path), exist_ok=True)
    tmp = path + ".tmp%d" % os.getpid()
    with open(tmp, "w") as f:
        f.write(text)
    os.replace(tmp, path)
    return True


def ensure_makefile():
    srcs = list_sources()
    proj = "-Q . Orso\n-arg -w -arg -notation-overridden,-deprecated-hint-without-locality,-deprecated-instance-without-locality\n" + "\n".join(srcs) + "\n"
    changed = write_if_changed(os.path.join(COQ, "_CoqProject"), proj)
    if changed or not os.path.exists(os.path.join(COQ, "Makefile")):
        r = subprocess.run(
            ["timeout", "120", "coq_makefile", "-f", "_CoqProject", "-o", "Makefile"],
            cwd=COQ, capture_output=True, text=True,
        )
        if r.returncode != 0:
            raise RuntimeError("coq_makefile failed: " + r.stdout + r.stderr)
        # force dependency regeneration
        try:
            os.remove(os.path.join(COQ, ".Makefile.d"))
        except FileNotFoundError:
            pass


def make(targets, timeout_s=3000):
    """Full .vo build of the given targets (never -vos/-vok).  Returns (ok, log)."""
    # the lock covers only the regeneration of _CoqProject / Makefile / dependencies; the
    # compilation itself runs outside it so that one slow file does not block other checks.
    # Each coqc is limited to MEM_KB of address space (a runaway proof search must not take
    # the machine down).
    with BuildLock():
        ensure_makefile()
        subprocess.run(["timeout", "300", "make", ".Makefile.d"], cwd=COQ, capture_output=True, text=True)
    mk = "make -j%d %s" % (JOBS, " ".join(targets))
    cmd = ["timeout", str(timeout_s), "bash", "-c", "ulimit -v %d; %s" % (MEM_KB, mk)]
    t0 = time.time()
    r = subprocess.run(cmd, cwd=COQ, capture_output=True, text=True)
    log = r.stdout + r.stderr
    return r.returncode == 0, log, "timeout %d %s" % (timeout_s, mk), time.time() - t0


_ERR_RE = re.compile(r'File "\./?([^"]+)", line (\d+), characters')


def locate_failure(log):
    """Map a make error log to (file, line, enclosing lemma name)."""
    m = None
    for m in _ERR_RE.finditer(log):
        pass
    errs = [mm for mm in _ERR_RE.finditer(log)]
    # take the first error occurrence followed by "Error"
    for mm in errs:
        tail = log[mm.end(): mm.end() + 400]
        if "Error" in tail:
            m = mm
            break
    if not m:
        return None
    fn, line = m.group(1), int(m.group(2))
    name = None
    try:
        with open(os.path.join(COQ, fn)) as f:
            lines = f.readlines()
        for i in range(min(line, len(lines)) - 1, -1, -1):
            mm = re.match(r"\s*(?:Local\s+|Global\s+)?(Theorem|Lemma|Corollary|Example|Definition|Fixpoint|Fact|Remark|Proposition)\s+([A-Za-z0-9_']+)", lines[i])
            if mm:
                name = mm.group(2)
                break
    except OSError:
        pass
    return {"file": fn, "line": line, "name": name}


def scratch_dir():
    d = os.path.join(COQ, "Corr", "run-%d-%d" % (os.getpid(), int(time.time() * 1000) % 100000))
    os.makedirs(d, exist_ok=True)
    return d


def coqc_file(path, timeout_s=600):
    cmd = ["timeout", str(timeout_s), "bash", "-c",
           "ulimit -v %d; exec coqc -Q %s Orso -w -notation-overridden %s" % (MEM_KB, COQ, path)]
    r = subprocess.run(cmd, cwd=os.path.dirname(path), capture_output=True, text=True)
    return r.returncode, r.stdout, r.stderr


def run_files(paths, timeout_s=600):
    """Compile many generated files in parallel; returns list of (rc, out, err)."""
    with ThreadPoolExecutor(max_workers=JOBS) as ex:
        return list(ex.map(lambda p: coqc_file(p, timeout_s), paths))


def parse_N_list(out):
    """Parse the result of `Eval vm_compute in (mismatches ...)`:  '= [3; 17]%N : list N'."""
    m = re.search(r"=\s*(.*?)\s*:\s*list N", out, re.S)
    if not m:
        return None
    body = m.group(1)
    return [int(x) for x in re.findall(r"\d+", body)]


def print_assumptions(module, theorems, scratch):
    """Return {theorem: text} from a fresh coqc run against the compiled module."""
    if not theorems:
        return {}
    src = [f"From Orso Require Import {module}."]
    for t in theorems:
        src.append(f'Goal True. idtac "@@BEGIN {t}". exact I. Qed.')
        src.append(f"Print Assumptions {t}.")
        src.append(f'Goal True. idtac "@@END {t}". exact I. Qed.')
    p = os.path.join(scratch, "assumptions_%s.v" % module.replace(".", "_"))
    with open(p, "w") as f:
        f.write("\n".join(src) + "\n")
    rc, out, err = coqc_file(p, 900)
    res = {}
    if rc != 0:
        return {t: "ERROR: " + (err or out)[-600:] for t in theorems}
    for t in theorems:
        m = re.search(r"@@BEGIN %s\n(.*?)@@END %s" % (re.escape(t), re.escape(t)), out, re.S)
        res[t] = m.group(1).strip() if m else "ERROR: no output"
    return res


def strip_comments(src):
    out = []
    depth = 0
    i = 0
    n = len(src)
    in_str = False
    while i < n:
        c2 = src[i:i + 2]
        if depth == 0 and src[i] == '"':
            in_str = not in_str
            out.append(src[i])
            i += 1
            continue
        if not in_str and c2 == "(*":
            depth += 1
            i += 2
            continue
        if not in_str and c2 == "*)" and depth > 0:
            depth -= 1
            i += 2
            continue
        if depth == 0:
            out.append(src[i])
        elif src[i] == "\n":
            out.append("\n")
        i += 1
    return "".join(out)


_FORBIDDEN = re.compile(
    r"\b(Admitted|admit|give_up|Axiom|Axioms|Parameter|Parameters|Conjecture|Conjectures|"
    r"bypass_check|native_compute)\b|Admit\s+Obligations|Unset\s+Guard\s+Checking|"
    r"Unset\s+Positivity\s+Checking|Unset\s+Universe\s+Checking|type-in-type|impredicative-set"
)
_SECTIONAL = re.compile(r"^\s*(?:Local\s+|Global\s+|#\[[^\]]*\]\s*)?(Variable|Variables|Hypothesis|Hypotheses|Context)\b")


def hygiene(files=None):
    """Scan the development for forbidden constructs.  Returns a list of findings."""
    bad = []
    for rel in (files or list_sources()):
        p = os.path.join(COQ, rel)
        try:
            src = strip_comments(open(p).read())
        except OSError:
            continue
        stack = []
        for ln, line in enumerate(src.split("\n"), 1):
            m = _FORBIDDEN.search(line)
            if m:
                bad.append(f"{rel}:{ln}: {m.group(0)}")
            if re.match(r"^\s*Section\s+\w+", line):
                stack.append("S")
            elif re.match(r"^\s*Module\s+(Type\s+)?\w+[^:=]*\.\s*$", line) and ":=" not in line:
                stack.append("M")
            elif re.match(r"^\s*End\s+\w+", line) and stack:
                stack.pop()
            elif _SECTIONAL.match(line) and "S" not in stack:
                bad.append(f"{rel}:{ln}: section-less {line.strip()[:40]}")
    return bad


_REQ = re.compile(r"From\s+Orso\s+Require\s+(?:Import\s+|Export\s+)?([^.]*(?:\.[A-Za-z_][^.\s]*)*)\s*\.(?:\s|$)")


def dep_closure(roots):
    """Source files (relative to coq/) reachable from the given ones through
    `From Orso Require [Import|Export] A.B C.D.` statements."""
    seen, todo = [], list(roots)
    while todo:
        rel = todo.pop()
        if rel in seen:
            continue
        path = os.path.join(COQ, rel)
        if not os.path.exists(path):
            continue
        seen.append(rel)
        src = strip_comments(open(path).read())
        for m in re.finditer(r"From\s+Orso\s+Require\s+(?:Import\s+|Export\s+)?(.*?)\.\s*(?:\n|$)", src, re.S):
            for mod in m.group(1).split():
                todo.append(mod.replace(".", "/") + ".v")
        for m in re.finditer(r"Require\s+(?:Import\s+|Export\s+)?((?:Orso\.[\w.]+\s*)+)\.\s*(?:\n|$)", src):
            for mod in m.group(1).split():
                todo.append(mod[len("Orso."):].replace(".", "/") + ".v")
    return sorted(seen)


def sources_digest():
    h = hashlib.sha256()
    for rel in list_sources():
        h.update(rel.encode())
        with open(os.path.join(COQ, rel), "rb") as f:
            h.update(f.read())
    return h.hexdigest()[:16]


def cleanup(d):
    shutil.rmtree(d, ignore_errors=True)
