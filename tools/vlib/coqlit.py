"""Python value -> Coq literal text.  Every numeral carries its scope explicitly so
that generated files never depend on an open scope."""
import struct


def Z(n):
    n = int(n)
    return f"({n})%Z"


def N(n):
    n = int(n)
    if n < 0:
        raise ValueError("negative N literal")
    return f"{n}%N"


def nat(n):
    n = int(n)
    if n < 0 or n > 5000:
        # large nat literals stall the VM and lia; models use N/Z for data
        raise ValueError(f"nat literal out of the safe range: {n}")
    return f"{n}%nat"


def boolean(b):
    return "true" if b else "false"


def lst(items):
    """items: already-rendered Coq terms."""
    items = list(items)
    if not items:
        return "[]"
    return "[" + "; ".join(items) + "]"


def opt(x):
    """x: rendered term or None."""
    return "None" if x is None else f"(Some {x})"


def pair(*xs):
    return "(" + ", ".join(xs) + ")"


def text(s):
    """Python str -> list N of Unicode code points."""
    return "(" + lst(str(ord(c)) for c in s) + "%N : list N)" if s else "([] : list N)"


def bytes_(b):
    """bytes -> list N of byte values."""
    return "(" + lst(str(x) for x in b) + "%N : list N)" if b else "([] : list N)"


def float_bits(x):
    """IEEE-754 binary64 bit pattern of a Python float, as a non-negative int."""
    return struct.unpack(">Q", struct.pack(">d", float(x)))[0]


def primfloat(x):
    """Python float -> PrimFloat literal (exact hexadecimal form)."""
    x = float(x)
    if x != x:
        return "nan%float"
    if x == float("inf"):
        return "infinity%float"
    if x == float("-inf"):
        return "neg_infinity%float"
    h = x.hex()  # e.g. -0x1.8000000000000p+1
    if h.startswith("-"):
        return f"(-{h[1:]})%float"
    return f"({h})%float"


def Q(fr):
    """fractions.Fraction -> Coq Q literal."""
    from fractions import Fraction

    fr = Fraction(fr)
    return f"(Qmake {Z(fr.numerator)} {int(fr.denominator)}%positive)"
