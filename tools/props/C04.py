"""C04 - Cursor fetches deliver every row exactly once, in order.

Case:  {"lazy": bool, "n": rows, "ops": [op, ...], optional "seq": "tuple", optional "schema": "relation"}   op =
  ["fetchone"] | ["fetchmany", k|None] | ["fetchall"] | ["arraysize", n] | ["append"]
  | ["append_bad", kind]      an append whose entry makes DataFrame.append raise (kinds: BAD_KINDS)
  | ["obs", name]             a read-only observer in its round-1 form (fixed arguments)
  | ["obs", name, [args]]     the observer called with these arguments (OBS_ARGS lists the pools)
  | ["derive", name, [args]]  a frame-returning observer (slice/head/tail/query/query_even/distinct) whose RESULT IS KEPT
                              as a new frame of the session: frames are numbered 0 (the case's frame), 1, 2, ... in
                              order of creation
  | ["on", k, op]             op (any of the above, derive included) called on frame k; an op that is not wrapped is
                              called on frame 0
Rows are the 1-tuples (0,), (1,), ...; appended rows are (1000+j,) (j counts the stored-append calls of the whole
session), so a row is identified by its integer and "skipped / repeated" is directly visible.  The j-th rejected
entry that could be stored as a row at all carries the id -(100+j) (a too-wide integer) or -2.
"schema": "relation" builds the frame over a RelationSchema (one INTEGER column), so append
starts with schema validation and takes dict entries.
Optional "shape" (default "int1") picks what the rows ARE - SHAPES: rows of no columns, falsy cells (0, False, "", 0.0,
None, -0.0, b""), equal-but-different cells (1, True, 1.0, Decimal(1)), all rows identical, all-None two-column rows,
two-column rows - and optional "ctor" how the frame is built: "rows" (default), "dicts" (DataFrame(dictionaries=[...]),
rows become Row instances), "select" (lazy: a projection of a two-column frame onto the shape's columns), "filter" /
"take" (lazy: the rows kept by a mask / an index list out of a frame twice as long), "arrow" (lazy: DataFrame.from_arrow
over several Arrow tables; "chunks": [rows per table, zeros allowed] sums to n, "tables_as": "list" | "gen").  A row is
then identified by the integer _rid gives its VALUE, so rows may share an id (the model is over arbitrary lists).
Observed: one entry per op: ["row", id|None] | ["rows", [ids]] | ["unit"] | ["raise", exc]
  | ["append", returned_normally, length of the row store right after the call | None, exc|None]
  | ["count", n] | ["seen", [ids]]       what a read-only observer reported (row count / the rows it showed)
  | ["derived", [ids], fresh]            the rows of the frame handed back; fresh = it is not one of the session's frames
  | ["bad"]                              no such frame
(the store length / the rows of a returned frame are read off the frame's list without calling any DataFrame method)."""
import itertools
import math
from decimal import Decimal

from vlib import coqlit as L

ID = "C04"
READY = True
TECHNIQUE = "Coq proof by induction over call histories (cursor state machine, sessions over several frames) + model/implementation correspondence evaluated in Coq, exhaustive small scope"
LEVEL_TEXT = ("Machine-checked Coq theorems over an executable cursor model, for every row list and every finite history: fetched rows "
              "concatenate to a prefix in order, fetchmany(k) returns min(k, remaining), exhaustion answers, observers inert and reporting "
              "the row store only, refusal after append, atomic append, independence of the frames of a session (a frame handed back by "
              "slice/head/tail/query/distinct is a new object), and the same contract for a lazily backed frame read only through the cursor. "
              "The model is tied to dataframe.py by "
              "running real DataFrames through all histories of a small scope (exhaustively) and random deeper ones and evaluating the model "
              "on the same histories inside Coq; a direct property oracle on the implementation supplies replayable failing histories.")
LEVEL_NOTE = ("Trusted: Coq kernel + vm_compute; the hand-written model of _cursor/materialize (validated, not verified, against CPython iterator "
              "semantics by the correspondence run); the harness's classification of observers as materialising or not and of what they report. "
              "No axioms (Print Assumptions: closed).")
DESIGN_REF = "DESIGN.md section 8, C04"
COQ_IMPORTS = "From Orso Require Import Model.C04."
COQ_CHECKS = {"hist": "c04_check", "sess": "c04_scheck", "chunk": "c04_ccheck"}
COQ_SHOW = {"hist": "c04_show", "sess": "c04_sshow", "chunk": "c04_cshow"}
RULE = ("histories over {fetchone, fetchmany(k), fetchmany(), fetchall, arraysize change, real read-only observers (each with a pool of "
        "argument values, 'no limit' values included; what they report is recorded), append, "
        "append of an entry that makes append raise (rejected by validation / by the row factory / by Row.nbytes)} "
        "run on a real DataFrame (eager: list-backed, over a name list or a RelationSchema; lazy: generator-backed, cursor-only "
        "histories plus failing append calls); sessions over several frames: the frame handed back by slice/head/tail/query/distinct "
        "is kept and fetched from / appended to, interleaved with calls on the frame it came from; "
        "after every append call the length of the row store is recorded; exhaustive over "
        "rows 0..3 x histories up to the stated depth over a 12-letter alphabet, every observer variant at every cursor position, "
        "every deriving call x 4 session scripts, then random deeper histories and sessions; "
        "a case is non-trivial when at least one fetch delivered a row; distinct by canonical JSON")
TRUSTED = [
    "C04 model (coq/Model/C04.v): cursor as a position in the row list (eager) / as the generator itself (lazy); "
    "observers are classified by the harness as materialising or pure (a wrong classification shows as a mismatch on lazy frames)",
    "modelled, not verified: CPython list-iterator and generator semantics behind DataFrame._cursor",
    "the harness's classification of an entry as one that makes append raise (AppendBad) - a wrong classification shows as a "
    "mismatch on the append's own output; the row-store length after an append is read from DataFrame._rows (a list) directly",
    "the harness's mapping of an observer call to the view it reports (row count / rows of slice(off, len)) - a wrong mapping shows "
    "as a mismatch on the observer's own output; the rows of a frame handed back are read from its _rows list directly",
]
ASSUMPTIONS = [
    "lazy frames are exercised only through the cursor (plus observers that do not materialise), as the property states",
    "rows are identified by distinct integers in the harness; the theorems are over an arbitrary row type",
    "select / filter / take hand back views that read their source when first iterated (by design, fix 75a1e72): they are not "
    "in the session model",
]

PURE_OBS = ["column_names", "columncount", "arraysize_read"]
# entries that make DataFrame.append raise, by the statement of append that raises
BAD_KINDS = {
    # frames over a list of names: no validation; the row factory or Row.nbytes() raises
    "names": ["wide_int", "non_iterable", "nonstr_key", "dict_wide", "none", "nested", "oversize"],
    # frames over a RelationSchema: validation raises first; "wide" passes validation and the factory, nbytes raises
    "relation": ["wide", "notdict", "wrongtype", "extra", "missing"],
}
CHEAP_BAD = {"names": BAD_KINDS["names"][:-1], "relation": BAD_KINDS["relation"]}
WIDE = 2 ** 64            # ormsgpack refuses integers from here on
WIDE_KINDS = ("wide_int", "dict_wide", "wide")


def _bad_entry(kind, j):
    if kind == "wide_int":
        return (WIDE + j,)
    if kind == "dict_wide":
        return {"a": WIDE + j}
    if kind == "wide":
        return {"a": WIDE + j}
    if kind == "non_iterable":
        return 5
    if kind == "none":
        return None
    if kind == "nonstr_key":
        return ({1: 2},)
    if kind == "nested":
        x = []
        for _ in range(300):
            x = [x]
        return (x,)
    if kind == "oversize":
        return ("x" * (16 * 1024 * 1024 + 1),)
    if kind == "notdict":
        return (7,)
    if kind == "wrongtype":
        return {"a": "s"}
    if kind == "extra":
        return {"a": 1, "b": 2}
    if kind == "missing":
        return {}
    raise KeyError(kind)


def _bad_id(kind, j):
    return -(100 + j) if kind in WIDE_KINDS else -2


def _cell_code(v):
    if v is None:
        return -3
    if isinstance(v, bool):
        return -5 if v else -4
    if isinstance(v, str) and v == "":
        return -6
    if isinstance(v, float):
        if v == 0.0:
            return -8 if math.copysign(1.0, v) < 0 else -7
        if v == 1.0:
            return -10
    if isinstance(v, bytes) and v == b"":
        return -9
    if isinstance(v, Decimal) and v == 1:
        return -11
    return -2


def _rid(row):
    """the integer identifying a delivered row by its value (rejected entries that leaked into the frame included)"""
    if len(row) == 0:
        return -20
    v = row[0]
    if isinstance(v, int) and not isinstance(v, bool):
        return -(100 + (v - WIDE)) if v >= WIDE else v
    return _cell_code(v)


FALSY = [0, False, "", 0.0, None, -0.0, b""]
EQUAL = [1, True, 1.0, Decimal(1)]
# shape -> (column names, row number i -> row)
SHAPES = {
    "int1": (["a"], lambda i: (i,)),
    "empty0": ([], lambda i: ()),
    "falsy1": (["a"], lambda i: (FALSY[i % len(FALSY)],)),
    "equal1": (["a"], lambda i: (EQUAL[i % len(EQUAL)],)),
    "dup1": (["a"], lambda i: (7,)),
    "none2": (["a", "b"], lambda i: (None, None)),
    "wide2": (["a", "b"], lambda i: (i, str(i))),
}


def _shape(case):
    return case.get("shape") or "int1"


def _canon(shape, i):
    """the id of row number i of a frame of this shape (rows of one frame may share an id)"""
    return _rid(SHAPES[shape][1](i))


def _canon_rows(case):
    return [_canon(_shape(case), i) for i in range(case["n"])]


def _schema_kind(case):
    return "relation" if case.get("schema") == "relation" else "names"


MAT_OBS = ["rowcount", "len", "shape", "collect", "iter", "slice", "arrow", "display", "str", "head", "tail", "getitem", "row", "markdown", "nbytes", "distinct", "query"]
# observers taking arguments: name -> the argument lists tried on a frame of n rows ("no limit" values included)
DERIVERS = ["slice", "head", "tail", "query", "query_even", "distinct"]


def OBS_ARGS(n):
    lims = [[], [0], [1], [n], [n + 1], [-1]]
    return {
        "collect": lims,
        "arrow": [[], [0], [1], [n + 1], [-1]],
        "markdown": lims + [[5]],
        "display": [[0], [1], [n + 1], [-1]],
        "slice": [[]] + [[o, ln] for o in sorted({-n - 1, -1, 0, 1, n}) for ln in (None, 0, 1, n, n + 1, -1)],
        "head": lims,
        "tail": lims,
        "row_at": [[i] for i in range(-n, n)],
        "to_batches": [[1], [2], [n + 1]],
        "query": [[]],
        "query_even": [[]],
        "distinct": [[]],
        "rowcount": [[]], "len": [[]], "shape": [[]], "iter": [[]], "getitem": [[]], "str": [[]], "nbytes": [[]],
        "description": [[]], "hash": [[]], "repr": [[]],
    }


# observers that neither address a column by position / name nor need one type per column: usable on every shape
SAFE_OBS = ["rowcount", "len", "shape", "iter", "slice", "display", "str", "head", "tail", "row", "markdown", "nbytes", "query"]
SAFE_ARGS = ["rowcount", "len", "shape", "iter", "slice", "head", "tail", "row_at", "to_batches", "query", "display", "str",
             "nbytes", "description", "hash", "repr"]
SAFE_DERIVERS = ["slice", "head", "tail", "query"]
# (shape, ctor) of the materialised / of the lazily backed frames enumerated beside the default one
EAGER_SHAPES = [("empty0", "rows"), ("empty0", "dicts"), ("falsy1", "rows"), ("equal1", "dicts"), ("dup1", "rows"),
                ("none2", "rows"), ("wide2", "dicts")]
LAZY_SHAPES = [("empty0", "rows"), ("empty0", "select"), ("int1", "select"), ("falsy1", "rows"), ("dup1", "rows"),
               ("int1", "filter"), ("int1", "take"), ("wide2", "filter")]


def _chunkings(total_max, tables_max):
    """every way of spreading 0..total_max rows over 1..tables_max tables, empty tables allowed anywhere"""
    for k in range(1, tables_max + 1):
        for sizes in itertools.product(range(0, total_max + 1), repeat=k):
            if sum(sizes) <= total_max:
                yield list(sizes)


def _derive_args(n, shape="int1"):
    a = OBS_ARGS(n)
    return [(name, args) for name in (DERIVERS if shape == "int1" else SAFE_DERIVERS) for args in a[name]]


def _ids(frame_or_rows):
    rows = frame_or_rows._rows if hasattr(frame_or_rows, "_rows") else frame_or_rows
    if not isinstance(rows, list):
        rows = list(rows)
    return [_rid(r) for r in rows]


def _vals(x):
    return x.tolist() if hasattr(x, "tolist") else list(x)


def _md_ids(text):
    out = []
    for line in text.split("\n")[2:]:
        cells = line.split("|")
        out.append(int(cells[2].strip()))
    return out


def _call_deriver(df, name, args):
    if name == "slice":
        return df.slice(*args)
    if name == "head":
        return df.head(*args)
    if name == "tail":
        return df.tail(*args)
    if name == "query":
        return df.query(lambda r: True)
    if name == "query_even":
        return df.query(lambda r: isinstance(r[0], int) and r[0] % 2 == 0)
    if name == "distinct":
        return df.distinct()
    raise KeyError(name)


def _observer_args(df, name, args):
    """the observer called with explicit arguments; returns what it reported: ["count", n] | ["seen", ids] | ["unit"]"""
    if name in ("rowcount", "len", "shape"):
        v = df.rowcount if name == "rowcount" else (len(df) if name == "len" else df.shape[0])
        return ["count", int(v)]
    if name == "collect":
        r = df.collect(0, *args)
        return ["seen", [_rid((x,)) for x in _vals(r)]]
    if name == "getitem":
        return ["seen", [_rid((x,)) for x in _vals(df["a"])]]
    if name == "iter":
        return ["seen", [_rid(r) for r in list(df)]]
    if name == "arrow":
        t = df.arrow(*args)
        return ["seen", [_rid((x,)) for x in (t.column(0).to_pylist() if t.num_columns else [])]]
    if name == "markdown":
        return ["seen", _md_ids(df.markdown(*args))]
    if name in DERIVERS:
        r = _call_deriver(df, name, args)
        return ["seen", _ids(r)] if name != "query_even" else ["unit"]
    if name == "row_at":
        return ["seen", [_rid(df.row(args[0]))]]
    if name == "to_batches":
        out = []
        for b in df.to_batches(*args):
            out.extend(_ids(b))
        return ["seen", out]
    if name == "display":
        df.display(limit=args[0], colorize=False)
    elif name == "str":
        str(df)
    elif name == "repr":
        repr(df)
    elif name == "nbytes":
        df.nbytes()
    elif name == "description":
        df.description
    elif name == "hash":
        hash(df)
    else:
        raise KeyError(name)
    return ["unit"]


def _py_slice(store, off, ln):
    """DataFrame.slice(off, ln) in terms of Python's own list slicing"""
    if off < 0:
        off = max(0, len(store) + off)
    if ln is None:
        return store[off:]
    if ln == 0:
        return []
    return store[off:off + ln]


def _view(name, args):
    """the view an observer call reports, for the Coq model: ("count",) | ("rows", off, len) | None"""
    if name in ("rowcount", "len", "shape"):
        return ("count",)
    if name in ("collect", "arrow"):
        lim = args[0] if args else None
        return ("rows", 0, None if lim is None or lim < 0 else lim)
    if name in ("getitem", "iter", "query", "distinct", "to_batches"):
        return ("rows", 0, None)
    if name == "markdown":
        lim = args[0] if args else 5
        return ("rows", 0, lim if lim > 0 else None)
    if name == "slice":
        a = list(args) + [0, None][len(args):]
        return ("rows", a[0], a[1])
    if name == "head":
        return ("rows", 0, args[0] if args else 5)
    if name == "tail":
        k = args[0] if args else 5
        return ("rows", 0 - k, k)
    if name == "row_at":
        return ("rows", args[0], 1)
    return None


def _expected_report(name, args, store):
    """what the observer has to report on a frame holding `store` - written with Python's own slicing, independently of
    _view / the Coq model; None = nothing is required of the report"""
    if name in ("rowcount", "len", "shape"):
        return ["count", len(store)]
    if name in ("collect", "arrow"):
        lim = args[0] if args else None
        return ["seen", list(store) if lim is None or lim < 0 else store[:lim]]
    if name in ("getitem", "iter", "query", "distinct", "to_batches"):
        return ["seen", list(store)]
    if name == "markdown":
        lim = args[0] if args else 5
        return ["seen", store[:lim] if lim > 0 else list(store)]
    if name == "slice":
        a = list(args) + [0, None][len(args):]
        return ["seen", _py_slice(store, a[0], a[1])]
    if name == "head":
        return ["seen", _py_slice(store, 0, args[0] if args else 5)]
    if name == "tail":
        k = args[0] if args else 5
        return ["seen", _py_slice(store, 0 - k, k)]
    if name == "row_at":
        return ["seen", [store[args[0]]]]
    if name == "query_even":
        return None
    return None


def _expected_derived(name, args, store):
    if name == "query_even":
        return [x for x in store if x % 2 == 0]
    return _expected_report(name, args, store)[1]


def _observer(df, name):
    if name == "column_names":
        return df.column_names
    if name == "columncount":
        return df.columncount
    if name == "arraysize_read":
        return df.arraysize
    if name == "rowcount":
        return df.rowcount
    if name == "len":
        return len(df)
    if name == "shape":
        return df.shape
    if name == "collect":
        return df.collect(0)
    if name == "iter":
        return list(df)
    if name == "slice":
        return df.slice(1, 2)
    if name == "arrow":
        return df.arrow()
    if name == "display":
        return df.display(limit=2, colorize=False)
    if name == "str":
        return str(df)
    if name == "head":
        return df.head(2)
    if name == "tail":
        return df.tail(2)
    if name == "getitem":
        return df["a"]
    if name == "row":
        return df.row(0) if df.rowcount else None
    if name == "markdown":
        return df.markdown()
    if name == "nbytes":
        return df.nbytes()
    if name == "distinct":
        return df.distinct()
    if name == "query":
        return df.query(lambda r: True)
    raise KeyError(name)


def _unwrap(op):
    """(frame index, op)"""
    if op[0] == "on":
        return op[1], op[2]
    return 0, op


def _is_session(case):
    return any(o[0] == "on" or o[0] == "derive" for o in case["ops"])


def observe(case):
    from orso.dataframe import DataFrame

    n = case["n"]
    shape = _shape(case)
    names, mkrow = SHAPES[shape]
    rows = [mkrow(i) for i in range(n)]
    rel = _schema_kind(case) == "relation"
    ctor = case.get("ctor") or "rows"
    if ctor == "arrow":
        # second entry point for a lazily backed frame: several Arrow tables behind converters._RowsIterator
        import pyarrow

        asch = pyarrow.schema([("a", pyarrow.int64())])
        chunks = case.get("chunks") or [n]
        if sum(chunks) != n or shape != "int1":
            raise KeyError("chunks must sum to n (int1 rows)")
        tables, at = [], 0
        for c in chunks:
            tables.append(pyarrow.Table.from_pydict({"a": list(range(at, at + c))}, schema=asch))
            at += c
        df = DataFrame.from_arrow((t for t in tables) if case.get("tables_as") == "gen" else tables)
    elif ctor in ("filter", "take"):
        # the case's rows are every second row of a longer materialised frame
        src = []
        for r in rows:
            src += [r, (-50,) * len(r)]
        big = DataFrame(rows=src, schema=list(names))
        df = big.filter([i % 2 == 0 for i in range(len(src))]) if ctor == "filter" else big.take([2 * i for i in range(n)])
    elif ctor == "select":
        # a projection of a two-column frame onto the shape's columns: lazily backed by design
        wide = DataFrame(rows=[(i, str(i)) for i in range(n)], schema=["a", "b"])
        df = wide.select(list(names))
    elif ctor == "dicts":
        df = DataFrame(dictionaries=[dict(zip(names, r)) for r in rows])
    elif shape != "int1":
        df = DataFrame(rows=(r for r in rows), schema=list(names)) if case["lazy"] else DataFrame(rows=list(rows), schema=list(names))
    elif rel:
        from orso.schema import FlatColumn, RelationSchema
        from orso.types import OrsoTypes

        schema = RelationSchema(name="t", columns=[FlatColumn(name="a", type=OrsoTypes.INTEGER)])
        df = DataFrame(rows=list(rows), schema=schema)
    elif case["lazy"]:
        df = DataFrame(rows=(r for r in rows), schema=["a"])
    elif case.get("seq") == "tuple":
        # an in-memory frame whose row store is a sequence but not a list: materialised on first
        # observation, the cursor must not notice (histories without append)
        df = DataFrame(rows=tuple(rows), schema=["a"])
    else:
        df = DataFrame(rows=list(rows), schema=["a"])
    frames = [df]
    outs = []
    appended = 0
    bad = 0
    for wop in case["ops"]:
        fi, op = _unwrap(wop)
        if not (isinstance(fi, int) and 0 <= fi < len(frames)):
            outs.append(["bad"])
            continue
        df = frames[fi]
        if op[0] in ("append", "append_bad"):
            if op[0] == "append":
                entry = {"a": 1000 + appended} if rel else mkrow(1000 + appended)
                appended += 1
            else:
                kind = op[1]
                if kind == "dict_wide" and (shape == "empty0" or (ctor == "dicts" and n == 0)):
                    # the frame has no columns: a dict entry is projected onto them, so {"a": 2**64} is acceptable
                    # there - the entry that cannot be sized is the tuple
                    kind = "wide_int"
                entry = _bad_entry(kind, bad)
                bad += 1
            try:
                df.append(entry)
                ok, exc = True, None
            except Exception as e:  # the call raised
                ok, exc = False, type(e).__name__
            store = df._rows  # fail closed (AttributeError) if the row store is renamed
            outs.append(["append", ok, len(store) if isinstance(store, list) else None, exc])
            continue
        try:
            k = op[0]
            if k == "fetchone":
                r = df.fetchone()
                outs.append(["row", None if r is None else _rid(r)])
            elif k == "fetchmany":
                r = df.fetchmany() if op[1] is None else df.fetchmany(op[1])
                outs.append(["rows", [_rid(x) for x in r]])
            elif k == "fetchall":
                r = df.fetchall()
                outs.append(["rows", [_rid(x) for x in r]])
            elif k == "arraysize":
                df.arraysize = op[1]
                outs.append(["unit"])
            elif k == "obs":
                if len(op) > 2:
                    outs.append(_observer_args(df, op[1], op[2]))
                else:
                    _observer(df, op[1])
                    outs.append(["unit"])
            elif k == "derive":
                new = _call_deriver(df, op[1], op[2])
                fresh = all(new is not f for f in frames)
                frames.append(new)
                outs.append(["derived", _ids(new), fresh])
            else:
                raise KeyError(k)
        except KeyError:
            raise
        except Exception as e:  # the call raised
            outs.append(["raise", type(e).__name__])
    return outs


def oracle(case, outs):
    """The property, read literally, evaluated on what the implementation returned.  Every frame of a session is a
    frame of its own: its fetch calls are judged against ITS rows and ITS history only."""
    frames = [{"rows": _canon_rows(case), "store": _canon_rows(case), "pos": 0, "asz": 100, "dead": False,
               "lazy": case["lazy"], "judged": True}]
    appended = 0
    bad = 0
    for i, (wop, out) in enumerate(zip(case["ops"], outs)):
        fi, op = _unwrap(wop)
        k = op[0]
        where = f"op {i} {wop}"
        entry_id = None
        if k == "append":
            entry_id = _canon(_shape(case), 1000 + appended)
            appended += 1
        elif k == "append_bad":
            entry_id = _bad_id(op[1], bad)
            bad += 1
        if not (isinstance(fi, int) and 0 <= fi < len(frames)):
            continue
        fr = frames[fi]
        if not fr["judged"]:
            if k == "derive" and out[0] == "derived":
                frames.append({"judged": False})
            continue
        rows = fr["rows"]
        if k in ("fetchone", "fetchmany", "fetchall"):
            if fr["dead"]:
                if out[0] != "raise":
                    return f"{where}: the frame has grown to {len(fr['store'])} rows by append, fetch must refuse to run, returned {out}"
                continue
            if out[0] == "raise":
                return f"{where}: fetch raised {out[1]} although no row was appended to this frame"
            pos = fr["pos"]
            if k == "fetchone":
                want = rows[pos] if pos < len(rows) else None
                if out != ["row", want]:
                    return f"{where}: expected row {want} (next undelivered row, None after exhaustion), got {out}"
                if want is not None:
                    fr["pos"] += 1
            elif k == "fetchmany":
                size = fr["asz"] if op[1] is None else op[1]
                want = rows[pos:pos + max(0, size)]
                if out != ["rows", want]:
                    return f"{where}: expected the next min(k, remaining) rows {want}, got {out}"
                fr["pos"] += len(want)
            else:
                want = rows[pos:]
                if out != ["rows", want]:
                    return f"{where}: expected all remaining rows {want}, got {out}"
                fr["pos"] = len(rows)
        elif k == "arraysize":
            fr["asz"] = op[1]
            if out != ["unit"]:
                return f"{where}: setting arraysize raised {out}"
        elif k == "obs":
            if fr["lazy"]:
                if op[1] not in PURE_OBS:
                    fr["judged"] = False   # a lazy frame read otherwise than through the cursor: outside the contract
                elif out != ["unit"]:
                    return f"{where}: read-only observer raised {out}"
                continue
            if len(op) > 2 and op[1] == "row_at" and not (-len(fr["store"]) <= op[2][0] < len(fr["store"])):
                continue   # no such row: nothing is required
            if out[0] == "raise":
                return f"{where}: read-only observer raised {out}"
            if len(op) > 2:
                want = _expected_report(op[1], op[2], fr["store"])
                if want is not None and out != want:
                    return (f"{where}: a read-only observation reports the frame's rows whatever the cursor has delivered: "
                            f"expected {want}, got {out}")
            elif out != ["unit"]:
                return f"{where}: read-only observer raised {out}"
        elif k == "derive":
            if out[0] == "raise":
                return f"{where}: read-only observer raised {out}"
            if fr["lazy"]:
                fr["judged"] = False
                frames.append({"judged": False})
                continue
            want = _expected_derived(op[1], op[2], fr["store"])
            if out[0] != "derived" or out[1] != want:
                return f"{where}: the frame handed back must hold the rows {want} of the frame it was taken from, got {out}"
            # the frame handed back is a frame like any other: its own rows, cursor before its first row
            frames.append({"rows": list(want), "store": list(want), "pos": 0, "asz": 100, "dead": False, "lazy": False, "judged": True})
        elif k in ("append", "append_bad"):
            if fr["lazy"]:
                continue  # outside the contract (lazy frames are read only through the cursor)
            if out[0] != "append" or out[2] is None:
                return f"{where}: no append outcome / row-store length recorded on a materialised frame: {out}"
            ok, after = out[1], out[2]
            count = len(fr["store"])
            if k == "append" and not ok:
                return f"{where}: append raised {out[3]}"
            if after == count + 1:
                # a row has been appended - whether or not the call then raised: from here on
                # every fetch call has to refuse
                fr["dead"] = True
                fr["store"].append(entry_id)
            elif after == count:
                if ok:
                    return f"{where}: append returned normally but the frame still has {count} rows"
                # nothing was appended: the cursor contract carries on unchanged
            else:
                return f"{where}: an append call changed the frame from {count} to {after} rows"
    return None


def _coq_view(v):
    if v[0] == "count":
        return "VCount"
    return "(VRows %s %s)" % (L.Z(v[1]), L.opt(None if v[2] is None else L.Z(v[2])))


def _coq_op(op, ctr):
    k = op[0]
    if k == "fetchone":
        return "FetchOne"
    if k == "fetchmany":
        return "(FetchMany %s)" % L.opt(None if op[1] is None else L.Z(op[1]))
    if k == "fetchall":
        return "FetchAll"
    if k == "arraysize":
        return "(SetArraysize %s)" % L.Z(op[1])
    if k == "obs":
        if op[1] in PURE_OBS:
            return "ObservePure"
        v = _view(op[1], op[2]) if len(op) > 2 else None
        return "ObserveMat" if v is None else "(ObserveView %s)" % _coq_view(v)
    if k == "append":
        ctr["good"] += 1
        return "(Append %s)" % L.Z(_canon(ctr["shape"], 1000 + ctr["good"] - 1))
    if k == "append_bad":
        ctr["bad"] += 1
        return "(AppendBad %s)" % L.Z(_bad_id(op[1], ctr["bad"] - 1))
    raise KeyError(k)


def _coq_dop(name, args):
    if name in ("query", "distinct"):
        return "(DQuery (fun _ : Z => true))"
    if name == "query_even":
        return "(DQuery Z.even)"
    v = _view(name, args)
    return "(DSlice %s %s)" % (L.Z(v[1]), L.opt(None if v[2] is None else L.Z(v[2])))


def _coq_out(o):
    if o[0] == "row":
        return "(ORow %s)" % L.opt(None if o[1] is None else L.Z(o[1]))
    if o[0] == "rows":
        return "(ORows %s)" % L.lst(L.Z(x) for x in o[1])
    if o[0] == "unit":
        return "OUnit"
    if o[0] == "append":
        return "(OAppend %s %s)" % (L.boolean(o[1]), L.opt(None if o[2] is None else L.nat(o[2])))
    if o[0] == "count":
        return "(OCount %s)" % L.nat(o[1])
    if o[0] == "seen":
        return "(OSeen %s)" % L.lst(L.Z(x) for x in o[1])
    return "ORaise"


def to_coq(case, outs):
    for wop, o in zip(case["ops"], outs):
        op = _unwrap(wop)[1]
        if op[0] == "obs" and len(op) > 2 and op[1] == "row_at" and o[0] == "raise":
            return None   # row(i) with no such row: outside the model
    ctr = {"good": 0, "bad": 0, "shape": _shape(case)}
    base = "(%s : list Z)" % L.lst(L.Z(i) for i in _canon_rows(case))
    if not _is_session(case) and case.get("ctor") == "arrow":
        ops = [_coq_op(op, ctr) for op in case["ops"]]
        cobs = [_coq_out(o) for o in outs]
        ids, at, cs = _canon_rows(case), 0, []
        for c in case.get("chunks") or [case["n"]]:
            cs.append("(%s : list Z)" % L.lst(L.Z(i) for i in ids[at:at + c]))
            at += c
        return ("chunk", "((%s : list (list Z)), (%s : list (op Z)), (%s : list (out Z)))" % (L.lst(cs), L.lst(ops), L.lst(cobs)))
    if not _is_session(case):
        ops = [_coq_op(op, ctr) for op in case["ops"]]
        cobs = [_coq_out(o) for o in outs]
        term = "(%s, %s, (%s : list (op Z)), (%s : list (out Z)))" % (L.boolean(case["lazy"]), base, L.lst(ops), L.lst(cobs))
        return ("hist", term)
    ops = []
    cobs = []
    for wop, o in zip(case["ops"], outs):
        fi, op = _unwrap(wop)
        if not isinstance(fi, int) or fi < 0:
            return None
        if op[0] == "derive":
            ops.append("(Derive %s %s)" % (L.nat(fi), _coq_dop(op[1], op[2])))
        else:
            ops.append("(On %s %s)" % (L.nat(fi), _coq_op(op, ctr)))
        if o[0] == "bad":
            cobs.append("SBad")
        elif o[0] == "derived":
            cobs.append("(SDerived %s)" % L.lst(L.Z(x) for x in o[1]))
        elif op[0] == "derive":
            return None   # the deriving call raised: outside the model
        else:
            cobs.append("(SOut %s)" % _coq_out(o))
    term = "(%s, %s, (%s : list (sop Z)), (%s : list (sout Z)))" % (L.boolean(case["lazy"]), base, L.lst(ops), L.lst(cobs))
    return ("sess", term)


def nontrivial_key(case, outs):
    delivered = any((o[0] == "row" and o[1] is not None) or (o[0] == "rows" and o[1]) for o in outs)
    if not delivered:
        return None
    return repr((case["lazy"], case.get("seq"), case.get("schema"), case.get("shape"), case.get("ctor"), case.get("chunks"),
                 case.get("tables_as"), case["n"], case["ops"]))


def classify(case, outs):
    yield "lazy" if case["lazy"] else ("eager-tuple" if case.get("seq") == "tuple" else "eager")
    if case.get("schema") == "relation":
        yield "relation-schema"
    yield "shape:" + _shape(case) + ("/" + case["ctor"] if case.get("ctor") else "")
    if case.get("ctor") == "arrow":
        ch = case.get("chunks") or [case["n"]]
        yield "arrow-tables=%d" % min(len(ch), 4)
        if any(c == 0 and any(ch[:i]) and any(ch[i + 1:]) for i, c in enumerate(ch)):
            yield "arrow-empty-table-between-rows"
    if _is_session(case):
        yield "session"
    yield "rows=%d" % min(case["n"], 4) + ("+" if case["n"] > 4 else "")
    yield "depth=%d" % min(len(case["ops"]), 8) + ("+" if len(case["ops"]) > 8 else "")
    seen_fail = False
    derived = 0
    for wop, o in zip(case["ops"], outs):
        fi, op = _unwrap(wop)
        yield "op:" + op[0]
        if op[0] == "append_bad":
            yield "bad:" + op[1]
        if op[0] == "obs" and len(op) > 2:
            yield "obs-with-args:" + op[1]
            if op[1] in ("markdown", "collect", "arrow", "display") and op[2] and op[2][0] <= 0:
                yield "obs-no-limit-value"
        if op[0] == "derive" and o[0] == "derived":
            derived += 1
            yield "derive:" + op[1]
            if o[1] == _canon_rows(case) and case["n"] > 0:
                yield "derive-covers-whole-frame"
        if fi != 0 and op[0] in ("fetchone", "fetchmany", "fetchall"):
            yield "fetch-on-derived-frame"
        if fi != 0 and op[0] == "append":
            yield "append-on-derived-frame"
        if o[0] == "append" and not o[1]:
            seen_fail = True
        elif seen_fail and op[0] in ("fetchone", "fetchmany", "fetchall"):
            yield "fetch-after-failed-append"
            if (o[0] == "row" and o[1] is not None) or (o[0] == "rows" and o[1]):
                yield "fetch-after-failed-append-delivered"
    if any(o[0] == "raise" for o in outs):
        yield "some-call-raised"


def _alphabet(n, obs_cycle, bad_cycle):
    return [
        ["fetchone"], ["fetchmany", 0], ["fetchmany", 1], ["fetchmany", 2], ["fetchmany", n + 1],
        ["fetchmany", None], ["fetchall"], ["arraysize", 1], ["obs", next(obs_cycle)],
        ["obs", "column_names"], ["append"], ["append_bad", next(bad_cycle)],
    ]


def _is_append(o):
    return o[0] in ("append", "append_bad")


def corpus():
    """The exception path of append at every cursor position: k fetches, an append that raises (every kind,
    the 16Mb one included), then one fetch of each sort (and the same with a stored append after it)."""
    for schema in ("names", "relation"):
        for kind in BAD_KINDS[schema]:
            for pre in range(0, 5):
                for tail in ([], [["append"], ["fetchone"]]):
                    c = {"lazy": False, "n": 3,
                         "ops": [["fetchone"]] * pre + [["append_bad", kind], ["fetchone"], ["fetchmany", 5], ["fetchall"]] + tail}
                    if kind == "oversize" and (tail or pre not in (0, 2)):
                        continue
                    if schema == "relation":
                        c["schema"] = "relation"
                    yield c


def _obs_variants(n, shape="int1"):
    a = OBS_ARGS(n)
    return [(name, args) for name in (sorted(a) if shape == "int1" else SAFE_ARGS) for args in a[name]]


def _shaped(c, shape, ctor):
    if shape == "empty0":
        # a dict entry is projected onto the frame's (zero) columns: {"a": 2**64} is an acceptable entry there
        def fix(o):
            if o[0] == "on":
                return ["on", o[1], fix(o[2])]
            return ["append_bad", "wide_int"] if o == ["append_bad", "dict_wide"] else o
        c["ops"] = [fix(o) for o in c["ops"]]
    if shape != "int1" or ctor != "rows":
        c["shape"] = shape
        if ctor != "rows":
            c["ctor"] = ctor
    return c


def _session_scripts(n):
    """what is done with a frame handed back (frame 1) and the frame it came from (frame 0)"""
    one = lambda k, op: ["on", k, op]
    yield [one(1, ["fetchall"]), one(1, ["fetchone"]), one(0, ["fetchmany", 2]), one(0, ["fetchall"]), one(0, ["fetchone"])]
    inter = []
    for _ in range(n + 1):
        inter += [one(1, ["fetchone"]), one(0, ["fetchone"])]
    yield inter
    yield [one(1, ["append"]), one(0, ["obs", "rowcount", []]), one(0, ["fetchall"]), one(1, ["fetchone"]), one(1, ["obs", "rowcount", []])]
    yield [one(0, ["append"]), one(1, ["obs", "rowcount", []]), one(1, ["fetchmany", 1]), one(1, ["fetchall"]), one(0, ["fetchone"])]


def _arrow_exhaustive(sdepth, bad):
    # a lazily backed frame fed by several Arrow tables (from_arrow): every spreading of 0..3 rows over 1..3 tables,
    # empty tables anywhere, all cursor-only histories; then longer frames read to the end and beyond
    k = 0
    for chunks in _chunkings(3, 3):
        n = sum(chunks)
        for d in range(1, sdepth + 1):
            alpha = [o for o in _alphabet(n, itertools.cycle(PURE_OBS), bad)
                     if o != ["fetchmany", 2] and o[0] != "append" and o != ["obs", "column_names"]]
            for hist in itertools.product(alpha, repeat=d):
                k += 1
                yield {"lazy": True, "n": n, "ctor": "arrow", "chunks": chunks, "tables_as": "gen" if k % 2 else "list",
                       "ops": [list(o) for o in hist]}
    scripts = [
        [["fetchall"], ["fetchone"], ["fetchmany", 3], ["fetchall"]],
        [["fetchone"]] * 8,
        [["fetchmany", 2]] * 5,
        [["arraysize", 4], ["fetchmany", None], ["fetchmany", None], ["fetchmany", None]],
        [["fetchone"], ["fetchmany", 2], ["fetchall"], ["fetchone"]],
        [["fetchmany", 3], ["fetchmany", 3], ["fetchmany", 3], ["fetchone"]],
    ]
    for chunks in ([3, 0, 2], [0, 3, 0, 0, 2, 0], [1, 0, 0, 1], [0, 0, 2], [2, 0], [5], [1, 1, 1, 1, 1], [0], [0, 0]):
        for sc in scripts:
            for how in ("list", "gen"):
                yield {"lazy": True, "n": sum(chunks), "ctor": "arrow", "chunks": chunks, "tables_as": how, "ops": [list(o) for o in sc]}


def exhaustive(tier):
    depth = 3 if tier == "quick" else 4
    rdepth = 2 if tier == "quick" else 3

    def it():
        cyc = itertools.cycle(MAT_OBS)
        bad = itertools.cycle(CHEAP_BAD["names"])
        for n in range(0, 4):
            for d in range(0, depth + 1):
                alpha = _alphabet(n, cyc, bad)
                for hist in itertools.product(alpha, repeat=d):
                    yield {"lazy": False, "n": n, "ops": [list(o) for o in hist]}

        # the same histories without append calls on tuple-backed frames (depth <= 2)
        for n in range(0, 4):
            for d in range(0, 3):
                alpha = [o for o in _alphabet(n, cyc, bad) if not _is_append(o)]
                for hist in itertools.product(alpha, repeat=d):
                    yield {"lazy": False, "seq": "tuple", "n": n, "ops": [list(o) for o in hist]}

        # frames over a RelationSchema (append validates first, entries are dicts)
        rbad = itertools.cycle(CHEAP_BAD["relation"])
        for n in range(0, 4):
            for d in range(1, rdepth + 1):
                alpha = _alphabet(n, cyc, rbad)
                for hist in itertools.product(alpha, repeat=d):
                    yield {"lazy": False, "schema": "relation", "n": n, "ops": [list(o) for o in hist]}

        # every observer, with every argument value of its pool, at every cursor position - alone, twice in a row,
        # and on a frame that has been appended to
        for n in range(0, 4):
            for name, args in _obs_variants(n):
                o = ["obs", name, args]
                for pre in range(0, n + 1):
                    yield {"lazy": False, "n": n, "ops": [["fetchone"]] * pre + [o, ["fetchone"], o, ["fetchmany", 1], ["fetchall"]]}
                yield {"lazy": False, "n": n, "ops": [["fetchmany", 1], ["append"], o, ["fetchone"]]}
                yield {"lazy": False, "schema": "relation", "n": n, "ops": [["fetchmany", 1], o, ["fetchall"], o]}

        # every frame-returning observer call, its result kept and used: the session scripts
        for n in range(0, 4):
            for name, args in _derive_args(n):
                for pre in (0, 1):
                    for script in _session_scripts(n):
                        yield {"lazy": False, "n": n, "ops": [["fetchone"]] * pre + [["derive", name, args]] + script}

        # what the rows ARE must not matter: rows of no columns, falsy / None / equal-but-different cells, identical
        # rows, Row instances built from dicts - all histories to depth 2 (3 in the thorough tier)
        sdepth = 2 if tier == "quick" else 3
        scyc = itertools.cycle(SAFE_OBS)
        for shape, ctor in EAGER_SHAPES:
            for n in range(0, 4):
                for d in range(1, sdepth + 1):
                    alpha = [o for o in _alphabet(n, scyc, bad) if o != ["fetchmany", 2]]
                    for hist in itertools.product(alpha, repeat=d):
                        yield _shaped({"lazy": False, "n": n, "ops": [list(o) for o in hist]}, shape, ctor)
            # ... and a frame handed back by slice / head / tail / query keeps its own cursor there too
            for name, args in (("slice", []), ("head", [2]), ("tail", [5]), ("query", [])):
                for script in _session_scripts(3):
                    yield _shaped({"lazy": False, "n": 3, "ops": [["fetchone"], ["derive", name, args]] + script}, shape, ctor)
        # ... and lazily backed frames of these shapes read only through the cursor (select() projections included)
        for shape, ctor in LAZY_SHAPES:
            for n in range(0, 4):
                for d in range(1, sdepth + 1):
                    alpha = [o for o in _alphabet(n, itertools.cycle(PURE_OBS), bad)
                             if o != ["fetchmany", 2] and o[0] != "append" and o != ["obs", "column_names"]]
                    for hist in itertools.product(alpha, repeat=d):
                        yield _shaped({"lazy": True, "n": n, "ops": [list(o) for o in hist]}, shape, ctor)

        yield from _arrow_exhaustive(sdepth, bad)

    return it(), (f"all eager histories of depth <= {depth} over the 12-letter alphabet (fetches, arraysize, observers, append, failing append) "
                  f"on frames of 0..3 rows (list-backed; tuple-backed without append calls to depth 2; RelationSchema-backed to depth {rdepth}); "
                  "every observer x every argument value of its pool x every cursor position; every frame-returning call "
                  "(slice/head/tail over their argument pools, query, distinct) x cursor position 0/1 x 4 session scripts using the frame handed back; "
                  f"all histories of depth <= {2 if tier == 'quick' else 3} on frames of 0..3 rows of every other row shape "
                  "(no columns; falsy / None / equal-but-different cells; identical rows; two columns; built from rows or from dicts) "
                  "and on lazily backed frames of those shapes (generator, select() / filter() / take() views); "
                  "from_arrow frames: every spreading of 0..3 rows over 1..3 tables (empty tables anywhere) x all cursor-only "
                  "histories of that depth, and 9 longer table layouts x 6 read-to-the-end-and-beyond scripts")


def _random_obs(rng, n, lazy, shape="int1"):
    if lazy:
        return ["obs", rng.choice(PURE_OBS)]
    if rng.random() < 0.5:
        return ["obs", rng.choice(PURE_OBS + (MAT_OBS if shape == "int1" else SAFE_OBS))]
    name, args = rng.choice(_obs_variants(n, shape))
    return ["obs", name, args]


def _random_case(rng, lazy, schema="names", shape="int1", ctor="rows"):
    n = rng.choice([0, 1, 2, 3, 5, 8, 12])
    ops = []
    for _ in range(rng.randint(1, 14)):
        r = rng.random()
        if r < 0.25:
            ops.append(["fetchone"])
        elif r < 0.5:
            ops.append(["fetchmany", rng.choice([None, 0, 1, 2, 3, n, n + 1, -1])])
        elif r < 0.6:
            ops.append(["fetchall"])
        elif r < 0.68:
            ops.append(["arraysize", rng.choice([0, 1, 2, 3, 7, 100])])
        elif r < 0.87:
            ops.append(_random_obs(rng, n, lazy, shape))
        elif r < 0.94:
            ops.append(["append_bad", rng.choice(CHEAP_BAD[schema])])
        elif not lazy or r < 0.96:
            ops.append(["append"])
    c = {"lazy": lazy, "n": n, "ops": ops}
    if schema == "relation":
        c["schema"] = "relation"
    return _shaped(c, shape, ctor)


def _arrow_case(rng):
    chunks = [rng.choice([0, 0, 1, 2, 3, 4]) for _ in range(rng.randint(1, 5))]
    c = _random_case(rng, lazy=True)
    c.update({"n": sum(chunks), "ctor": "arrow", "chunks": chunks, "tables_as": rng.choice(["list", "gen"])})
    return c


def _shape_case(rng):
    """a frame whose rows are not distinct one-column integer rows, or a lazily backed one that comes from another entry point"""
    if rng.random() < 0.3:
        return _arrow_case(rng)
    if rng.random() < 0.35:
        shape, ctor = rng.choice(LAZY_SHAPES)
        return _random_case(rng, lazy=True, shape=shape, ctor=ctor)
    shape, ctor = rng.choice(EAGER_SHAPES)
    return _random_case(rng, lazy=False, shape=shape, ctor=ctor)


def _failed_append_case(rng):
    """aimed at the exception path of append: some fetches, an append that raises, then fetches again"""
    schema = rng.choice(["names", "names", "relation"])
    n = rng.choice([0, 1, 2, 3, 5, 8])

    def fetches(lo, hi):
        out = []
        for _ in range(rng.randint(lo, hi)):
            r = rng.random()
            if r < 0.5:
                out.append(["fetchone"])
            elif r < 0.8:
                out.append(["fetchmany", rng.choice([None, 0, 1, 2, n + 1])])
            elif r < 0.9:
                out.append(["fetchall"])
            else:
                out.append(["obs", rng.choice(PURE_OBS + MAT_OBS)])
        return out

    kinds = BAD_KINDS[schema] if rng.random() < 0.03 else CHEAP_BAD[schema]
    ops = fetches(0, n + 1) + [["append_bad", rng.choice(kinds)]] + fetches(1, 4)
    if rng.random() < 0.4:
        ops += [["append_bad", rng.choice(CHEAP_BAD[schema])]] + fetches(0, 3)
    if rng.random() < 0.3:
        ops += [["append"]] + fetches(1, 2)
    c = {"lazy": False, "n": n, "ops": ops}
    if schema == "relation":
        c["schema"] = "relation"
    return c


def _session_case(rng):
    """several frames alive at once: frames derived from frame 0 (and from derived frames), calls on all of them interleaved"""
    n = rng.choice([1, 2, 3, 4, 6])
    schema = rng.choice(["names", "names", "names", "relation"])
    shape, ctor = ("int1", "rows")
    if schema == "names" and rng.random() < 0.3:
        shape, ctor = rng.choice(EAGER_SHAPES)
    sizes = [n]          # a guess of each frame's size, for picking arguments only
    ops = []
    for _ in range(rng.randint(3, 16)):
        fi = rng.randrange(len(sizes))
        m = sizes[fi]
        r = rng.random()
        if r < 0.22 and len(sizes) < 4:
            if rng.random() < 0.5:
                # bounds that reach the whole frame
                name, args = rng.choice([("slice", []), ("slice", [0, m]), ("slice", [0, m + 1]), ("head", [m]), ("head", [m + 3]),
                                         ("tail", [m]), ("tail", [m + 2]), ("head", []), ("tail", []), ("slice", [-m - 1, None]),
                                         ("query", [])] + ([("distinct", [])] if shape == "int1" else []))
                sizes.append(m)
            else:
                name, args = rng.choice(_derive_args(m, shape))
                sizes.append(max(0, m - 1))
            op = ["derive", name, args]
        elif r < 0.45:
            op = ["fetchone"]
        elif r < 0.62:
            op = ["fetchmany", rng.choice([None, 0, 1, 2, m + 1])]
        elif r < 0.72:
            op = ["fetchall"]
        elif r < 0.84:
            op = _random_obs(rng, m, False, shape)
        elif r < 0.9:
            op = ["append_bad", rng.choice(CHEAP_BAD[schema])]
        elif r < 0.96:
            op = ["append"]
            sizes[fi] += 1
        else:
            op = ["arraysize", rng.choice([1, 2, 100])]
        ops.append(op if fi == 0 and rng.random() < 0.5 else ["on", fi, op])
    c = {"lazy": False, "n": n, "ops": ops}
    if schema == "relation":
        c["schema"] = "relation"
    return _shaped(c, shape, ctor)


def _lazy_view_case(rng):
    """a generator-backed frame that IS materialised by an observer or a slice (outside the contract: oracle silent from
    there on; the model still has to agree: the observer sees what the generator had left)"""
    n = rng.choice([0, 1, 2, 3, 5])
    ops = []
    for _ in range(rng.randint(1, 8)):
        r = rng.random()
        if r < 0.35:
            ops.append(["fetchone"])
        elif r < 0.55:
            ops.append(["fetchmany", rng.choice([None, 0, 1, 2])])
        elif r < 0.62:
            ops.append(["fetchall"])
        elif r < 0.85:
            name = rng.choice(["rowcount", "len", "shape", "collect", "getitem", "markdown", "slice", "head", "tail", "arrow", "to_batches"])
            ops.append(["obs", name, rng.choice(OBS_ARGS(n)[name])])
        elif r < 0.93:
            ops.append(["derive", rng.choice(["slice", "head", "tail"]), rng.choice([[], [1]])])
        else:
            ops.append(["append"])
    return {"lazy": True, "n": n, "ops": ops}


def _tuple_case(rng):
    c = _random_case(rng, lazy=False)
    c["ops"] = [o for o in c["ops"] if not _is_append(o)]
    c["seq"] = "tuple"
    return c


def generate(rng, tier):
    count = 1080 if tier == "quick" else 21600
    for i in range(count):
        m = i % 9
        if m == 8:
            yield _shape_case(rng)
        elif m == 7:
            yield _lazy_view_case(rng) if i % 16 == 15 else _session_case(rng)
        elif m == 6:
            yield _session_case(rng)
        elif m == 5:
            yield _failed_append_case(rng)
        elif m == 4:
            yield _tuple_case(rng)
        elif m == 2:
            yield _random_case(rng, lazy=False, schema="relation")
        else:
            yield _random_case(rng, lazy=(m % 3 == 0))


def search(rng):
    while True:
        r = rng.random()
        if r < 0.15:
            yield _shape_case(rng)
        elif r < 0.25:
            yield _random_case(rng, lazy=True)
        elif r < 0.35:
            yield _failed_append_case(rng)
        elif r < 0.65:
            yield _session_case(rng)
        else:
            yield _random_case(rng, lazy=False, schema=rng.choice(["names", "names", "relation"]))


def shrink(case):
    ops = case["ops"]
    for i in range(len(ops)):
        yield dict(case, ops=ops[:i] + ops[i + 1:])
    if case["n"] > 0:
        yield dict(case, n=case["n"] - 1)
