"""C04 - Cursor fetches deliver every row exactly once, in order.

Case:  {"lazy": bool, "n": rows, "ops": [op, ...]}   op =
  ["fetchone"] | ["fetchmany", k|None] | ["fetchall"] | ["arraysize", n] | ["obs", name] | ["append"]
Rows are the 1-tuples (0,), (1,), ...; appended rows are (1000+j,), so a row is
identified by its integer and "skipped / repeated" is directly visible.
Observed: one entry per op: ["row", id|None] | ["rows", [ids]] | ["unit"] | ["raise", exc]."""
import itertools

from vlib import coqlit as L

ID = "C04"
READY = True
TECHNIQUE = "Coq proof by induction over call histories (cursor state machine) + model/implementation correspondence evaluated in Coq, exhaustive small scope"
LEVEL_TEXT = ("Machine-checked Coq theorems over an executable cursor model, for every row list and every finite history: fetched rows "
              "concatenate to a prefix in order, fetchmany(k) returns min(k, remaining), exhaustion answers, observers inert, refusal after "
              "append, and the same contract for a lazily backed frame read only through the cursor. The model is tied to dataframe.py by "
              "running real DataFrames through all histories of a small scope (exhaustively) and random deeper ones and evaluating the model "
              "on the same histories inside Coq; a direct property oracle on the implementation supplies replayable failing histories.")
LEVEL_NOTE = ("Trusted: Coq kernel + vm_compute; the hand-written model of _cursor/materialize (validated, not verified, against CPython iterator "
              "semantics by the correspondence run); the harness's classification of observers as materialising or not. No axioms (Print Assumptions: closed).")
DESIGN_REF = "DESIGN.md section 8, C04"
COQ_IMPORTS = "From Orso Require Import Model.C04."
COQ_CHECKS = {"hist": "c04_check"}
COQ_SHOW = {"hist": "c04_show"}
RULE = ("histories over {fetchone, fetchmany(k), fetchmany(), fetchall, arraysize change, real read-only observers, append} "
        "run on a real DataFrame (eager: list-backed; lazy: generator-backed, cursor-only histories); exhaustive over "
        "rows 0..3 x histories up to the stated depth over an 11-letter alphabet, then random deeper histories; "
        "a case is non-trivial when at least one fetch delivered a row; distinct by canonical JSON")
TRUSTED = [
    "C04 model (coq/Model/C04.v): cursor as a position in the row list (eager) / as the generator itself (lazy); "
    "observers are classified by the harness as materialising or pure (a wrong classification shows as a mismatch on lazy frames)",
    "modelled, not verified: CPython list-iterator and generator semantics behind DataFrame._cursor",
]
ASSUMPTIONS = [
    "lazy frames are exercised only through the cursor (plus observers that do not materialise), as the property states",
    "rows are identified by distinct integers in the harness; the theorems are over an arbitrary row type",
]

PURE_OBS = ["column_names", "columncount", "arraysize_read"]
MAT_OBS = ["rowcount", "len", "shape", "collect", "iter", "slice", "arrow", "display", "str", "head", "tail", "getitem", "row", "markdown", "nbytes", "distinct", "query"]


def _observer(df, name):
    if name == "column_names":
        return df.column_names
    if name == "columncount":
        return df.columncount
    if name == "arraysize_read":
        return df.arraysize
    if name == "rowcount":
        return df.rowcount
    if name == "len":
        return len(df)
    if name == "shape":
        return df.shape
    if name == "collect":
        return df.collect(0)
    if name == "iter":
        return list(df)
    if name == "slice":
        return df.slice(1, 2)
    if name == "arrow":
        return df.arrow()
    if name == "display":
        return df.display(limit=2, colorize=False)
    if name == "str":
        return str(df)
    if name == "head":
        return df.head(2)
    if name == "tail":
        return df.tail(2)
    if name == "getitem":
        return df["a"]
    if name == "row":
        return df.row(0) if df.rowcount else None
    if name == "markdown":
        return df.markdown()
    if name == "nbytes":
        return df.nbytes()
    if name == "distinct":
        return df.distinct()
    if name == "query":
        return df.query(lambda r: True)
    raise KeyError(name)


def observe(case):
    from orso.dataframe import DataFrame

    n = case["n"]
    rows = [(i,) for i in range(n)]
    if case["lazy"]:
        df = DataFrame(rows=(r for r in rows), schema=["a"])
    elif case.get("seq") == "tuple":
        # an in-memory frame whose row store is a sequence but not a list: materialised on first
        # observation, the cursor must not notice (histories without append)
        df = DataFrame(rows=tuple(rows), schema=["a"])
    else:
        df = DataFrame(rows=list(rows), schema=["a"])
    outs = []
    appended = 0
    for op in case["ops"]:
        try:
            k = op[0]
            if k == "fetchone":
                r = df.fetchone()
                outs.append(["row", None if r is None else int(r[0])])
            elif k == "fetchmany":
                r = df.fetchmany() if op[1] is None else df.fetchmany(op[1])
                outs.append(["rows", [int(x[0]) for x in r]])
            elif k == "fetchall":
                r = df.fetchall()
                outs.append(["rows", [int(x[0]) for x in r]])
            elif k == "arraysize":
                df.arraysize = op[1]
                outs.append(["unit"])
            elif k == "obs":
                _observer(df, op[1])
                outs.append(["unit"])
            elif k == "append":
                df.append((1000 + appended,))
                appended += 1
                outs.append(["unit"])
            else:
                raise KeyError(k)
        except KeyError:
            raise
        except Exception as e:  # the call raised
            outs.append(["raise", type(e).__name__])
    return outs


def oracle(case, outs):
    """The property, read literally, evaluated on what the implementation returned."""
    rows = list(range(case["n"]))
    pos = 0
    asz = 100
    dead = False
    for i, (op, out) in enumerate(zip(case["ops"], outs)):
        k = op[0]
        where = f"op {i} {op}"
        if k in ("fetchone", "fetchmany", "fetchall"):
            if dead:
                if out[0] != "raise":
                    return f"{where}: fetch after append must refuse to run, returned {out}"
                continue
            if out[0] == "raise":
                return f"{where}: fetch raised {out[1]} although no row was appended"
            if k == "fetchone":
                want = rows[pos] if pos < len(rows) else None
                if out != ["row", want]:
                    return f"{where}: expected row {want} (next undelivered row, None after exhaustion), got {out}"
                if want is not None:
                    pos += 1
            elif k == "fetchmany":
                size = asz if op[1] is None else op[1]
                want = rows[pos:pos + max(0, size)]
                if out != ["rows", want]:
                    return f"{where}: expected the next min(k, remaining) rows {want}, got {out}"
                pos += len(want)
            else:
                want = rows[pos:]
                if out != ["rows", want]:
                    return f"{where}: expected all remaining rows {want}, got {out}"
                pos = len(rows)
        elif k == "arraysize":
            asz = op[1]
            if out != ["unit"]:
                return f"{where}: setting arraysize raised {out}"
        elif k == "obs":
            if out != ["unit"]:
                return f"{where}: read-only observer raised {out}"
        elif k == "append":
            if case["lazy"]:
                continue  # outside the contract (lazy frames are read only through the cursor)
            if out != ["unit"]:
                return f"{where}: append raised {out}"
            dead = True
    return None


def _coq_op(op):
    k = op[0]
    if k == "fetchone":
        return "FetchOne"
    if k == "fetchmany":
        return "(FetchMany %s)" % L.opt(None if op[1] is None else L.Z(op[1]))
    if k == "fetchall":
        return "FetchAll"
    if k == "arraysize":
        return "(SetArraysize %s)" % L.Z(op[1])
    if k == "obs":
        return "ObservePure" if op[1] in PURE_OBS else "ObserveMat"
    if k == "append":
        return "(Append %s)" % L.Z(1000 + op[1]) if len(op) > 1 else None
    raise KeyError(k)


def to_coq(case, outs):
    ops = []
    j = 0
    for op in case["ops"]:
        if op[0] == "append":
            ops.append("(Append %s)" % L.Z(1000 + j))
            j += 1
        else:
            ops.append(_coq_op(op))
    cobs = []
    for o in outs:
        if o[0] == "row":
            cobs.append("(ORow %s)" % L.opt(None if o[1] is None else L.Z(o[1])))
        elif o[0] == "rows":
            cobs.append("(ORows %s)" % L.lst(L.Z(x) for x in o[1]))
        elif o[0] == "unit":
            cobs.append("OUnit")
        else:
            cobs.append("ORaise")
    term = "(%s, %s, (%s : list (op Z)), (%s : list (out Z)))" % (
        L.boolean(case["lazy"]),
        "(%s : list Z)" % L.lst(L.Z(i) for i in range(case["n"])),
        L.lst(ops),
        L.lst(cobs),
    )
    return ("hist", term)


def nontrivial_key(case, outs):
    delivered = any((o[0] == "row" and o[1] is not None) or (o[0] == "rows" and o[1]) for o in outs)
    if not delivered:
        return None
    return repr((case["lazy"], case.get("seq"), case["n"], case["ops"]))


def classify(case, outs):
    yield "lazy" if case["lazy"] else ("eager-tuple" if case.get("seq") == "tuple" else "eager")
    yield "rows=%d" % min(case["n"], 4) + ("+" if case["n"] > 4 else "")
    yield "depth=%d" % min(len(case["ops"]), 8) + ("+" if len(case["ops"]) > 8 else "")
    for op in case["ops"]:
        yield "op:" + op[0]
    if any(o[0] == "raise" for o in outs):
        yield "some-call-raised"


def _alphabet(n, obs_cycle):
    return [
        ["fetchone"], ["fetchmany", 0], ["fetchmany", 1], ["fetchmany", 2], ["fetchmany", n + 1],
        ["fetchmany", None], ["fetchall"], ["arraysize", 1], ["obs", next(obs_cycle)],
        ["obs", "column_names"], ["append"],
    ]


def exhaustive(tier):
    depth = 3 if tier == "quick" else 4

    def it():
        cyc = itertools.cycle(MAT_OBS)
        for n in range(0, 4):
            for d in range(0, depth + 1):
                alpha = _alphabet(n, cyc)
                for hist in itertools.product(alpha, repeat=d):
                    yield {"lazy": False, "n": n, "ops": [list(o) for o in hist]}

        # the same histories without append on tuple-backed frames (depth <= 2)
        for n in range(0, 4):
            for d in range(0, 3):
                alpha = [o for o in _alphabet(n, cyc) if o[0] != "append"]
                for hist in itertools.product(alpha, repeat=d):
                    yield {"lazy": False, "seq": "tuple", "n": n, "ops": [list(o) for o in hist]}

    return it(), f"all eager histories of depth <= {depth} over the 11-letter alphabet on frames of 0..3 rows (list-backed; tuple-backed without append to depth 2)"


def _random_case(rng, lazy):
    n = rng.choice([0, 1, 2, 3, 5, 8, 12])
    ops = []
    for _ in range(rng.randint(1, 14)):
        r = rng.random()
        if r < 0.25:
            ops.append(["fetchone"])
        elif r < 0.5:
            ops.append(["fetchmany", rng.choice([None, 0, 1, 2, 3, n, n + 1, -1])])
        elif r < 0.6:
            ops.append(["fetchall"])
        elif r < 0.7:
            ops.append(["arraysize", rng.choice([0, 1, 2, 3, 7, 100])])
        elif r < 0.93:
            ops.append(["obs", rng.choice(PURE_OBS if lazy else PURE_OBS + MAT_OBS)])
        elif not lazy:
            ops.append(["append"])
    return {"lazy": lazy, "n": n, "ops": ops}


def _tuple_case(rng):
    c = _random_case(rng, lazy=False)
    c["ops"] = [o for o in c["ops"] if o[0] != "append"]
    c["seq"] = "tuple"
    return c


def generate(rng, tier):
    count = 600 if tier == "quick" else 12000
    for i in range(count):
        if i % 5 == 4:
            yield _tuple_case(rng)
        else:
            yield _random_case(rng, lazy=(i % 3 == 0))


def search(rng):
    while True:
        yield _random_case(rng, lazy=rng.random() < 0.3)


def shrink(case):
    ops = case["ops"]
    for i in range(len(ops)):
        yield dict(case, ops=ops[:i] + ops[i + 1:])
    if case["n"] > 0:
        yield dict(case, n=case["n"] - 1)
