"""C04 - Cursor fetches deliver every row exactly once, in order.

Case:  {"lazy": bool, "n": rows, "ops": [op, ...], optional "seq": "tuple", optional "schema": "relation"}   op =
  ["fetchone"] | ["fetchmany", k|None] | ["fetchall"] | ["arraysize", n] | ["obs", name] | ["append"]
  | ["append_bad", kind]      an append whose entry makes DataFrame.append raise (kinds: BAD_KINDS)
Rows are the 1-tuples (0,), (1,), ...; appended rows are (1000+j,), so a row is
identified by its integer and "skipped / repeated" is directly visible.  The j-th rejected
entry that could be stored as a row at all carries the id -(100+j) (a too-wide integer) or -2.
"schema": "relation" builds the frame over a RelationSchema (one INTEGER column), so append
starts with schema validation and takes dict entries.
Observed: one entry per op: ["row", id|None] | ["rows", [ids]] | ["unit"] | ["raise", exc]
  | ["append", returned_normally, length of the row store right after the call | None, exc|None]
(the store length is read off the frame's list without calling any DataFrame method)."""
import itertools

from vlib import coqlit as L

ID = "C04"
READY = True
TECHNIQUE = "Coq proof by induction over call histories (cursor state machine) + model/implementation correspondence evaluated in Coq, exhaustive small scope"
LEVEL_TEXT = ("Machine-checked Coq theorems over an executable cursor model, for every row list and every finite history: fetched rows "
              "concatenate to a prefix in order, fetchmany(k) returns min(k, remaining), exhaustion answers, observers inert, refusal after "
              "append, and the same contract for a lazily backed frame read only through the cursor. The model is tied to dataframe.py by "
              "running real DataFrames through all histories of a small scope (exhaustively) and random deeper ones and evaluating the model "
              "on the same histories inside Coq; a direct property oracle on the implementation supplies replayable failing histories.")
LEVEL_NOTE = ("Trusted: Coq kernel + vm_compute; the hand-written model of _cursor/materialize (validated, not verified, against CPython iterator "
              "semantics by the correspondence run); the harness's classification of observers as materialising or not. No axioms (Print Assumptions: closed).")
DESIGN_REF = "DESIGN.md section 8, C04"
COQ_IMPORTS = "From Orso Require Import Model.C04."
COQ_CHECKS = {"hist": "c04_check"}
COQ_SHOW = {"hist": "c04_show"}
RULE = ("histories over {fetchone, fetchmany(k), fetchmany(), fetchall, arraysize change, real read-only observers, append, "
        "append of an entry that makes append raise (rejected by validation / by the row factory / by Row.nbytes)} "
        "run on a real DataFrame (eager: list-backed, over a name list or a RelationSchema; lazy: generator-backed, cursor-only "
        "histories plus failing append calls); after every append call the length of the row store is recorded; exhaustive over "
        "rows 0..3 x histories up to the stated depth over a 12-letter alphabet, then random deeper histories; "
        "a case is non-trivial when at least one fetch delivered a row; distinct by canonical JSON")
TRUSTED = [
    "C04 model (coq/Model/C04.v): cursor as a position in the row list (eager) / as the generator itself (lazy); "
    "observers are classified by the harness as materialising or pure (a wrong classification shows as a mismatch on lazy frames)",
    "modelled, not verified: CPython list-iterator and generator semantics behind DataFrame._cursor",
    "the harness's classification of an entry as one that makes append raise (AppendBad) - a wrong classification shows as a "
    "mismatch on the append's own output; the row-store length after an append is read from DataFrame._rows (a list) directly",
]
ASSUMPTIONS = [
    "lazy frames are exercised only through the cursor (plus observers that do not materialise), as the property states",
    "rows are identified by distinct integers in the harness; the theorems are over an arbitrary row type",
]

PURE_OBS = ["column_names", "columncount", "arraysize_read"]
# entries that make DataFrame.append raise, by the statement of append that raises
BAD_KINDS = {
    # frames over a list of names: no validation; the row factory or Row.nbytes() raises
    "names": ["wide_int", "non_iterable", "nonstr_key", "dict_wide", "none", "nested", "oversize"],
    # frames over a RelationSchema: validation raises first; "wide" passes validation and the factory, nbytes raises
    "relation": ["wide", "notdict", "wrongtype", "extra", "missing"],
}
CHEAP_BAD = {"names": BAD_KINDS["names"][:-1], "relation": BAD_KINDS["relation"]}
WIDE = 2 ** 64            # ormsgpack refuses integers from here on
WIDE_KINDS = ("wide_int", "dict_wide", "wide")


def _bad_entry(kind, j):
    if kind == "wide_int":
        return (WIDE + j,)
    if kind == "dict_wide":
        return {"a": WIDE + j}
    if kind == "wide":
        return {"a": WIDE + j}
    if kind == "non_iterable":
        return 5
    if kind == "none":
        return None
    if kind == "nonstr_key":
        return ({1: 2},)
    if kind == "nested":
        x = []
        for _ in range(300):
            x = [x]
        return (x,)
    if kind == "oversize":
        return ("x" * (16 * 1024 * 1024 + 1),)
    if kind == "notdict":
        return (7,)
    if kind == "wrongtype":
        return {"a": "s"}
    if kind == "extra":
        return {"a": 1, "b": 2}
    if kind == "missing":
        return {}
    raise KeyError(kind)


def _bad_id(kind, j):
    return -(100 + j) if kind in WIDE_KINDS else -2


def _rid(row):
    """the integer identifying a delivered row (rejected entries that leaked into the frame included)"""
    v = row[0]
    if isinstance(v, int) and not isinstance(v, bool):
        return -(100 + (v - WIDE)) if v >= WIDE else v
    return -2


def _schema_kind(case):
    return "relation" if case.get("schema") == "relation" else "names"


MAT_OBS = ["rowcount", "len", "shape", "collect", "iter", "slice", "arrow", "display", "str", "head", "tail", "getitem", "row", "markdown", "nbytes", "distinct", "query"]


def _observer(df, name):
    if name == "column_names":
        return df.column_names
    if name == "columncount":
        return df.columncount
    if name == "arraysize_read":
        return df.arraysize
    if name == "rowcount":
        return df.rowcount
    if name == "len":
        return len(df)
    if name == "shape":
        return df.shape
    if name == "collect":
        return df.collect(0)
    if name == "iter":
        return list(df)
    if name == "slice":
        return df.slice(1, 2)
    if name == "arrow":
        return df.arrow()
    if name == "display":
        return df.display(limit=2, colorize=False)
    if name == "str":
        return str(df)
    if name == "head":
        return df.head(2)
    if name == "tail":
        return df.tail(2)
    if name == "getitem":
        return df["a"]
    if name == "row":
        return df.row(0) if df.rowcount else None
    if name == "markdown":
        return df.markdown()
    if name == "nbytes":
        return df.nbytes()
    if name == "distinct":
        return df.distinct()
    if name == "query":
        return df.query(lambda r: True)
    raise KeyError(name)


def observe(case):
    from orso.dataframe import DataFrame

    n = case["n"]
    rows = [(i,) for i in range(n)]
    rel = _schema_kind(case) == "relation"
    if rel:
        from orso.schema import FlatColumn, RelationSchema
        from orso.types import OrsoTypes

        schema = RelationSchema(name="t", columns=[FlatColumn(name="a", type=OrsoTypes.INTEGER)])
        df = DataFrame(rows=list(rows), schema=schema)
    elif case["lazy"]:
        df = DataFrame(rows=(r for r in rows), schema=["a"])
    elif case.get("seq") == "tuple":
        # an in-memory frame whose row store is a sequence but not a list: materialised on first
        # observation, the cursor must not notice (histories without append)
        df = DataFrame(rows=tuple(rows), schema=["a"])
    else:
        df = DataFrame(rows=list(rows), schema=["a"])
    outs = []
    appended = 0
    bad = 0
    for op in case["ops"]:
        if op[0] in ("append", "append_bad"):
            if op[0] == "append":
                entry = {"a": 1000 + appended} if rel else (1000 + appended,)
                appended += 1
            else:
                entry = _bad_entry(op[1], bad)
                bad += 1
            try:
                df.append(entry)
                ok, exc = True, None
            except Exception as e:  # the call raised
                ok, exc = False, type(e).__name__
            store = df._rows  # fail closed (AttributeError) if the row store is renamed
            outs.append(["append", ok, len(store) if isinstance(store, list) else None, exc])
            continue
        try:
            k = op[0]
            if k == "fetchone":
                r = df.fetchone()
                outs.append(["row", None if r is None else _rid(r)])
            elif k == "fetchmany":
                r = df.fetchmany() if op[1] is None else df.fetchmany(op[1])
                outs.append(["rows", [_rid(x) for x in r]])
            elif k == "fetchall":
                r = df.fetchall()
                outs.append(["rows", [_rid(x) for x in r]])
            elif k == "arraysize":
                df.arraysize = op[1]
                outs.append(["unit"])
            elif k == "obs":
                _observer(df, op[1])
                outs.append(["unit"])
            else:
                raise KeyError(k)
        except KeyError:
            raise
        except Exception as e:  # the call raised
            outs.append(["raise", type(e).__name__])
    return outs


def oracle(case, outs):
    """The property, read literally, evaluated on what the implementation returned."""
    rows = list(range(case["n"]))
    pos = 0
    asz = 100
    dead = False          # a row has been appended (the frame has grown)
    count = len(rows)     # rows in the frame
    for i, (op, out) in enumerate(zip(case["ops"], outs)):
        k = op[0]
        where = f"op {i} {op}"
        if k in ("fetchone", "fetchmany", "fetchall"):
            if dead:
                if out[0] != "raise":
                    return f"{where}: the frame has grown to {count} rows by append, fetch must refuse to run, returned {out}"
                continue
            if out[0] == "raise":
                return f"{where}: fetch raised {out[1]} although no row was appended"
            if k == "fetchone":
                want = rows[pos] if pos < len(rows) else None
                if out != ["row", want]:
                    return f"{where}: expected row {want} (next undelivered row, None after exhaustion), got {out}"
                if want is not None:
                    pos += 1
            elif k == "fetchmany":
                size = asz if op[1] is None else op[1]
                want = rows[pos:pos + max(0, size)]
                if out != ["rows", want]:
                    return f"{where}: expected the next min(k, remaining) rows {want}, got {out}"
                pos += len(want)
            else:
                want = rows[pos:]
                if out != ["rows", want]:
                    return f"{where}: expected all remaining rows {want}, got {out}"
                pos = len(rows)
        elif k == "arraysize":
            asz = op[1]
            if out != ["unit"]:
                return f"{where}: setting arraysize raised {out}"
        elif k == "obs":
            if out != ["unit"]:
                return f"{where}: read-only observer raised {out}"
        elif k in ("append", "append_bad"):
            if case["lazy"]:
                continue  # outside the contract (lazy frames are read only through the cursor)
            if out[0] != "append" or out[2] is None:
                return f"{where}: no append outcome / row-store length recorded on a materialised frame: {out}"
            ok, after = out[1], out[2]
            if k == "append" and not ok:
                return f"{where}: append raised {out[3]}"
            if after == count + 1:
                # a row has been appended - whether or not the call then raised: from here on
                # every fetch call has to refuse
                dead = True
                count = after
            elif after == count:
                if ok:
                    return f"{where}: append returned normally but the frame still has {count} rows"
                # nothing was appended: the cursor contract carries on unchanged
            else:
                return f"{where}: an append call changed the frame from {count} to {after} rows"
    return None


def _coq_op(op):
    k = op[0]
    if k == "fetchone":
        return "FetchOne"
    if k == "fetchmany":
        return "(FetchMany %s)" % L.opt(None if op[1] is None else L.Z(op[1]))
    if k == "fetchall":
        return "FetchAll"
    if k == "arraysize":
        return "(SetArraysize %s)" % L.Z(op[1])
    if k == "obs":
        return "ObservePure" if op[1] in PURE_OBS else "ObserveMat"
    raise KeyError(k)


def to_coq(case, outs):
    ops = []
    j = 0
    b = 0
    for op in case["ops"]:
        if op[0] == "append":
            ops.append("(Append %s)" % L.Z(1000 + j))
            j += 1
        elif op[0] == "append_bad":
            ops.append("(AppendBad %s)" % L.Z(_bad_id(op[1], b)))
            b += 1
        else:
            ops.append(_coq_op(op))
    cobs = []
    for o in outs:
        if o[0] == "row":
            cobs.append("(ORow %s)" % L.opt(None if o[1] is None else L.Z(o[1])))
        elif o[0] == "rows":
            cobs.append("(ORows %s)" % L.lst(L.Z(x) for x in o[1]))
        elif o[0] == "unit":
            cobs.append("OUnit")
        elif o[0] == "append":
            cobs.append("(OAppend %s %s)" % (L.boolean(o[1]), L.opt(None if o[2] is None else L.nat(o[2]))))
        else:
            cobs.append("ORaise")
    term = "(%s, %s, (%s : list (op Z)), (%s : list (out Z)))" % (
        L.boolean(case["lazy"]),
        "(%s : list Z)" % L.lst(L.Z(i) for i in range(case["n"])),
        L.lst(ops),
        L.lst(cobs),
    )
    return ("hist", term)


def nontrivial_key(case, outs):
    delivered = any((o[0] == "row" and o[1] is not None) or (o[0] == "rows" and o[1]) for o in outs)
    if not delivered:
        return None
    return repr((case["lazy"], case.get("seq"), case.get("schema"), case["n"], case["ops"]))


def classify(case, outs):
    yield "lazy" if case["lazy"] else ("eager-tuple" if case.get("seq") == "tuple" else "eager")
    if case.get("schema") == "relation":
        yield "relation-schema"
    yield "rows=%d" % min(case["n"], 4) + ("+" if case["n"] > 4 else "")
    yield "depth=%d" % min(len(case["ops"]), 8) + ("+" if len(case["ops"]) > 8 else "")
    seen_fail = False
    for op, o in zip(case["ops"], outs):
        yield "op:" + op[0]
        if op[0] == "append_bad":
            yield "bad:" + op[1]
        if o[0] == "append" and not o[1]:
            seen_fail = True
        elif seen_fail and op[0] in ("fetchone", "fetchmany", "fetchall"):
            yield "fetch-after-failed-append"
            if (o[0] == "row" and o[1] is not None) or (o[0] == "rows" and o[1]):
                yield "fetch-after-failed-append-delivered"
    if any(o[0] == "raise" for o in outs):
        yield "some-call-raised"


def _alphabet(n, obs_cycle, bad_cycle):
    return [
        ["fetchone"], ["fetchmany", 0], ["fetchmany", 1], ["fetchmany", 2], ["fetchmany", n + 1],
        ["fetchmany", None], ["fetchall"], ["arraysize", 1], ["obs", next(obs_cycle)],
        ["obs", "column_names"], ["append"], ["append_bad", next(bad_cycle)],
    ]


def _is_append(o):
    return o[0] in ("append", "append_bad")


def corpus():
    """The exception path of append at every cursor position: k fetches, an append that raises (every kind,
    the 16Mb one included), then one fetch of each sort (and the same with a stored append after it)."""
    for schema in ("names", "relation"):
        for kind in BAD_KINDS[schema]:
            for pre in range(0, 5):
                for tail in ([], [["append"], ["fetchone"]]):
                    c = {"lazy": False, "n": 3,
                         "ops": [["fetchone"]] * pre + [["append_bad", kind], ["fetchone"], ["fetchmany", 5], ["fetchall"]] + tail}
                    if kind == "oversize" and (tail or pre not in (0, 2)):
                        continue
                    if schema == "relation":
                        c["schema"] = "relation"
                    yield c


def exhaustive(tier):
    depth = 3 if tier == "quick" else 4
    rdepth = 2 if tier == "quick" else 3

    def it():
        cyc = itertools.cycle(MAT_OBS)
        bad = itertools.cycle(CHEAP_BAD["names"])
        for n in range(0, 4):
            for d in range(0, depth + 1):
                alpha = _alphabet(n, cyc, bad)
                for hist in itertools.product(alpha, repeat=d):
                    yield {"lazy": False, "n": n, "ops": [list(o) for o in hist]}

        # the same histories without append calls on tuple-backed frames (depth <= 2)
        for n in range(0, 4):
            for d in range(0, 3):
                alpha = [o for o in _alphabet(n, cyc, bad) if not _is_append(o)]
                for hist in itertools.product(alpha, repeat=d):
                    yield {"lazy": False, "seq": "tuple", "n": n, "ops": [list(o) for o in hist]}

        # frames over a RelationSchema (append validates first, entries are dicts)
        rbad = itertools.cycle(CHEAP_BAD["relation"])
        for n in range(0, 4):
            for d in range(1, rdepth + 1):
                alpha = _alphabet(n, cyc, rbad)
                for hist in itertools.product(alpha, repeat=d):
                    yield {"lazy": False, "schema": "relation", "n": n, "ops": [list(o) for o in hist]}

    return it(), (f"all eager histories of depth <= {depth} over the 12-letter alphabet (fetches, arraysize, observers, append, failing append) "
                  f"on frames of 0..3 rows (list-backed; tuple-backed without append calls to depth 2; RelationSchema-backed to depth {rdepth})")


def _random_case(rng, lazy, schema="names"):
    n = rng.choice([0, 1, 2, 3, 5, 8, 12])
    ops = []
    for _ in range(rng.randint(1, 14)):
        r = rng.random()
        if r < 0.25:
            ops.append(["fetchone"])
        elif r < 0.5:
            ops.append(["fetchmany", rng.choice([None, 0, 1, 2, 3, n, n + 1, -1])])
        elif r < 0.6:
            ops.append(["fetchall"])
        elif r < 0.68:
            ops.append(["arraysize", rng.choice([0, 1, 2, 3, 7, 100])])
        elif r < 0.87:
            ops.append(["obs", rng.choice(PURE_OBS if lazy else PURE_OBS + MAT_OBS)])
        elif r < 0.94:
            ops.append(["append_bad", rng.choice(CHEAP_BAD[schema])])
        elif not lazy or r < 0.96:
            ops.append(["append"])
    c = {"lazy": lazy, "n": n, "ops": ops}
    if schema == "relation":
        c["schema"] = "relation"
    return c


def _failed_append_case(rng):
    """aimed at the exception path of append: some fetches, an append that raises, then fetches again"""
    schema = rng.choice(["names", "names", "relation"])
    n = rng.choice([0, 1, 2, 3, 5, 8])

    def fetches(lo, hi):
        out = []
        for _ in range(rng.randint(lo, hi)):
            r = rng.random()
            if r < 0.5:
                out.append(["fetchone"])
            elif r < 0.8:
                out.append(["fetchmany", rng.choice([None, 0, 1, 2, n + 1])])
            elif r < 0.9:
                out.append(["fetchall"])
            else:
                out.append(["obs", rng.choice(PURE_OBS + MAT_OBS)])
        return out

    kinds = BAD_KINDS[schema] if rng.random() < 0.03 else CHEAP_BAD[schema]
    ops = fetches(0, n + 1) + [["append_bad", rng.choice(kinds)]] + fetches(1, 4)
    if rng.random() < 0.4:
        ops += [["append_bad", rng.choice(CHEAP_BAD[schema])]] + fetches(0, 3)
    if rng.random() < 0.3:
        ops += [["append"]] + fetches(1, 2)
    c = {"lazy": False, "n": n, "ops": ops}
    if schema == "relation":
        c["schema"] = "relation"
    return c


def _tuple_case(rng):
    c = _random_case(rng, lazy=False)
    c["ops"] = [o for o in c["ops"] if not _is_append(o)]
    c["seq"] = "tuple"
    return c


def generate(rng, tier):
    count = 720 if tier == "quick" else 14400
    for i in range(count):
        if i % 6 == 5:
            yield _failed_append_case(rng)
        elif i % 6 == 4:
            yield _tuple_case(rng)
        elif i % 6 == 2:
            yield _random_case(rng, lazy=False, schema="relation")
        else:
            yield _random_case(rng, lazy=(i % 3 == 0))


def search(rng):
    while True:
        r = rng.random()
        if r < 0.3:
            yield _random_case(rng, lazy=True)
        elif r < 0.5:
            yield _failed_append_case(rng)
        else:
            yield _random_case(rng, lazy=False, schema=rng.choice(["names", "names", "relation"]))


def shrink(case):
    ops = case["ops"]
    for i in range(len(ops)):
        yield dict(case, ops=ops[:i] + ops[i + 1:])
    if case["n"] > 0:
        yield dict(case, n=case["n"] - 1)
