"""C06 - Type names resolve to exactly the type they denote.

Case:      {"s": "<type name candidate>"}            (any Python str)
Observed:  {"upper": str.upper(s),
            "ext":   [[code point, digit value|None, is \\w, is \\s], ...]  for the non-ASCII characters of upper,
            "rx":    [groups|None x 4]  re.match of the four regular expressions read from _parse_type, on upper,
            "name":  ["ok", ty, length, precision, scale, element] | ["raise", class]      OrsoTypes.from_name(s)
            "col":   ["raise", class] | ["ok", ty, length, precision, scale, element, type_code, dprec, dscale, back]
                     FlatColumn(name="c", type=s) attributes, DataFrame.description of a frame with that column,
                     and back = from_name(type_code) in the "name" format}
ty = ["member", NAME] | ["zero"] | ["other", repr]

Round 2, second case shape (stream "frame"): a whole frame of declared columns
Case:      {"frame": [[column name, type name candidate], ...]}
Observed:  {"cols":  [{"n": column name, "s": type name, "upper", "ext", "name": from_name(s) as above,
                       "col": ["raise", class] | ["ok", ty, length, precision, scale, element]}, ...]
                     FlatColumn(name=n, type=s) for every entry; attributes are read AFTER the frame was described,
            "calls": [["raise", what] | [[name, type_code, dprec, dscale, back], ...], ...]
                     DataFrame(rows=[], schema=RelationSchema(columns=<those that did not raise>)).description,
                     called twice on the same frame; back = from_name(type_code)}

Round 3, third case shape (stream "session"): operations on ONE RelationSchema object
Case:      {"session": {"cols": [[column name, type name], ...],
                        "ops":  [["describe", f] | ["replace", i, name, type] | ["append", name, type] | ["pop", name] | ["retype", i, type], ...]}}
           describe f: frames[f].description, frame f = DataFrame(rows=[], schema=<the schema object>) created at first use and kept;
           replace: schema.columns[i % len] = FlatColumn(name, type); append: schema.columns.append(FlatColumn(...)); pop: schema.pop_column(name);
           retype: type/length/precision/scale/element_type of the column OBJECT schema.columns[i % len] assigned from from_name(type)
           (round 6) ["describe_copy", how]: DataFrame(rows=[], schema=<copy of the schema>).description; ["copy_column", i, how]: schema.columns[i % len] =
           <copy of that column>; how = "copy" | "deepcopy" | "pickle"
Observed:  {"cols": as for frames (attributes read right after construction),
            "steps": [{"now": [[name, ty, length, precision, scale, element], ...] (the schema's column objects read at this step),
                       "desc": ["raise", what] | [[name, type_code, dprec, dscale, back], ...]}          for describe
                      | {"decl": {"n","s","upper","ext","name","col"}}                                    for replace / append
                      | {"found": bool}                                                                   for pop
                      | {"res": {"n": "", "s","upper","ext","name"}}                                      for retype],
            "final": [[name, ty, length, precision, scale, element], ...]}

Round 4, fourth case shape (stream "decl"): the constructor's own keywords next to the type name
Case:      {"decl": {"s": type name, "route": "ctor" | "document",
                     "kw": {"length" | "precision" | "scale": ["none"] | ["val", int],  "element_type": ["none"] | ["member", NAME] | ["name", type name]}}}
           a keyword that is absent from "kw" is not passed at all; route "document" = RelationSchema.from_dict on a schema document that
           also spells out every other FlatColumn field with its default
Observed:  {"s", "upper", "ext", "name": from_name(s), "elt": None | {"s", "upper", "ext", "name"} (element_type given as a name),
            "col": as in the first shape}
"""
import ast
import os
import re
import warnings

from vlib import coqlit as L

ID = "C06"
READY = True
TECHNIQUE = ("Coq proof over an executable model of _parse_type / OrsoTypes.from_name / FlatColumn / description type codes "
             "(recognisers with re.match semantics, decision tree and limits regenerated from the live module and its AST) "
             "+ model/implementation correspondence evaluated in Coq, exhaustive over the finite core")
LEVEL_TEXT = ("Machine-checked Coq theorems over the executable model: every well-formed type name in every letter-case variant resolves to "
              "exactly its description; for every string, every upper-casing function and every interpretation of the non-ASCII character "
              "classes the result is a well-formed description or ValueError; every DECIMAL(p,s) outside 0<=s<=p<=38 and every ARRAY<...> whose "
              "bracket content is not a plain, non-blacklisted member name is rejected; the description type code resolves back to the column's type "
              "with the rendered parameters. Tables (members, aliases, blacklist, bounds, regex texts) are regenerated from /repo on every run. "
              "The model is tied to the code by evaluating it inside Coq on every string the implementation ran on: exhaustively all names and aliases "
              "in five case patterns, DECIMAL(p,s) over 0..45 x 0..45, VARCHAR[n]/BLOB[n] for n in 0..300 plus boundary widths, ARRAY<T> over every name and alias, "
              "every ASCII character in each character-class position, plus random mutations, truncations and Unicode noise. "
              "Whole frames (stream 'frame'): DataFrame.description is modelled as the loop over the schema with lookup by column name; proved: with distinct "
              "column names every entry is a function of its own column alone and its type code resolves back, whatever the other columns are; tied to the code on "
              "every ordered pair of 38 declared names, triples of same-base-type spellings, wide frames and random frames (description called twice per frame). "
              "Sessions (stream 'session'): one mutable schema object with the process-wide column_names cache as explicit state; operations describe-through-frame-f / "
              "re-declare at an index / append / pop / assign attributes in place; proved: through a frame the cache does not remember, and through the cached frame "
              "after in-place re-declarations, .description answers the schema as it is now, after any history; tied to the code on every ordered (old, new) pair of 10 "
              "declarations x 5 re-declaration routes plus random sessions. "
              "Constructor keywords (stream 'decl'): FlatColumn(type=<name>, length/precision/scale/element_type omitted | None | value) by keyword and through a spelled-out "
              "schema document; proved: any mixture of omitted and None keywords is the type name alone (so the end-to-end column theorem holds for it), a passed value is what "
              "the column carries; tied to the code on 12 names x all 16 None-subsets, value patterns and random declarations. Malformed names now include formatter / template "
              "tokens (balanced braces, %, $, backslash escapes, regex groups, NUL, quotes) in every position class, and names at scale (nesting / repetition depths 2..5000, "
              "around and far beyond the interpreter's recursion limit). Sessions also describe through copy.copy / copy.deepcopy / pickle copies of the schema and replace columns by "
              "copies of themselves (proved: a describe through a copy is the current view and leaves the schema alone).")
LEVEL_NOTE = ("Trusted: Coq kernel + vm_compute; the hand-written recognisers (validated against CPython's re on the extracted regex texts by the correspondence, "
              "not derived from the regex text); the AST reader in gen(); CPython str.upper / re character classes / int() on non-ASCII characters enter the "
              "correspondence as per-case oracle inputs (the model is evaluated with the interpreter's upper-cased string and the \\d/\\w/\\s membership and digit "
              "value of each non-ASCII character of it) and the totality theorem quantifies over all such inputs. int()'s 4300-digit limit is modelled (read from sys). "
              "No axioms (Print Assumptions: closed).")
DESIGN_REF = "DESIGN.md section 8, C06"
COQ_IMPORTS = "From Orso Require Import Base.C06_Defs Model.C06."
COQ_CHECKS = {"name": "c06_check", "frame": "c06_frame_check", "session": "c06_session_check", "decl": "c06_decl_check"}
COQ_SHOW = {"name": "c06_show", "frame": "c06_frame_show", "session": "c06_session_show", "decl": "c06_decl_show"}
RULE = ("strings handed to OrsoTypes.from_name, FlatColumn(type=...) and DataFrame.description; exhaustive: every member name and alias in upper, lower, "
        "capitalised and both alternating case patterns, DECIMAL(p,s) for (p,s) in 0..45 x 0..45, VARCHAR[n] and BLOB[n] for n in 0..300 and boundary widths "
        "(powers of two and ten, 4299/4300/4301-digit runs), ARRAY<T> for every name and alias T, every ASCII character in a digit / space / element position; "
        "random: character mutations, truncations, case flips, spacing, leading zeros, trailing garbage, nesting and Unicode noise on valid names; "
        "a case is non-trivial when its upper-cased text starts with a type name or alias; distinct by the string; "
        "frames: lists of (column name, type name) - exhaustive: every ordered pair of all member names, aliases and 21 parameterised / bare / rejected spellings, "
        "every ordered triple of 8 distinct DECIMAL / ARRAY spellings, the whole set in one frame in 3 orders, the empty frame, column-name schemes (case-only differences, "
        "type names as column names, repeated names); random: 1-9 columns, one or two base types repeated with fresh parameters, re-cased, malformed and non-ASCII "
        "neighbours; a frame is non-trivial when at least two of its columns were constructed; distinct by the list; "
        "sessions: initial columns + operations (describe f, replace i, append, pop, retype i) on one RelationSchema object, frames kept between steps - exhaustive: every "
        "ordered pair (old, new) of 10 declarations x 5 routes, each described through the frame used before the change and one created after; random: 1-5 columns, 4-13 "
        "operations over a 6-name pool; a session is non-trivial when the schema was changed between two descriptions; "
        "declarations with keywords: type name + each of length / precision / scale / element_type omitted, None or a value (element type as member or as a name), by keyword "
        "or through RelationSchema.from_dict with every other field spelled out - exhaustive over 12 names x 16 None-subsets (+5 by document) + 13 value patterns + the name's "
        "own values; non-trivial when the name resolves and a keyword is passed; template tokens: 36 tokens x 10 placements, plus random insertions; "
        "names at scale: 12 depths (2..5000) x 19 shapes of nesting / repetition, also as element_type keyword, frame neighbour and re-declaration; sessions with "
        "describe_copy / copy_column steps (copy, deepcopy, pickle)")
TRUSTED = [
    "C06 model (coq/Model/C06.v): recognisers for the four regular expressions with prefix-match semantics (greedy runs; no backtracking is needed because each run is "
    "followed by a character outside its class), str.upper on ASCII, int() as positional decimal with CPython's digit-count limit, from_name's decision tree "
    "interpreted from regenerated rule tables, FlatColumn's parameter copy with the DECIMAL defaults, description's type-code rendering, "
    "description's loop over the schema with RelationSchema.find_column's first-match lookup by name (hand-written, not regenerated from the AST), "
    "the session state: list assignment / append / pop_column on schema.columns and the single-item column_names cache keyed by frame object (hand-written)",
    "FlatColumn.__init__'s handling of its own length / precision / scale / element_type keywords (hand-written: stored as passed, element type name resolved first, "
    "parsed parameters copied where the attribute is None, DECIMAL defaults last)",
    "gen(): reads OrsoTypes.__members__ from the imported module and the regex texts, the if/elif chain of from_name, the startswith tuple and the DECIMAL guards from "
    "the AST of orso/types.py; refuses any shape it does not recognise; asserts the regex texts are the four the recognisers were written for",
    "modelled, not verified: CPython re / str.upper / int; for non-ASCII input their behaviour is supplied per case by the running interpreter",
]
ASSUMPTIONS = [
    "inputs are Python str objects (from_name(None) and non-str names are outside the property)",
    "VARCHAR[n]/BLOB[n] round trip is stated for n whose decimal rendering has at most sys.get_int_max_str_digits() = 4300 digits (longer runs are rejected with ValueError by int())",
    "type-code round trip is stated for types whose enum value equals their name (all but the placeholder _MISSING_TYPE, value '0', cf. F-C16-4b)",
    "frames: the per-column statements are for frames whose column names are distinct (DataFrame.description looks columns up by name; under a repeated name it "
    "reports the first column of that name for each of them - modelled and compared, C06_description_first_match, but not demanded by the oracle)",
    "sessions: 'depends only on the current schema' is stated for a frame object the process-wide DataFrame.column_names cache does not remember, or remembers with "
    "the schema's current list of names (not_cached / cached_current); a frame object described again after the list of NAMES changed answers with the old names in "
    "the implementation (missing column, or AttributeError) - modelled and compared exactly (C06_nonvacuous_sessions), not demanded by the oracle",
    "constructor keywords are None, omitted, non-negative ints (<= 10^6 for precision, where int(0.75*p) = 3p/4 exactly) or, for element_type, an OrsoTypes member or a str; "
    "an element_type NAME that resolves to the integer 0 (VARIANT / MISSING / '0') is outside the model (element_type becomes 0 and DataFrame.description raises AttributeError)",
]
KNOWN_WITNESSES = {}

EXPECTED_RX = [
    ("ARRAY", r"ARRAY<([\w\s\[\]\(\)]+)>"),
    ("DECIMAL", r"DECIMAL\((\d+),\s*(\d+)\)"),
    ("VARCHAR", r"VARCHAR\[(\d+)\]"),
    ("BLOB", r"BLOB\[(\d+)\]"),
]
REPO = os.environ.get("ORSO_REPO", "/repo")


# ------------------------------------------------------------------------------------------
# S1: tables regenerated from the live module and the AST of orso/types.py (fail closed)
# ------------------------------------------------------------------------------------------
class GenError(Exception):
    pass


def _need(cond, msg):
    if not cond:
        raise GenError("orso/types.py: " + msg)


def _is_name(node, ident=None):
    return isinstance(node, ast.Name) and (ident is None or node.id == ident)


def _orso_attr(node):
    """OrsoTypes.X -> 'X' else None"""
    if isinstance(node, ast.Attribute) and _is_name(node.value, "OrsoTypes"):
        return node.attr
    return None


def _raise_class(stmt):
    _need(isinstance(stmt, ast.Raise) and stmt.exc is not None, "expected a raise statement")
    exc = stmt.exc
    if isinstance(exc, ast.Call):
        exc = exc.func
    _need(isinstance(exc, ast.Name), "raise of something that is not a plain exception class")
    return "ValueError" if exc.id == "ValueError" else "OtherExn"


def _is_warn(stmt):
    return isinstance(stmt, ast.Expr) and isinstance(stmt.value, ast.Call) and _is_name(stmt.value.func, "warn")


def _extract_parse_type(tree):
    fns = [n for n in tree.body if isinstance(n, ast.FunctionDef) and n.name == "_parse_type"]
    _need(len(fns) == 1, "module-level _parse_type not found")
    fn = fns[0]
    _need(len(fn.args.args) == 1, "_parse_type must take one argument")
    arg = fn.args.args[0].arg
    calls = [n for n in ast.walk(fn) if isinstance(n, ast.Call) and isinstance(n.func, ast.Attribute) and _is_name(n.func.value, "re")]
    calls.sort(key=lambda n: (n.lineno, n.col_offset))
    _need(len(calls) == 4, "expected exactly four re.* calls in _parse_type, found %d" % len(calls))
    texts = []
    for c in calls:
        _need(c.func.attr == "match", "regular expression applied with re.%s, the recognisers model re.match" % c.func.attr)
        _need(len(c.args) == 2 and not c.keywords and isinstance(c.args[0], ast.Constant) and isinstance(c.args[0].value, str)
              and _is_name(c.args[1], arg), "re.match call is not re.match(<literal>, %s)" % arg)
        texts.append(c.args[0].value)
    # the tag returned with each match, in order
    tags = []
    for st in fn.body:
        if isinstance(st, ast.If):
            rets = [x for x in st.body if isinstance(x, ast.Return)]
            _need(len(rets) == 1 and isinstance(rets[0].value, ast.Tuple) and isinstance(rets[0].value.elts[0], ast.Constant),
                  "a match branch of _parse_type does not return (<tag>, params)")
            tags.append(rets[0].value.elts[0].value)
    _need(tags == [t for t, _ in EXPECTED_RX], "match branches return tags %r" % (tags,))
    last = fn.body[-1]
    ok = (isinstance(last, ast.Return) and isinstance(last.value, ast.Call) and isinstance(last.value.func, ast.Attribute)
          and last.value.func.attr == "upper" and _is_name(last.value.func.value, arg) and not last.value.args)
    _need(ok, "_parse_type does not end with `return <arg>.upper()`")
    for (tag, want), got in zip(EXPECTED_RX, texts):
        _need(got == want, "regular expression for %s is %r; the recognisers in coq/Model/C06.v were written for %r" % (tag, got, want))
    return texts


def _extract_from_name(tree):
    cls = [n for n in tree.body if isinstance(n, ast.ClassDef) and n.name == "OrsoTypes"]
    _need(len(cls) == 1, "class OrsoTypes not found")
    fns = [n for n in cls[0].body if isinstance(n, ast.FunctionDef) and n.name == "from_name"]
    _need(len(fns) == 1, "OrsoTypes.from_name not found")
    fn = fns[0]
    _need(len(fn.args.args) == 1, "from_name must take one argument")
    arg = fn.args.args[0].arg
    ret = fn.body[-1]
    _need(isinstance(ret, ast.Return) and isinstance(ret.value, ast.Tuple) and len(ret.value.elts) == 5
          and all(_is_name(e) for e in ret.value.elts), "from_name does not end with `return (type, length, precision, scale, element_type)`")
    T, Ln, Pp, Sc, E = [e.id for e in ret.value.elts]
    TN = P = None
    chain = None
    for st in fn.body:
        if isinstance(st, ast.Assign) and len(st.targets) == 1 and _is_name(st.targets[0]):
            v = st.value
            if (isinstance(v, ast.Call) and isinstance(v.func, ast.Attribute) and v.func.attr == "upper" and not v.args
                    and isinstance(v.func.value, ast.Call) and _is_name(v.func.value.func, "str")
                    and len(v.func.value.args) == 1 and _is_name(v.func.value.args[0], arg)):
                TN = st.targets[0].id
            elif isinstance(v, ast.Call) and _is_name(v.func, "_parse_type"):
                _need(TN is not None and len(v.args) == 1 and _is_name(v.args[0], TN), "_parse_type is not called on str(name).upper()")
                P = st.targets[0].id
        if isinstance(st, ast.If) and isinstance(st.test, ast.Call) and _is_name(st.test.func, "isinstance"):
            a = st.test.args
            if len(a) == 2 and _is_name(a[0]) and _is_name(a[1], "str"):
                _need(P is not None and a[0].id == P, "isinstance test is not on the _parse_type result")
                chain = st
    _need(TN and P and chain is not None, "from_name: str(name).upper() / _parse_type call / isinstance(..., str) dispatch not found")

    def var(node):
        _need(_is_name(node) and node.id in (P, TN), "test on an unexpected variable")
        return "VParsed" if node.id == P else "VTypeName"

    def tests(t):
        if isinstance(t, ast.BoolOp):
            _need(isinstance(t.op, ast.Or), "only `or` is understood in the name tests")
            out = []
            for v in t.values:
                out.extend(tests(v))
            return out
        _need(isinstance(t, ast.Compare) and len(t.ops) == 1, "unrecognised test in the name chain")
        op, rhs = t.ops[0], t.comparators[0]
        if isinstance(op, ast.Eq) and isinstance(rhs, ast.Constant):
            if isinstance(rhs.value, str):
                return [("TEq", var(t.left), rhs.value)]
            _need(isinstance(rhs.value, int) and not isinstance(rhs.value, bool), "comparison with an unexpected constant")
            var(t.left)
            return []  # a str never equals an int
        if isinstance(op, ast.In) and isinstance(rhs, ast.Attribute) and rhs.attr == "__members__" and _is_name(rhs.value, "OrsoTypes"):
            return [("TMember", var(t.left))]
        _need(False, "unrecognised test in the name chain")

    def action(body):
        ty = elt = None
        act = None
        for st in body:
            if _is_warn(st):
                continue
            if isinstance(st, ast.Raise):
                _need(act is None and ty is None, "raise after an assignment")
                return ("ARaise", _raise_class(st))
            _need(isinstance(st, ast.Assign) and len(st.targets) == 1 and _is_name(st.targets[0]), "unrecognised statement in a name branch")
            tgt, v = st.targets[0].id, st.value
            if tgt == T:
                if _orso_attr(v):
                    ty = _orso_attr(v)
                elif isinstance(v, ast.Subscript) and _is_name(v.value, "OrsoTypes"):
                    act = ("AMember", var(v.slice))
                elif isinstance(v, ast.Constant) and v.value == 0 and not isinstance(v.value, bool):
                    act = ("AZero",)
                else:
                    _need(False, "unrecognised value assigned to the type")
            elif tgt == E:
                _need(_orso_attr(v) is not None, "unrecognised value assigned to the element type")
                elt = _orso_attr(v)
            else:
                _need(False, "assignment to an unexpected variable in a name branch")
        if act is not None:
            _need(ty is None and elt is None, "mixed assignments in a name branch")
            return act
        _need(ty is not None, "name branch assigns no type")
        return ("ASet", ty, elt)

    # --- the str branch: one if/elif chain, else = default
    _need(len(chain.body) == 1 and isinstance(chain.body[0], ast.If), "str branch is not a single if/elif chain")
    rules = []
    node = chain.body[0]
    while True:
        rules.append((tests(node.test), action(node.body)))
        if len(node.orelse) == 1 and isinstance(node.orelse[0], ast.If):
            node = node.orelse[0]
        else:
            _need(node.orelse, "name chain has no else branch")
            default = action(node.orelse)
            break

    # --- the tuple branches
    def tag_of(t):
        ok = (isinstance(t, ast.Compare) and len(t.ops) == 1 and isinstance(t.ops[0], ast.Eq)
              and isinstance(t.left, ast.Subscript) and _is_name(t.left.value, P)
              and isinstance(t.left.slice, ast.Constant) and t.left.slice.value == 0
              and isinstance(t.comparators[0], ast.Constant) and isinstance(t.comparators[0].value, str))
        _need(ok, "tuple branch test is not `parsed[0] == <tag>`")
        return t.comparators[0].value

    def is_param0(v):  # P[1][0]
        return (isinstance(v, ast.Subscript) and isinstance(v.slice, ast.Constant) and v.slice.value == 0
                and isinstance(v.value, ast.Subscript) and _is_name(v.value.value, P)
                and isinstance(v.value.slice, ast.Constant) and v.value.slice.value == 1)

    def assign(st, target):
        return isinstance(st, ast.Assign) and len(st.targets) == 1 and _is_name(st.targets[0], target)

    branches = {}
    _need(len(chain.orelse) == 1 and isinstance(chain.orelse[0], ast.If), "tuple branches are not an elif chain")
    node = chain.orelse[0]
    order = []
    while True:
        tag = tag_of(node.test)
        order.append(tag)
        branches[tag] = node.body
        if len(node.orelse) == 1 and isinstance(node.orelse[0], ast.If):
            node = node.orelse[0]
        else:
            _need(len(node.orelse) == 1, "tuple chain has no single-statement else branch")
            _raise_class(node.orelse[0])  # unreachable: _parse_type returns one of the four tags
            break
    _need(order == ["ARRAY", "DECIMAL", "VARCHAR", "BLOB"], "tuple branches are %r" % (order,))

    # ARRAY<...>
    b = branches["ARRAY"]
    _need(len(b) == 4 and assign(b[0], T) and _orso_attr(b[0].value) == "ARRAY" and assign(b[1], E) and is_param0(b[1].value),
          "ARRAY branch: unexpected prologue")
    bl, mb = b[2], b[3]
    ok = (isinstance(bl, ast.If) and isinstance(bl.test, ast.Call) and isinstance(bl.test.func, ast.Attribute)
          and bl.test.func.attr == "startswith" and _is_name(bl.test.func.value, E) and len(bl.test.args) == 1
          and isinstance(bl.test.args[0], ast.Tuple) and all(isinstance(x, ast.Constant) and isinstance(x.value, str) for x in bl.test.args[0].elts)
          and len(bl.body) == 1 and not bl.orelse)
    _need(ok, "ARRAY branch: startswith blacklist not recognised")
    blacklist = [x.value for x in bl.test.args[0].elts]
    bl_exn = _raise_class(bl.body[0])
    ok = (isinstance(mb, ast.If) and isinstance(mb.test, ast.Compare) and len(mb.test.ops) == 1 and isinstance(mb.test.ops[0], ast.In)
          and _is_name(mb.test.left, E) and isinstance(mb.test.comparators[0], ast.Attribute) and mb.test.comparators[0].attr == "__members__"
          and _is_name(mb.test.comparators[0].value, "OrsoTypes") and len(mb.orelse) == 1)
    _need(ok, "ARRAY branch: membership test not recognised")
    sets = [st for st in mb.body if not _is_warn(st)]
    ok = all(isinstance(st, ast.Assign) for st in sets) and any(
        assign(st, E) and isinstance(st.value, ast.Subscript) and _is_name(st.value.value, "OrsoTypes") and _is_name(st.value.slice, E) for st in sets)
    ok = ok and all((assign(st, T) and _orso_attr(st.value) == "ARRAY") or assign(st, E) for st in sets)
    _need(ok, "ARRAY branch: element type is not looked up with OrsoTypes[element]")
    unk_exn = _raise_class(mb.orelse[0])

    # DECIMAL(p,s)
    b = branches["DECIMAL"]
    _need(len(b) >= 2 and assign(b[0], T) and _orso_attr(b[0].value) == "DECIMAL", "DECIMAL branch: type assignment not recognised")
    u = b[1]
    ok = (isinstance(u, ast.Assign) and len(u.targets) == 1 and isinstance(u.targets[0], ast.Tuple)
          and [getattr(x, "id", None) for x in u.targets[0].elts] == [Pp, Sc]
          and isinstance(u.value, ast.Subscript) and _is_name(u.value.value, P)
          and isinstance(u.value.slice, ast.Constant) and u.value.slice.value == 1)
    _need(ok, "DECIMAL branch: `precision, scale = parsed[1]` not recognised")

    def term(n):
        if _is_name(n, Pp):
            return ("DPrec",)
        if _is_name(n, Sc):
            return ("DScale",)
        if isinstance(n, ast.Constant) and isinstance(n.value, int) and not isinstance(n.value, bool):
            return ("DConst", n.value)
        if isinstance(n, ast.UnaryOp) and isinstance(n.op, ast.USub) and isinstance(n.operand, ast.Constant) and isinstance(n.operand.value, int):
            return ("DConst", -n.operand.value)
        _need(False, "DECIMAL guard: unexpected operand")

    OPS = {ast.Lt: "OLt", ast.Gt: "OGt", ast.LtE: "OLe", ast.GtE: "OGe", ast.Eq: "OEq", ast.NotEq: "ONe"}

    def cmps(t):
        if isinstance(t, ast.BoolOp):
            _need(isinstance(t.op, ast.Or), "DECIMAL guard: only `or` is understood")
            out = []
            for v in t.values:
                out.extend(cmps(v))
            return out
        _need(isinstance(t, ast.Compare) and len(t.ops) == 1 and type(t.ops[0]) in OPS, "DECIMAL guard: unrecognised comparison")
        return [(term(t.left), OPS[type(t.ops[0])], term(t.comparators[0]))]

    guards = []
    for st in b[2:]:
        _need(isinstance(st, ast.If) and len(st.body) == 1 and not st.orelse, "DECIMAL branch: statement that is not `if <cond>: raise`")
        guards.append((cmps(st.test), _raise_class(st.body[0])))

    # VARCHAR[n] / BLOB[n]
    for tag in ("VARCHAR", "BLOB"):
        b = branches[tag]
        _need(len(b) == 2 and assign(b[0], T) and _orso_attr(b[0].value) == tag and assign(b[1], Ln) and is_param0(b[1].value),
              "%s branch: expected `type = OrsoTypes.%s; length = parsed[1][0]`" % (tag, tag))
    return {"rules": rules, "default": default, "blacklist": blacklist, "bl_exn": bl_exn, "unk_exn": unk_exn, "guards": guards}


def _load_source_facts(repo):
    path = os.path.join(repo, "orso", "types.py")
    tree = ast.parse(open(path, encoding="utf-8").read())
    facts = _extract_from_name(tree)
    facts["rx"] = _extract_parse_type(tree)
    return facts


def _live_members(repo):
    import orso.types as T

    here = os.path.realpath(os.path.dirname(os.path.dirname(T.__file__)))
    if here != os.path.realpath(repo):
        raise GenError("imported orso from %s, not from the tree under examination %s" % (here, repo))
    out = []
    for name, m in T.OrsoTypes.__members__.items():
        if not (isinstance(name, str) and isinstance(m.value, str) and name.isascii() and m.value.isascii() and m.value):
            raise GenError("enum member %r has an unexpected shape" % (name,))
        if m.name != name:
            raise GenError("enum alias %r -> %r: aliases are not modelled" % (name, m.name))
        out.append((name, m.value))
    return out


def _c_str(s):
    return L.text(s)


def _c_cmt(s):
    safe = "".join(ch if (32 <= ord(ch) < 127 and ch != '"') else "?" for ch in s)
    while "(*" in safe or "*)" in safe:
        safe = safe.replace("(*", "( *").replace("*)", "* )")
    return "(* " + safe + " *)"


def gen(repo):
    import decimal
    import sys

    facts = _load_source_facts(repo)
    members = _live_members(repo)
    names = [n for n, _ in members]
    for need in ("ARRAY", "DECIMAL", "VARCHAR", "BLOB", "_MISSING_TYPE"):
        if need not in names:
            raise GenError("OrsoTypes.%s is missing" % need)
    for ts, act in facts["rules"] + [([], facts["default"])]:
        if act[0] == "ASet":
            if act[1] not in names or (act[2] is not None and act[2] not in names):
                raise GenError("from_name assigns a type that is not an enum member: %r" % (act,))
    hdr = ("(* GENERATED by tools/props/C06.py gen() from %s - do not edit. *)\n"
           "From Coq Require Import List NArith ZArith.\nFrom Orso Require Import Base.C06_Defs.\nImport ListNotations.\n\n")

    t = hdr % "OrsoTypes.__members__ (imported module)"
    t += "(* (member name, member value) in definition order *)\nDefinition members : list (str * str) := [\n"
    t += ";\n".join("  (%s, %s)  %s" % (_c_str(n), _c_str(v), _c_cmt("%s = %s" % (n, v))) for n, v in members)
    t += "\n].\nDefinition member_names : list str := map fst members.\n"

    def c_opt(x):
        return "None" if x is None else "(Some %s)" % _c_str(x)

    def c_test(x):
        return "TEq %s %s" % (x[1], _c_str(x[2])) if x[0] == "TEq" else "TIn %s" % x[1]

    def c_act(a):
        if a[0] == "ASet":
            return "ASet %s %s" % (_c_str(a[1]), c_opt(a[2]))
        if a[0] == "AMember":
            return "AMember %s" % a[1]
        if a[0] == "AZero":
            return "AZero"
        return "ARaise %s" % a[1]

    def c_term(x):
        return x[0] if x[0] != "DConst" else "(DConst %s)" % L.Z(x[1])

    n = hdr % "the AST of orso/types.py (OrsoTypes.from_name)"
    n += "(* the if/elif chain taken when _parse_type returned a plain string, in source order *)\n"
    n += "Definition name_rules : list srule := [\n"
    n += ";\n".join("  (%s,\n   %s)  %s" % (L.lst(c_test(x) for x in ts), c_act(a),
                                             _c_cmt(" | ".join(x[2] if x[0] == "TEq" else "in __members__" for x in ts) + " -> " + " ".join(str(z) for z in a)))
                    for ts, a in facts["rules"])
    n += "\n].\nDefinition name_default : sact := %s.\n\n" % c_act(facts["default"])
    n += "(* ARRAY<T>: T.startswith(%s) -> raise; T not in __members__ -> raise *)\n" % "/".join(facts["blacklist"]).replace("*", "?").replace('"', "?")
    n += "Definition array_blacklist : list str := %s.\n" % L.lst(_c_str(x) for x in facts["blacklist"])
    n += "Definition array_blacklist_exn : exn := %s.\nDefinition array_unknown_exn : exn := %s.\n\n" % (facts["bl_exn"], facts["unk_exn"])
    n += "(* DECIMAL(p,s): each guard `if c1 or c2 ...: raise` in source order *)\nDefinition decimal_guards : list dguard := [\n"
    n += ";\n".join("  (%s, %s)" % (L.lst("(%s, %s, %s)" % (c_term(a), o, c_term(b)) for a, o, b in cs), e) for cs, e in facts["guards"])
    n += "\n].\n"

    r = hdr % "the AST of orso/types.py (_parse_type): the pattern literals handed to re.match, in source order"
    for (tag, _), text in zip(EXPECTED_RX, facts["rx"]):
        r += "Definition rx_%s : str := %s.  %s\n" % (tag.lower(), _c_str(text), _c_cmt(text))
    r += "Definition rx_method : str := %s.  (* re.match: anchored at the start, not at the end *)\n" % _c_str("match")

    digits = sys.get_int_max_str_digits()
    prec = decimal.getcontext().prec
    if not (isinstance(digits, int) and digits >= 640 and isinstance(prec, int) and 1 <= prec <= 10**6):
        raise GenError("unexpected interpreter limits %r %r" % (digits, prec))
    e = hdr % "the running interpreter (sys.get_int_max_str_digits(), decimal.getcontext().prec)"
    e += "Definition max_str_digits : N := %s.   (* int(str) raises ValueError above this many digits *)\n" % L.N(digits)
    e += "Definition default_prec : N := %s.      (* FlatColumn: precision of a DECIMAL column declared without one *)\n" % L.N(prec)
    return {"C06_Types": t, "C06_Names": n, "C06_Regex": r, "C06_Env": e}


# ------------------------------------------------------------------------------------------
# facts the harness needs (read once, from the tree under examination)
# ------------------------------------------------------------------------------------------
_FACTS = None


def _facts():
    global _FACTS
    if _FACTS is None:
        import sys

        f = {}
        try:
            src = _load_source_facts(REPO)
            f["rx"] = src["rx"]
            consts = []
            for ts, _ in src["rules"]:
                consts.extend(x[2] for x in ts if x[0] == "TEq")
            f["aliases"] = consts
        except Exception:  # gen() reports the shape problem; the harness carries on with what the recognisers model
            f["rx"] = [t for _, t in EXPECTED_RX]
            f["aliases"] = ["ARRAY", "LIST", "NUMERIC", "BSON", "STRING", "0", "VARIANT", "MISSING"]
        from orso.types import OrsoTypes

        f["members"] = list(OrsoTypes.__members__.keys())
        f["rxc"] = [re.compile(t) for t in f["rx"]]
        f["maxdigits"] = sys.get_int_max_str_digits()
        _FACTS = f
    return _FACTS


# ------------------------------------------------------------------------------------------
# observation
# ------------------------------------------------------------------------------------------
def _ty(x):
    from orso.types import OrsoTypes

    if isinstance(x, OrsoTypes):
        return ["member", x.name]
    if isinstance(x, int) and not isinstance(x, bool) and x == 0:
        return ["zero"]
    return ["other", repr(x)[:60]]


def _num(x):
    if x is None or (isinstance(x, int) and not isinstance(x, bool)):
        return x
    return ["other", repr(x)[:60]]


def _elt(x):
    from orso.types import OrsoTypes

    if x is None:
        return None
    if isinstance(x, OrsoTypes):
        return x.name
    return ["other", repr(x)[:60]]


def _resolve(s):
    from orso.types import OrsoTypes

    try:
        r = OrsoTypes.from_name(s)
    except Exception as e:
        return ["raise", type(e).__name__]
    if not (isinstance(r, tuple) and len(r) == 5):
        return ["ok", ["other", repr(r)[:60]], None, None, None, None]
    return ["ok", _ty(r[0]), _num(r[1]), _num(r[2]), _num(r[3]), _elt(r[4])]


def _ext_of(up):
    """[[code point, digit value|None, is \\w, is \\s], ...] for the non-ASCII characters of an upper-cased string"""
    ext = []
    for ch in sorted(set(c for c in up if ord(c) >= 128)):
        isd = re.fullmatch(r"\d", ch) is not None
        dv = None
        if isd:
            try:
                dv = int(ch)
            except ValueError:
                dv = -1
        ext.append([ord(ch), dv, re.fullmatch(r"\w", ch) is not None, re.fullmatch(r"\s", ch) is not None])
    return ext


def _describe_entries(df):
    """df.description as [[name, type_code, dprec, dscale, from_name(type_code)], ...] or ["raise", what]"""
    try:
        d = df.description
        if not isinstance(d, (list, tuple)):
            raise TypeError("description is not a list")
        entries = []
        for row in d:
            if not (isinstance(row, tuple) and len(row) == 7):
                raise TypeError("description entry is not a 7-tuple")
            nm, code, dprec, dscale = row[0], row[1], row[4], row[5]
            back = _resolve(code) if isinstance(code, str) else ["raise", "not-a-string"]
            entries.append([nm if isinstance(nm, str) else ["other", repr(nm)[:60]],
                            code if isinstance(code, str) else ["other", repr(code)[:60]], _num(dprec), _num(dscale), back])
        return entries
    except Exception as e:
        return ["raise", "description:" + type(e).__name__]


def _attrs(col):
    return [_ty(col.type), _num(col.length), _num(col.precision), _num(col.scale), _elt(col.element_type)]


def _snapshot(schema):
    return [[c.name if isinstance(c.name, str) else ["other", repr(c.name)[:60]]] + _attrs(c) for c in schema.columns]


def _declare(n, s):
    """FlatColumn(name=n, type=s): (observation entry, column or None)"""
    from orso.schema import FlatColumn

    up = s.upper()
    entry = {"n": n, "s": s, "upper": up, "ext": _ext_of(up), "name": _resolve(s)}
    try:
        col = FlatColumn(name=n, type=s)
    except Exception as e:
        entry["col"] = ["raise", type(e).__name__]
        return entry, None
    entry["col"] = ["ok"] + _attrs(col)
    return entry, col


COPY_HOW = ["copy", "deepcopy", "pickle"]


def _copy_of(obj, how):
    import copy
    import pickle

    if how == "copy":
        return copy.copy(obj)
    if how == "deepcopy":
        return copy.deepcopy(obj)
    return pickle.loads(pickle.dumps(obj))


def _observe_session(case):
    """Operations on ONE RelationSchema object, .description through frames that are kept between steps."""
    from orso.dataframe import DataFrame
    from orso.schema import RelationSchema
    from orso.types import OrsoTypes

    sess = case["session"]
    with warnings.catch_warnings():
        warnings.simplefilter("ignore")
        cols, built = [], []
        for n, s in sess["cols"]:
            entry, col = _declare(n, s)
            cols.append(entry)
            if col is not None:
                built.append(col)
        schema = RelationSchema(name="t", columns=built)
        frames = {}
        steps = []
        for op in sess["ops"]:
            kind = op[0]
            if kind == "describe":
                f = op[1]
                if f not in frames:
                    frames[f] = DataFrame(rows=[], schema=schema)
                now = _snapshot(schema)
                steps.append({"now": now, "desc": _describe_entries(frames[f])})
            elif kind in ("replace", "append"):
                n, s = op[-2], op[-1]
                entry, col = _declare(n, s)
                if col is not None:
                    if kind == "append":
                        schema.columns.append(col)
                    elif schema.columns:
                        schema.columns[op[1] % len(schema.columns)] = col
                steps.append({"decl": entry})
            elif kind == "pop":
                steps.append({"found": schema.pop_column(op[1]) is not None})
            elif kind == "retype":
                s = op[2]
                up = s.upper()
                entry = {"n": "", "s": s, "upper": up, "ext": _ext_of(up)}
                try:
                    r = OrsoTypes.from_name(s)
                    if not (isinstance(r, tuple) and len(r) == 5):
                        raise TypeError("from_name did not return a 5-tuple")
                except Exception as e:
                    entry["name"] = ["raise", type(e).__name__]
                else:
                    entry["name"] = ["ok", _ty(r[0]), _num(r[1]), _num(r[2]), _num(r[3]), _elt(r[4])]
                    if schema.columns:
                        c = schema.columns[op[1] % len(schema.columns)]
                        c.type, c.length, c.precision, c.scale, c.element_type = r
                steps.append({"res": entry})
            elif kind == "describe_copy":
                now = _snapshot(schema)
                steps.append({"now": now, "desc": _describe_entries(DataFrame(rows=[], schema=_copy_of(schema, op[1])))})
            elif kind == "copy_column":
                if schema.columns:
                    i = op[1] % len(schema.columns)
                    schema.columns[i] = _copy_of(schema.columns[i], op[2])
                    c = schema.columns[i]
                    steps.append({"copied": [c.name if isinstance(c.name, str) else ["other", repr(c.name)[:60]]] + _attrs(c)})
                else:
                    steps.append({"copied": None})
            else:
                raise ValueError("unknown session operation %r" % (op,))
        final = _snapshot(schema)
    return {"cols": cols, "steps": steps, "final": final}


DOC_DEFAULTS = {"default": None, "description": None, "disposition": None, "aliases": [], "nullable": True, "expectations": [],
                "origin": [], "highest_value": None, "lowest_value": None, "null_count": None}


def _observe_decl(case):
    from orso.dataframe import DataFrame
    from orso.schema import FlatColumn, RelationSchema
    from orso.types import OrsoTypes

    d = case["decl"]
    s = d["s"]
    up = s.upper()
    obs = {"s": s, "upper": up, "ext": _ext_of(up), "elt": None}
    kwargs = {}
    for k, v in d["kw"].items():
        if v[0] == "none":
            kwargs[k] = None
        elif v[0] == "val":
            kwargs[k] = v[1]
        elif v[0] == "member":
            kwargs[k] = OrsoTypes[v[1]]
        else:
            kwargs[k] = v[1]
    with warnings.catch_warnings():
        warnings.simplefilter("ignore")
        obs["name"] = _resolve(s)
        e = d["kw"].get("element_type")
        if e is not None and e[0] == "name":
            eu = e[1].upper()
            obs["elt"] = {"s": e[1], "upper": eu, "ext": _ext_of(eu), "name": _resolve(e[1])}
        try:
            if d["route"] == "document":
                doc = {"name": "t", "columns": [dict(DOC_DEFAULTS, name="c", type=s, **{k: (list(v) if isinstance(v, list) else v) for k, v in kwargs.items()})]}
                col = RelationSchema.from_dict(doc).columns[0]
            else:
                col = FlatColumn(name="c", type=s, **kwargs)
        except Exception as ex:
            obs["col"] = ["raise", type(ex).__name__]
            return obs
        try:
            df = DataFrame(rows=[], schema=RelationSchema(name="t", columns=[col]))
            dd = df.description
            code, dprec, dscale = dd[0][1], dd[0][4], dd[0][5]
            back = _resolve(code) if isinstance(code, str) else ["raise", "not-a-string"]
            obs["col"] = ["ok"] + _attrs(col) + [code if isinstance(code, str) else ["other", repr(code)[:60]], _num(dprec), _num(dscale), back]
        except Exception as ex:
            obs["col"] = ["raise", "description:" + type(ex).__name__]
    return obs


def _observe_frame(case):
    """A whole frame: every declared column, then DataFrame.description of the frame built from the columns
    whose constructor did not raise - called twice on the same frame; column attributes are read afterwards."""
    from orso.dataframe import DataFrame
    from orso.schema import FlatColumn, RelationSchema

    cols = []
    built = []
    with warnings.catch_warnings():
        warnings.simplefilter("ignore")
        for n, s in case["frame"]:
            up = s.upper()
            entry = {"n": n, "s": s, "upper": up, "ext": _ext_of(up), "name": _resolve(s)}
            try:
                col = FlatColumn(name=n, type=s)
            except Exception as e:
                entry["col"] = ["raise", type(e).__name__]
            else:
                entry["col"] = None
                built.append((entry, col))
            cols.append(entry)
        calls = []
        try:
            df = DataFrame(rows=[], schema=RelationSchema(name="t", columns=[c for _, c in built]))
        except Exception as e:
            df = None
            calls = [["raise", "frame:" + type(e).__name__]] * 2
        if df is not None:
            for _ in range(2):
                calls.append(_describe_entries(df))
        for entry, col in built:
            entry["col"] = ["ok", _ty(col.type), _num(col.length), _num(col.precision), _num(col.scale), _elt(col.element_type)]
    return {"cols": cols, "calls": calls}


def observe(case):
    from orso.dataframe import DataFrame
    from orso.schema import FlatColumn, RelationSchema

    if "frame" in case:
        return _observe_frame(case)
    if "session" in case:
        return _observe_session(case)
    if "decl" in case:
        return _observe_decl(case)
    s = case["s"]
    F = _facts()
    with warnings.catch_warnings():
        warnings.simplefilter("ignore")
        up = s.upper()
        ext = _ext_of(up)
        rx = []
        for r in F["rxc"]:
            m = r.match(up)
            rx.append(None if m is None else list(m.groups()))
        name = _resolve(s)
        try:
            col = FlatColumn(name="c", type=s)
        except Exception as e:
            colobs = ["raise", type(e).__name__]
        else:
            try:
                df = DataFrame(rows=[], schema=RelationSchema(name="t", columns=[col]))
                d = df.description
                code, dprec, dscale = d[0][1], d[0][4], d[0][5]
                back = _resolve(code) if isinstance(code, str) else ["raise", "not-a-string"]
                colobs = ["ok", _ty(col.type), _num(col.length), _num(col.precision), _num(col.scale), _elt(col.element_type),
                          code if isinstance(code, str) else ["other", repr(code)[:60]], _num(dprec), _num(dscale), back]
            except Exception as e:
                colobs = ["raise", "description:" + type(e).__name__]
    return {"upper": up, "ext": ext, "rx": rx, "name": name, "col": colobs}


# ------------------------------------------------------------------------------------------
# the property, read literally (independent of the Coq model)
# ------------------------------------------------------------------------------------------
def _wf_result(r, members):
    """["ok", ty, len, prec, scale, elt] is a well-formed description?  -> None | reason"""
    _, ty, ln, pr, sc, el = r
    for v in (ln, pr, sc):
        if not (v is None or (isinstance(v, int) and v >= 0)):
            return "a parameter is neither None nor a non-negative integer"
    if ty == ["zero"]:
        return None if (ln, pr, sc, el) == (None, None, None, None) else "the untyped placeholder 0 carries parameters"
    if ty[0] != "member" or ty[1] not in members:
        return "the type is not an OrsoTypes member"
    t = ty[1]
    if t != "ARRAY" and el is not None:
        return "a non-ARRAY type carries an element type"
    if t not in ("VARCHAR", "BLOB") and ln is not None:
        return "a type other than VARCHAR/BLOB carries a length"
    if t != "DECIMAL" and (pr is not None or sc is not None):
        return "a type other than DECIMAL carries precision/scale"
    if t == "DECIMAL":
        if (pr is None) != (sc is None):
            return "DECIMAL with only one of precision/scale"
        if pr is not None and not (0 <= sc <= pr <= 38):
            return "DECIMAL parameters outside 0<=s<=p<=38"
    if t == "ARRAY" and el is not None:
        if not isinstance(el, str) or el not in members:
            return "ARRAY element type is not an OrsoTypes member"
        if el in ("ARRAY", "DECIMAL"):
            return "ARRAY element type is nested or needs parameters"
    return None


def _scalars(members):
    from orso.types import OrsoTypes

    out = []
    for n in members:
        m = OrsoTypes[n]
        if n in ("DECIMAL", "_MISSING_TYPE") or m.is_complex():
            continue
        out.append(n)
    return out


def _spec(s, F):
    """What the property demands of from_name(s) for an ASCII string: ("must", tuple) | ("reject", why) | None."""
    members = F["members"]
    u = s.upper()
    m = re.fullmatch(r"DECIMAL\(([0-9]+),([0-9]+)\)", u)
    if m:
        if len(m.group(1)) > F["maxdigits"] or len(m.group(2)) > F["maxdigits"]:
            return ("reject", "DECIMAL parameters outside 0<=s<=p<=38")
        p, sc = int(m.group(1)), int(m.group(2))
        if 0 <= sc <= p <= 38:
            return ("must", (["member", "DECIMAL"], None, p, sc, None))
        return ("reject", "DECIMAL parameters outside 0<=s<=p<=38")
    m = re.fullmatch(r"(VARCHAR|BLOB)\[([0-9]+)\]", u)
    if m:
        if len(m.group(2)) > F["maxdigits"]:
            return None  # int() itself refuses such a literal (ValueError): either answer is within the property
        return ("must", (["member", m.group(1)], int(m.group(2)), None, None, None))
    m = re.fullmatch(r"ARRAY<([^>]*)>", u, re.S)
    if m:
        t = m.group(1)
        if t in _scalars(members):
            return ("must", (["member", "ARRAY"], None, None, None, t))
        if t == "ARRAY" or t.startswith("ARRAY<") or t == "LIST" or t.startswith("LIST<"):
            return ("reject", "nested ARRAY element type")
        if "(" in t or "[" in t:
            return ("reject", "parameterised ARRAY element type")
        if t not in members and t not in F["aliases"]:
            return ("reject", "unknown ARRAY element type")
        return None
    if u in members and u != "_MISSING_TYPE":
        if u == "ARRAY":
            return ("must", (["member", "ARRAY"], None, None, None, "*"))
        return ("must", (["member", u], None, None, None, None))
    return None


def _oracle_name(s, name, F):
    """parts 1 and 2 of the property for one string and what from_name did with it"""
    members = F["members"]
    # 1. any string: a well-formed description or ValueError, nothing else
    if name[0] == "raise":
        if name[1] != "ValueError":
            return f"from_name({s!r}) raised {name[1]}; a string that is not a type name must be rejected with ValueError"
    else:
        why = _wf_result(name, members)
        if why:
            return f"from_name({s!r}) returned {name[1:]}, not a well-formed description: {why}"
    # 2. well-formed names resolve to exactly what they denote; out-of-range / bad element types are rejected
    if s.isascii():
        spec = _spec(s, F)
        if spec is not None and spec[0] == "must":
            want = spec[1]
            got = tuple(name[1:]) if name[0] == "ok" else None
            ok = got is not None and all(w == "*" or w == g for w, g in zip(want, got))
            if not ok:
                return f"from_name({s!r}) must resolve to {list(want)} (type, length, precision, scale, element type), got {name}"
        if spec is not None and spec[0] == "reject":
            if name != ["raise", "ValueError"]:
                return f"from_name({s!r}) must be rejected with ValueError ({spec[1]}), got {name}"
    return None


def _oracle_carries(s, name, col):
    """part 3: a column declared with the name carries the parameters.  col = ["raise", class] | ["ok", ty, len, prec, scale, elt, ...]"""
    if name[0] == "raise":
        if col[0] != "raise" or col[1] != name[1]:
            return f"FlatColumn(type={s!r}): from_name rejects the name with {name[1]} but the column constructor answered {col[:2]}"
        return None
    if col[0] == "raise":
        return f"FlatColumn(type={s!r}) / DataFrame.description raised {col[1]} although the name resolves to {name[1:]}"
    cty, cln, cpr, csc, cel = col[1:6]
    if cty != name[1]:
        return f"FlatColumn(type={s!r}).type is {cty}, the name resolves to {name[1]}"
    if name[1][0] == "member":
        for what, have, want in (("length", cln, name[2]), ("precision", cpr, name[3]), ("scale", csc, name[4]), ("element_type", cel, name[5])):
            if want is not None and have != want:
                return f"FlatColumn(type={s!r}).{what} is {have}, the name carries {want}"
    return None


def _oracle_code(s, name, col, code, dpr, dsc, back, where=""):
    """part 4: the reported type code resolves back to the same type (with the parameters it renders)"""
    cty, cln, cpr, csc, cel = col[1:6]
    proper = name[1][0] == "member" and name[1][1] != "_MISSING_TYPE" and cel != "_MISSING_TYPE"
    if proper:
        if not isinstance(code, str):
            return f"description of a column declared {s!r}{where} reports type code {code}"
        if back[0] != "ok" or back[1] != cty:
            return f"type code {code!r} reported for a column declared {s!r}{where} resolves to {back}, not back to {cty}"
        if cty[1] == "DECIMAL" and (back[3], back[4]) != (cpr, csc):
            return f"type code {code!r}{where} resolves to precision/scale {back[3:5]}, the column has {(cpr, csc)}"
        if cty[1] == "DECIMAL" and (dpr, dsc) != (cpr, csc):
            return f"description{where} reports precision/scale {(dpr, dsc)}, the column has {(cpr, csc)}"
        if cty[1] == "ARRAY" and cel is not None and back[5] != cel:
            return f"type code {code!r}{where} resolves to element type {back[5]}, the column has {cel}"
    return None


def _oracle_frame(case, obs):
    """The property for every column of one frame: the statement is per column ("a column declared with the name carries
    them, and the type code a DataFrame reports for the column resolves back to the same type"), so it must hold for each
    column whatever else the frame contains, and for every call of .description."""
    F = _facts()
    decl = [s for _, s in case["frame"]]
    cols = obs["cols"]
    for c in cols:
        why = _oracle_name(c["s"], c["name"], F)
        if why:
            return why
        why = _oracle_carries(c["s"], c["name"], c["col"])
        if why:
            return why + f" (column {c['n']!r} of a frame declared {decl})"
    built = [c for c in cols if c["col"][0] == "ok"]
    names = [c["n"] for c in built]
    for k, call in enumerate(obs["calls"]):
        which = "" if k == 0 else " (second call on the same frame)"
        if call and call[0] == "raise":
            return f"DataFrame.description{which} of a frame declared {decl} failed: {call[1]}"
        if len(call) != len(built):
            return f"DataFrame.description{which} of a frame of {len(built)} columns declared {decl} has {len(call)} entries"
        if [e[0] for e in call] != names:
            return f"DataFrame.description{which} of a frame with columns {names} lists the columns {[e[0] for e in call]}"
        if len(set(names)) != len(names):
            continue  # repeated column names: 'the column' of a name is not defined; nothing further is demanded
        for c, e in zip(built, call):
            where = f" (column {c['n']!r} of a frame declared {decl}{which})"
            why = _oracle_code(c["s"], c["name"], c["col"], e[1], e[2], e[3], e[4], where)
            if why:
                return why
    return None


def _oracle_session(case, obs):
    """The property at every .description of a session: each reported type code must resolve back to what the schema's
    column of that name carries AT THAT MOMENT (read from the column objects), however the column came to carry it.
    Not demanded: a frame object that has been described under two different lists of column NAMES (DataFrame.column_names
    is cached per frame object in the implementation; compared with the model, not judged here), columns whose current
    attributes no declaration produces (DECIMAL without precision/scale, type 0), repeated names."""
    F = _facts()
    sess = case["session"]
    for c in obs["cols"]:
        why = _oracle_name(c["s"], c["name"], F) or _oracle_carries(c["s"], c["name"], c["col"])
        if why:
            return why
    seen = {}    # frame -> the schema's names at every describe through it so far (None once they differed)
    for k, (op, st) in enumerate(zip(sess["ops"], obs["steps"])):
        at = f" (step {k} {op} of a session on a schema declared {sess['cols']})"
        if op[0] in ("replace", "append"):
            c = st["decl"]
            why = _oracle_name(c["s"], c["name"], F) or _oracle_carries(c["s"], c["name"], c["col"])
            if why:
                return why + at
        elif op[0] == "retype":
            why = _oracle_name(st["res"]["s"], st["res"]["name"], F)
            if why:
                return why + at
        elif op[0] == "copy_column":
            pass   # compared with the model; the next describe judges what the copy carries
        elif op[0] in ("describe", "describe_copy"):
            now, desc = st["now"], st["desc"]
            names = [c[0] for c in now]
            if op[0] == "describe":
                f = op[1]
                if f not in seen:
                    seen[f] = names
                elif seen[f] != names:
                    seen[f] = None      # from now on nothing is demanded of this frame object
                if seen[f] is None:
                    continue
            # (a frame on a copy of the schema is a new frame: always demanded)
            if desc and desc[0] == "raise":
                return f"DataFrame.description failed: {desc[1]}" + at
            if [e[0] for e in desc] != names:
                return f"DataFrame.description lists the columns {[e[0] for e in desc]}, the schema has {names}" + at
            if len(set(map(str, names))) != len(names):
                continue
            for c, e in zip(now, desc):
                ty, ln, pr, sc, el = c[1:6]
                if ty[0] != "member" or (ty[1] == "DECIMAL" and (pr is None or sc is None)):
                    continue
                carried = ["ok", ty, ln, pr, sc, el]
                shown = ty[1] + (f"({pr},{sc})" if ty[1] == "DECIMAL" else "") + (f"<{el}>" if el else "")
                why = _oracle_code("<now " + shown + ">", carried, carried, e[1], e[2], e[3], e[4], f" (column {c[0]!r}, which now carries {shown};" + at[2:])
                if why:
                    return why
    return None


def _oracle_decl(case, obs):
    """A column declared with the name carries the name's parameters - whether the constructor's own length / precision /
    scale / element_type keywords are omitted or passed as None ('not specified'), or passed with the very values the name
    carries.  Keywords passed with OTHER values: only 'raises iff one of the names is rejected' is demanded."""
    F = _facts()
    d = case["decl"]
    s, name, col, elt = obs["s"], obs["name"], obs["col"], obs["elt"]
    how = f" [declared as FlatColumn(type={s!r}, " + ", ".join(k + "=" + ("None" if v[0] == "none" else ("OrsoTypes." + v[1] if v[0] == "member" else repr(v[1]))) for k, v in sorted(d["kw"].items())) + f"), route {d['route']}]"
    why = _oracle_name(s, name, F)
    if why:
        return why
    if elt is not None:
        why = _oracle_name(elt["s"], elt["name"], F)
        if why:
            return why
        if elt["name"][0] == "raise":
            if col[:2] != ["raise", elt["name"][1]]:
                return f"element_type={elt['s']!r} is rejected by from_name with {elt['name'][1]} but the column constructor answered {col[:2]}" + how
            return None
    if name[0] == "raise":
        why = _oracle_carries(s, name, col)
        return why + how if why else None
    # do the values passed agree with what the name carries?
    idx = {"length": 2, "precision": 3, "scale": 4}
    agrees = True
    for k, v in d["kw"].items():
        if v[0] == "none":
            continue
        if k == "element_type":
            own = v[1] if v[0] == "member" else (elt["name"][1][1] if elt["name"][1][0] == "member" else ["zero"])
            agrees = agrees and own == name[5]
        else:
            agrees = agrees and v[1] == name[idx[k]]
    if elt is not None and elt["name"][1][0] != "member":
        return None   # element_type given as VARIANT / MISSING / 0: the column's element_type becomes the integer 0 (see notes, round 4 observation)
    if not agrees:
        if col[0] == "raise":
            return f"FlatColumn raised {col[1]} although both names resolve" + how
        return None
    why = _oracle_carries(s, name, col)
    if why:
        return why + how
    cty, cln, cpr, csc, cel, code, dpr, dsc, back = col[1:]
    why = _oracle_code(s, name, col, code, dpr, dsc, back)
    return why + how if why else None


_LONG_RUN = re.compile(r"(.{1,12}?)\1{9,}", re.S)


def _abbrev(why):
    """names at scale make the sentence tens of thousands of characters long: write periodic runs as <unit>*count"""
    if why is None or len(why) < 400:
        return why
    return _LONG_RUN.sub(lambda m: "<%s>*%d" % (m.group(1), len(m.group(0)) // len(m.group(1))), why)


def oracle(case, obs):
    return _abbrev(_oracle(case, obs))


def _oracle(case, obs):
    if "frame" in case:
        return _oracle_frame(case, obs)
    if "decl" in case:
        return _oracle_decl(case, obs)
    if "session" in case:
        return _oracle_session(case, obs)
    F = _facts()
    s = case["s"]
    name, col = obs["name"], obs["col"]
    why = _oracle_name(s, name, F)
    if why:
        return why
    why = _oracle_carries(s, name, col)
    if why or name[0] == "raise":
        return why
    cty, cln, cpr, csc, cel, code, dpr, dsc, back = col[1:]
    return _oracle_code(s, name, col, code, dpr, dsc, back)


# ------------------------------------------------------------------------------------------
# Coq side
# ------------------------------------------------------------------------------------------
def _c_N(n):
    """N literal; numbers above 64 bits as little-endian 64-bit limbs (huge decimal numerals take Coq minutes to parse)."""
    n = int(n)
    if n < 2 ** 64:
        return L.N(n)
    limbs = []
    while n:
        limbs.append(n & (2 ** 64 - 1))
        n >>= 64
    return "(limbs %s)" % L.lst(L.N(x) for x in limbs)


_PERIODIC = re.compile(r"(.{2,12}?)\1{7,}", re.S)


def _c_text(s):
    """list N of code points; runs of >= 32 equal characters as `rep count char`, >= 8 repetitions of a 2..12 character unit as
    `reps count unit` (deeply nested names are tens of thousands of characters, the terms stay small)."""
    if len(s) < 64:
        return L.text(s)
    parts = []
    lit = []

    def flush():
        if lit:
            parts.append(L.lst(str(ord(c)) for c in lit) + "%N")
            del lit[:]

    i = 0
    while i < len(s):
        j = i
        while j < len(s) and s[j] == s[i]:
            j += 1
        if j - i >= 32:
            flush()
            parts.append("rep %s %s" % (L.N(j - i), L.N(ord(s[i]))))
            i = j
            continue
        m = _PERIODIC.match(s, i) if len(s) - i >= 16 else None
        if m and len(set(m.group(1))) > 1:
            unit = m.group(1)
            flush()
            parts.append("reps %s %s" % (L.N(len(m.group(0)) // len(unit)), L.lst(str(ord(c)) for c in unit) + "%N"))
            i = m.end()
            continue
        lit.append(s[i])
        i += 1
    flush()
    return "((" + " ++ ".join(parts) + ") : list N)"


def _c_exn(cls):
    return "ValueError" if cls == "ValueError" else "OtherExn"


def _c_optN(x):
    return L.opt(None if x is None else _c_N(x))


def _bad(*xs):
    return any(isinstance(x, list) or (isinstance(x, int) and x < 0) for x in xs)


def _c_descr(ty, ln, pr, sc, el):
    if ty[0] == "other" or _bad(ln, pr, sc) or isinstance(el, list):
        t = "TOther"
        ln = pr = sc = el = None
    elif ty[0] == "zero":
        t = "TZero"
    else:
        t = "(TMember %s)" % _c_text(ty[1])
    return "(mkD %s %s %s %s %s)" % (t, _c_optN(ln), _c_optN(pr), _c_optN(sc), L.opt(None if el is None else _c_text(el)))


def _c_result(r):
    if r[0] == "raise":
        return "(Raise %s)" % _c_exn(r[1])
    return "(Ok %s)" % _c_descr(*r[1:])


def _c_ext(ext):
    return L.lst("(%s, (%s, %s, %s))" % (L.N(cp), L.opt(None if dv is None or dv < 0 else L.N(dv)), L.boolean(w), L.boolean(sp))
                 for cp, dv, w, sp in ext)


def _frame_to_coq(case, obs):
    cols = []
    for c in obs["cols"]:
        ci = "(%s, %s, %s, %s)" % (_c_text(c["n"]), _c_text(c["s"]), _c_text(c["upper"]), _c_ext(c["ext"]))
        col = c["col"]
        r = "(Raise %s)" % _c_exn(col[1]) if col[0] == "raise" else "(Ok %s)" % _c_descr(*col[1:6])
        cols.append("(%s, %s)" % (ci, r))
    calls = []
    for call in obs["calls"]:
        if call and call[0] == "raise":
            calls.append("None")
            continue
        ents = []
        for nm, code, dpr, dsc, back in call:
            if isinstance(nm, list) or isinstance(code, list) or _bad(dpr, dsc):
                ents = None
                break
            ents.append("((%s, %s, %s, %s), %s)" % (_c_text(nm), _c_text(code), _c_optN(dpr), _c_optN(dsc), _c_result(back)))
        calls.append("None" if ents is None else "(Some %s)" % L.lst(ents))
    return ("frame", "((%s, %s) : frame_case)" % (L.lst(cols), L.lst(calls)))


def _c_ci(c):
    return "(%s, %s, %s, %s)" % (_c_text(c["n"]), _c_text(c["s"]), _c_text(c["upper"]), _c_ext(c["ext"]))


def _c_colres(col):
    return "(Raise %s)" % _c_exn(col[1]) if col[0] == "raise" else "(Ok %s)" % _c_descr(*col[1:6])


def _c_schema(snap):
    """list (str * descr); a column whose name is not a str becomes a TOther description (equals nothing)"""
    out = []
    for c in snap:
        if isinstance(c[0], list):
            out.append("(%s, %s)" % (_c_text("?"), _c_descr(["other", "name"], None, None, None, None)))
        else:
            out.append("(%s, %s)" % (_c_text(c[0]), _c_descr(*c[1:6])))
    return L.lst(out)


def _session_to_coq(case, obs):
    cols = L.lst("(%s, %s)" % (_c_ci(c), _c_colres(c["col"])) for c in obs["cols"])
    steps = []
    for op, st in zip(case["session"]["ops"], obs["steps"]):
        if op[0] == "describe":
            desc = st["desc"]
            if desc and desc[0] == "raise":
                # AttributeError (None.type) is what the model calls OtherExn; anything else must not compare equal
                r = "(SDesc %s (Raise OtherExn))" % _c_schema(st["now"]) if desc[1] == "description:AttributeError" else "(SPop false)"
            else:
                ents = []
                for nm, code, dpr, dsc, back in desc:
                    if isinstance(nm, list) or isinstance(code, list) or _bad(dpr, dsc):
                        ents = None
                        break
                    ents.append("((%s, %s, %s, %s), %s)" % (_c_text(nm), _c_text(code), _c_optN(dpr), _c_optN(dsc), _c_result(back)))
                r = "(SPop false)" if ents is None else "(SDesc %s (Ok %s))" % (_c_schema(st["now"]), L.lst(ents))
            steps.append("(ODescribe %d%%nat, %s)" % (op[1], r))
        elif op[0] in ("replace", "append"):
            c = st["decl"]
            o = "OReplace %d%%nat %s" % (op[1], _c_ci(c)) if op[0] == "replace" else "OAppend %s" % _c_ci(c)
            steps.append("(%s, SDecl %s)" % (o, _c_colres(c["col"])))
        elif op[0] == "describe_copy":
            desc = st["desc"]
            ents = []
            if desc and desc[0] == "raise":
                ents = None
            else:
                for nm, code, dpr, dsc, back in desc:
                    if isinstance(nm, list) or isinstance(code, list) or _bad(dpr, dsc):
                        ents = None
                        break
                    ents.append("((%s, %s, %s, %s), %s)" % (_c_text(nm), _c_text(code), _c_optN(dpr), _c_optN(dsc), _c_result(back)))
            r = "(SPop true)" if ents is None else "(SDesc %s (Ok %s))" % (_c_schema(st["now"]), L.lst(ents))
            steps.append("(ODescribeCopy %d%%nat, %s)" % (COPY_HOW.index(op[1]), r))
        elif op[0] == "copy_column":
            c = st["copied"]
            r = "SPop false" if c is None else ("SPop true" if isinstance(c[0], list) else "SDecl (Ok %s)" % _c_descr(*c[1:6]))
            steps.append("(OCopyColumn %d%%nat %d%%nat, %s)" % (op[1], COPY_HOW.index(op[2]), r))
        elif op[0] == "pop":
            steps.append("(OPop %s, SPop %s)" % (_c_text(op[1]), L.boolean(st["found"])))
        else:
            c = st["res"]
            steps.append("(ORetype %d%%nat %s, SDecl %s)" % (op[1], _c_ci(c), _c_result(c["name"])))
    return ("session", "((%s, %s, %s) : session_case)" % (cols, L.lst(steps), _c_schema(obs["final"])))


def _decl_to_coq(case, obs):
    d = case["decl"]
    elt = obs["elt"]
    if elt is not None and elt["name"][0] == "ok" and elt["name"][1][0] != "member":
        return None    # element_type resolves to the integer 0: element_type = 0 is outside the description record of the model
    def kn(k):
        v = d["kw"].get(k)
        if v is None:
            return "KOmit"
        return "KNone" if v[0] == "none" else "(KVal %s)" % _c_N(v[1])
    e = d["kw"].get("element_type")
    if e is None:
        ke = "EOmit"
    elif e[0] == "none":
        ke = "ENone"
    elif e[0] == "member":
        ke = "(EMember %s)" % _c_text(e[1])
    else:
        ke = "(EName %s)" % _c_ci(dict(elt, n=""))
    kw = "(mkKw %s %s %s %s)" % (kn("length"), kn("precision"), kn("scale"), ke)
    col = obs["col"]
    if col[0] == "raise":
        c = "(ColRaise %s)" % _c_exn(col[1])
    else:
        cty, cln, cpr, csc, cel, code, dpr, dsc, back = col[1:]
        if isinstance(code, list) or _bad(dpr, dsc):
            c = "(ColRaise OtherExn)"
        else:
            c = "(ColOk %s %s %s %s %s)" % (_c_descr(cty, cln, cpr, csc, cel), _c_text(code), _c_optN(dpr), _c_optN(dsc), _c_result(back))
    return ("decl", "((%s, %s, %s) : decl_case)" % (_c_ci(dict(obs, n="c")), kw, c))


def to_coq(case, obs):
    if "frame" in case:
        return _frame_to_coq(case, obs)
    if "decl" in case:
        return _decl_to_coq(case, obs)
    if "session" in case:
        return _session_to_coq(case, obs)
    s = case["s"]
    ext = L.lst("(%s, (%s, %s, %s))" % (L.N(cp), L.opt(None if dv is None or dv < 0 else L.N(dv)), L.boolean(w), L.boolean(sp))
                for cp, dv, w, sp in obs["ext"])
    rx = obs["rx"]

    def g1(m):
        return L.opt(None if m is None else _c_text(m[0]))

    rxd = L.opt(None if rx[1] is None else "(%s, %s)" % (_c_text(rx[1][0]), _c_text(rx[1][1])))
    rxt = "(%s, %s, %s, %s)" % (g1(rx[0]), rxd, g1(rx[2]), g1(rx[3]))
    col = obs["col"]
    if col[0] == "raise":
        c = "(ColRaise %s)" % _c_exn(col[1])
    else:
        cty, cln, cpr, csc, cel, code, dpr, dsc, back = col[1:]
        if isinstance(code, list) or _bad(dpr, dsc):
            c = "(ColRaise OtherExn)"
        else:
            c = "(ColOk %s %s %s %s %s)" % (_c_descr(cty, cln, cpr, csc, cel), _c_text(code), _c_optN(dpr), _c_optN(dsc), _c_result(back))
    term = "((%s, %s, %s, %s, %s, %s) : c06_case)" % (
        _c_text(s), _c_text(obs["upper"]), ext, rxt, _c_result(obs["name"]), c)
    return ("name", term)


def known(case, obs):
    return None


def _form(u):
    for k in ("ARRAY<", "DECIMAL(", "VARCHAR[", "BLOB["):
        if u.startswith(k):
            return k[:-1].lower() + "-form"
    return "plain"


def jdump_case(case):
    import json

    return json.dumps(case, sort_keys=True)


def _base_of(c):
    col = c["col"]
    return col[1][1] if col[0] == "ok" and col[1][0] == "member" else None


def nontrivial_key(case, obs):
    F = _facts()
    if "decl" in case:  # non-trivial: the name resolves and at least one keyword is passed
        return ("decl", jdump_case(case)) if obs["name"][0] == "ok" and case["decl"]["kw"] else None
    if "session" in case:  # non-trivial: the schema was changed between two descriptions
        kinds = [o[0] for o in case["session"]["ops"]]
        d = [i for i, k in enumerate(kinds) if k == "describe"]
        ok = len(d) >= 2 and any(k != "describe" for k in kinds[d[0]:d[-1]])
        return ("session", jdump_case(case)) if ok else None
    if "frame" in case:  # non-trivial: at least two columns were constructed
        built = [c for c in obs["cols"] if c["col"][0] == "ok"]
        return ("frame", tuple((n, s) for n, s in case["frame"])) if len(built) >= 2 else None
    u = obs["upper"]
    if any(u.startswith(n) for n in F["members"]) or any(u.startswith(a) for a in F["aliases"]):
        return case["s"]
    return None


def classify(case, obs):
    if "decl" in case:
        d = case["decl"]
        yield "decl:route-" + d["route"]
        kinds = sorted(set(v[0] for v in d["kw"].values()))
        yield "decl:keywords-" + ("+".join(kinds) if kinds else "all-omitted")
        yield "decl:" + ("raised" if obs["col"][0] == "raise" else "constructed")
        return
    if "session" in case:
        ops = case["session"]["ops"]
        yield "session:%s-ops" % (len(ops) if len(ops) <= 4 else ("5-8" if len(ops) <= 8 else ">8"))
        seen, names_before = set(), None
        for op, st in zip(ops, obs["steps"]):
            if op[0] == "describe":
                names = [c[0] for c in st["now"]]
                if op[1] in seen:
                    yield "session:same-frame-described-again"
                    if names_before is not None and names_before != names:
                        yield "session:same-frame-after-names-changed"
                else:
                    yield "session:new-frame-on-used-schema" if seen else "session:first-description"
                seen.add(op[1])
                names_before = names
                if st["desc"] and st["desc"][0] == "raise":
                    yield "session:description-raised"
            else:
                yield "session:op-" + op[0]
        return
    if "frame" in case:
        cols = obs["cols"]
        built = [c for c in cols if c["col"][0] == "ok"]
        k = len(built)
        yield "frame:%s-columns" % (k if k <= 3 else ("4-8" if k <= 8 else ">8"))
        bases = [_base_of(c) for c in built]
        rep = [b for b in set(bases) if b is not None and bases.count(b) > 1]
        if rep:
            yield "frame:base-type-repeated"
            params = set()
            for c in built:
                if _base_of(c) in rep:
                    params.add(tuple(str(x) for x in c["col"][1:6]))
            if len(params) > len(rep):
                yield "frame:same-base-different-parameters"
        if len(built) < len(cols):
            yield "frame:has-rejected-column"
        names = [c["n"] for c in built]
        if len(set(names)) != len(names):
            yield "frame:repeated-column-name"
        elif len(set(n.lower() for n in names)) != len(names):
            yield "frame:names-differ-in-case-only"
        if any(not c["s"].isascii() for c in cols):
            yield "frame:non-ascii"
        return
    s = case["s"]
    yield "ascii" if s.isascii() else "non-ascii"
    yield _form(obs["upper"])
    n = obs["name"]
    if n[0] == "raise":
        yield "outcome:" + n[1]
    else:
        yield "outcome:ok:" + (n[1][1] if n[1][0] == "member" else n[1][0])
    if s != s.upper():
        yield "has-lower-case"
    if obs["ext"]:
        yield "upper-has-non-ascii"
    yield "len<=8" if len(s) <= 8 else ("len<=20" if len(s) <= 20 else ("len<=64" if len(s) <= 64 else "len>64"))


# ------------------------------------------------------------------------------------------
# generators
# ------------------------------------------------------------------------------------------
def _case_patterns(w):
    alt1 = "".join(c.upper() if i % 2 == 0 else c.lower() for i, c in enumerate(w))
    alt2 = "".join(c.lower() if i % 2 == 0 else c.upper() for i, c in enumerate(w))
    out = []
    for v in (w.upper(), w.lower(), w.capitalize(), alt1, alt2):
        if v not in out:
            out.append(v)
    return out


def _all_names():
    F = _facts()
    out = list(F["members"])
    for a in F["aliases"]:
        if a not in out:
            out.append(a)
    return out


def corpus():
    # F-C06-1 (fixed in 4cc1cb5): from_name('STRING') raised UnboundLocalError
    return [{"s": "STRING"}, {"s": "string"}, {"s": "String"}, {"s": "ARRAY<STRING>"}, {"s": "STRING[3]"}]


BOUNDARY = sorted(set(
    [2 ** k + d for k in (7, 8, 15, 16, 31, 32, 53, 63, 64, 127, 128) for d in (-1, 0, 1)]
    + [10 ** k + d for k in (3, 4, 9, 10, 18, 19, 20, 38, 39) for d in (-1, 0)]
    + [301, 999, 1000, 65535, 65536]))


# ---- whole frames -------------------------------------------------------------------------
# parameterised and bare spellings put next to each other in one frame (several per base type, so that every
# ordered pair / triple below contains same-base-type-different-parameter neighbours), plus two rejected names
FRAME_PARAM = ["DECIMAL(10,2)", "DECIMAL(5,1)", "decimal(38,38)", "DECIMAL(38,0)", "Decimal(1, 0)", "DECIMAL(0,0)", "DECIMAL",
               "ARRAY<INTEGER>", "ARRAY<VARCHAR>", "array<date>", "ARRAY<BLOB>", "ARRAY", "LIST",
               "VARCHAR[12]", "varchar[5]", "VARCHAR", "BLOB[3]", "BLOB[300]", "BLOB",
               "DECIMAL(5,6)", "ARRAY<ARRAY>"]
FRAME_TRIPLE = ["DECIMAL(10,2)", "DECIMAL(5,1)", "DECIMAL(38,38)", "DECIMAL",
                "ARRAY<INTEGER>", "ARRAY<VARCHAR>", "ARRAY", "LIST"]


def _frame(types, names=None):
    return {"frame": [[("c%d" % i) if names is None else names[i], s] for i, s in enumerate(types)]}


def _frame_core():
    out = list(FRAME_PARAM)
    for n in _all_names():
        if n not in out:
            out.append(n)
    return out


def _frames_exhaustive(tier):
    core = _frame_core()
    # every ordered pair (also x next to x) of the core: members, aliases, parameterised spellings
    for a in core:
        for b in core:
            yield _frame([a, b])
    # every ordered triple of distinct DECIMAL / ARRAY spellings (same base type three times, mixed)
    for a in FRAME_TRIPLE:
        for b in FRAME_TRIPLE:
            for c in FRAME_TRIPLE:
                if a != b and b != c and a != c:
                    yield _frame([a, b, c])
    # wide frames: the whole core in one frame, forwards, backwards and interleaved with itself
    yield _frame(core)
    yield _frame(core[::-1])
    yield _frame([x for a, b in zip(core, core[::-1]) for x in (a, b)])
    yield _frame([])
    # column-name schemes on same-base-type neighbours: names differing in case only, names that are type names,
    # and (model only, see oracle) a repeated name
    for a, b in (("DECIMAL(10,2)", "DECIMAL(5,1)"), ("ARRAY<INTEGER>", "ARRAY<VARCHAR>"), ("INTEGER", "DECIMAL(7,3)"), ("VARCHAR[12]", "BLOB[3]")):
        for names in (["a", "A"], ["col", "COL"], ["DECIMAL", "ARRAY"], ["ARRAY<INTEGER>", "DECIMAL(5,1)"], ["", " "], ["a", "a"], ["x", "X", "x"]):
            ts = [a, b] if len(names) == 2 else [a, b, a]
            yield _frame(ts, names)
            yield _frame(ts[::-1], names)
    if tier == "thorough":
        grid = [0, 1, 2, 10, 28, 37, 38]
        decs = ["DECIMAL(%d,%d)" % (p, s) for p in grid for s in grid if s <= p]
        for a in decs:
            for b in decs:
                yield _frame([a, b])
        elts = ["ARRAY<%s>" % n for n in _all_names()]
        for a in elts:
            for b in elts:
                yield _frame([a, b.lower()])
        tri = FRAME_PARAM[:19]
        for a in tri:
            for b in tri:
                for c in tri:
                    yield _frame([a, b, c])


# ---- sessions on one schema object ------------------------------------------------------------
SESSION_TYPES = ["DECIMAL(10,2)", "decimal(38,12)", "DECIMAL(5,5)", "DECIMAL", "ARRAY<INTEGER>", "Array<Varchar>", "ARRAY",
                 "VARCHAR[12]", "BLOB[3]", "timestamp"]


def _session(cols, ops):
    return {"session": {"cols": [list(c) for c in cols], "ops": [list(o) for o in ops]}}


def _sessions_exhaustive(tier):
    # every ordered pair (old declaration, new declaration), each re-declaration route, described through the frame used
    # before the change (0) and through a frame created after it (1)
    for old in SESSION_TYPES:
        for new in SESSION_TYPES:
            if old == new:
                continue
            two = [("a", old), ("b", "INTEGER")]
            # assign a new column object at the same index, same name
            yield _session(two, [("describe", 0), ("replace", 0, "a", new), ("describe", 0), ("describe", 1)])
            # pop + append when the column is the last one (names and count unchanged) ...
            yield _session(two[::-1], [("describe", 0), ("pop", "a"), ("append", "a", new), ("describe", 0), ("describe", 1)])
            # ... and when it is not (order of names changes: frame 0 is the implementation's stale-names case)
            yield _session(two, [("describe", 0), ("pop", "a"), ("append", "a", new), ("describe", 1), ("describe", 0)])
            # attributes of the column object assigned in place
            yield _session(two, [("describe", 0), ("retype", 0, new), ("describe", 0), ("describe", 1)])
            # grow, describe, re-declare the new column, shrink back
            yield _session(two, [("describe", 0), ("append", "c", new), ("describe", 1), ("replace", 2, "c", old), ("describe", 1),
                                 ("pop", "c"), ("describe", 2), ("describe", 0)])
    # round 6: the same re-declarations with copies in between - described through copy / deepcopy / pickle of the schema before and
    # after the change, the changed column replaced by a copy of itself, then the old frame again
    for old in SESSION_TYPES[::2]:
        for new in SESSION_TYPES[::2]:
            if old == new:
                continue
            for how in COPY_HOW:
                yield _session([("a", old), ("b", "INTEGER")],
                               [("describe_copy", how), ("describe", 0), ("replace", 0, "a", new), ("copy_column", 0, how), ("describe_copy", how),
                                ("describe", 0), ("copy_column", 1, how), ("retype", 1, old), ("describe_copy", how), ("describe", 1)])
    # the reviewer's shape: three columns, two re-declared, then one dropped and re-added
    yield _session([("amount", "DECIMAL(10,2)"), ("tags", "ARRAY<INTEGER>"), ("label", "VARCHAR[12]")],
                   [("describe", 0), ("replace", 0, "amount", "decimal(38,12)"), ("replace", 1, "tags", "Array<Varchar>"), ("describe", 1),
                    ("describe", 0), ("pop", "label"), ("append", "label", "DECIMAL(5,5)"), ("describe", 2), ("describe", 0), ("describe", 1)])
    # re-declaration under another name, rejected re-declarations, an emptied schema
    for new in ("DECIMAL(7,3)", "ARRAY<DATE>", "DECIMAL(5,6)", "STRING"):
        yield _session([("a", "DECIMAL(10,2)"), ("b", "ARRAY<INTEGER>")],
                       [("describe", 0), ("replace", 0, "z", new), ("describe", 1), ("describe", 0), ("retype", 1, new), ("describe", 2),
                        ("pop", "z"), ("pop", "a"), ("pop", "b"), ("describe", 3), ("append", "a", new), ("describe", 3), ("describe", 4)])


def _random_session(rng):
    pool = ["a", "b", "c", "A", "amount", "tags"]
    def ty():
        k = rng.random()
        if k < 0.6:
            return _same_family(rng)
        if k < 0.9:
            return _recase(rng, _valid(rng))
        return _random_case(rng)["s"]
    k = rng.choice([1, 2, 2, 3, 3, 4, 5])
    names = pool[:]
    rng.shuffle(names)
    cols = [(names[i] if rng.random() < 0.9 else rng.choice(pool), ty()) for i in range(k)]
    ops = []
    for _ in range(rng.choice([3, 4, 5, 6, 8, 10, 12])):
        r = rng.random()
        if r < 0.42:
            ops.append(("describe", rng.choice([0, 0, 0, 1, 1, 2, 3])))
        elif r < 0.62:
            i = rng.randint(0, 5)
            # mostly under the name the column at that index was created with (in place), sometimes another
            n = cols[i % len(cols)][0] if rng.random() < 0.7 else rng.choice(pool)
            ops.append(("replace", i, n, ty()))
        elif r < 0.74:
            ops.append(("append", rng.choice(pool), ty()))
        elif r < 0.82:
            ops.append(("pop", rng.choice(pool)))
        elif r < 0.88:
            ops.append(("describe_copy", rng.choice(COPY_HOW)))
        elif r < 0.92:
            ops.append(("copy_column", rng.randint(0, 5), rng.choice(COPY_HOW)))
        else:
            ops.append(("retype", rng.randint(0, 5), ty()))
    ops.append(("describe", rng.choice([0, 1, 4])))
    return _session(cols, ops)


# ---- the constructor's own keywords --------------------------------------------------------
DECL_TYPES = ["DECIMAL(10,2)", "decimal(38,0)", "DECIMAL(5,5)", "DECIMAL", "VARCHAR[12]", "blob[255]", "ARRAY<INTEGER>", "Array<Timestamp>",
              "ARRAY", "INTEGER", "VARIANT", "STRING"]
DECL_FIELDS = ["length", "precision", "scale", "element_type"]
DECL_VALUES = [{"length": ["val", 7]}, {"precision": ["val", 10]}, {"scale": ["val", 2]}, {"precision": ["val", 10], "scale": ["val", 2]},
               {"precision": ["none"], "scale": ["val", 3]}, {"precision": ["val", 38], "scale": ["none"]}, {"length": ["val", 0], "precision": ["val", 0], "scale": ["val", 0]},
               {"element_type": ["member", "INTEGER"]}, {"element_type": ["name", "varchar"]}, {"element_type": ["name", "VARCHAR[3]"]},
               {"element_type": ["name", "decimal(5,6)"]}, {"element_type": ["name", "INTEGR{}"]}, {"element_type": ["member", "TIMESTAMP"], "length": ["none"]}]


def _decl(s, kw, route="ctor"):
    return {"decl": {"s": s, "kw": kw, "route": route}}


def _decl_agreeing(s):
    """the keywords spelled out with the very values the name carries (None where it carries none)"""
    from orso.types import OrsoTypes

    try:
        with warnings.catch_warnings():
            warnings.simplefilter("ignore")
            r = OrsoTypes.from_name(s)
        kw = {}
        for k, v in zip(DECL_FIELDS[:3], r[1:4]):
            kw[k] = ["none"] if v is None else ["val", int(v)]
        kw["element_type"] = ["none"] if r[4] is None else ["member", r[4].name]
        return kw
    except Exception:
        return {k: ["none"] for k in DECL_FIELDS}


def _decls_exhaustive(tier):
    for s in DECL_TYPES:
        # every subset of the four keywords passed as None (the empty subset: all omitted), both routes
        for mask in range(16):
            kw = {f: ["none"] for i, f in enumerate(DECL_FIELDS) if mask >> i & 1}
            yield _decl(s, kw)
            if mask in (0, 1, 6, 8, 15):
                yield _decl(s, kw, "document")
        for kw in DECL_VALUES:
            yield _decl(s, dict(kw))
        yield _decl(s, _decl_agreeing(s))
        yield _decl(s, _decl_agreeing(s), "document")


def _random_decl(rng):
    s = _recase(rng, _same_family(rng) if rng.random() < 0.6 else _valid(rng))
    kw = {}
    for f in DECL_FIELDS[:3]:
        r = rng.random()
        if r < 0.35:
            kw[f] = ["none"]
        elif r < 0.5:
            kw[f] = ["val", rng.choice([0, 1, 2, 5, 10, 12, 28, 38, 39, 255, rng.randint(0, 10 ** 6)])]
    r = rng.random()
    if r < 0.35:
        kw["element_type"] = ["none"]
    elif r < 0.45:
        kw["element_type"] = ["member", rng.choice(_facts()["members"])]
    elif r < 0.55:
        kw["element_type"] = ["name", _recase(rng, rng.choice(_all_names() + ["VARCHAR[3]", "DECIMAL(4,2)", "ARRAY<DATE>", "INT", "STRUCT{a:INTEGER}"]))]
    if rng.random() < 0.15:
        kw = _decl_agreeing(s)
    return _decl(s, kw, rng.choice(["ctor", "ctor", "document"]))


# ---- malformed names whose text would mean something to a formatter ---------------------------
# str.format / % / string.Template / regex / escape templates: a name containing them is still just an unknown name
TEMPLATE_TOKENS = ["{}", "{0}", "{1}", "{a}", "{a:INTEGER}", "{10,2}", "{12}", "{VARCHAR,INTEGER}", "{!r}", "{:>10}", "{0.__class__}", "{{}}", "{{", "}}", "{", "}",
                   "%s", "%d", "%(a)s", "%", "%%", "$a", "${a}", "$", "\\", "\\d", "\\1", "\\N{BULLET}", "\\g<0>", "\x00", "'", '"', "`", "#{a}", "(?P<a>x)", "&amp;"]
TEMPLATE_HOSTS = ["", "INTEGR", "STRUCT", "DECIMAL", "VARCHAR"]


def _template_names():
    for tok in TEMPLATE_TOKENS:
        for h in TEMPLATE_HOSTS:
            yield h + tok
        yield tok.lower() + "struct" + tok
        yield "ARRAY<%s>" % tok
        yield "ARRAY<INTEGER%s>" % tok
        yield "DECIMAL(%s)" % tok
        yield "VARCHAR[%s]" % tok


# ---- names at scale: nesting / repetition far beyond the interpreter's recursion limit ----------
SCALE_DEPTHS = [2, 3, 10, 100, 500, 900, 990, 1000, 1010, 1500, 3000, 5000]


def _nested(d, inner="INTEGER", opener="ARRAY<", closer=">"):
    return opener * d + inner + closer * d


def _scale_names(tier):
    depths = list(SCALE_DEPTHS)
    if tier == "thorough":
        depths += list(range(200, 2001, 100)) + [10000, 20000]
    for d in depths:
        for inner in ("INTEGER", "NOT_A_TYPE"):
            yield _nested(d, inner)
            yield _nested(d, inner).lower()
        yield _nested(d, "DATE", "LIST<")
        yield _nested(d, "varchar", "Array<")
        yield "ARRAY<" * d + "INTEGER"                  # never closed
        yield "INTEGER" + ">" * d
        yield "ARRAY<" + _nested(d, "INTEGER", "(", ")") + ">"      # one long element group of pattern characters
        yield "ARRAY<" + "VARCHAR[1]" * d + ">"
        yield "ARRAY<" + "INTEGER " * d + ">"
        yield "DECIMAL(" + _nested(d, "1,2", "(", ")")
        yield "VARCHAR" + _nested(d, "1", "[", "]")
        yield "DECIMAL(1," + " " * d + "2)"             # a long \s* run: still DECIMAL(1,2)
        yield "DECIMAL(1,\t" + " \n" * d + "2)trailing"
        yield "INTEGER" * d
        yield " " * d + "INTEGER"
        yield "A" * (10 * d)
        yield "{" * d + "}" * d


def _scale_other():
    """the same names where a name is an argument of something else: element_type keyword, a neighbour in a frame, a re-declaration"""
    for d in (1000, 3000):
        deep = _nested(d)
        yield _decl("ARRAY", {"element_type": ["name", deep]})
        yield _decl(deep.lower(), {"precision": ["none"]}, "document")
        yield _frame(["DECIMAL(10,2)", deep, "ARRAY<INTEGER>"])
        yield _session([("a", "DECIMAL(10,2)")], [("describe", 0), ("replace", 0, "a", deep), ("retype", 0, deep.lower()), ("append", "b", deep), ("describe", 0)])


def exhaustive(tier):
    def it():
        names = _all_names()
        for w in names:
            for v in _case_patterns(w):
                yield {"s": v}
        for p in range(0, 46):
            for s in range(0, 46):
                yield {"s": "DECIMAL(%d,%d)" % (p, s)}
        for t in ("VARCHAR", "BLOB"):
            for n in range(0, 301):
                yield {"s": "%s[%d]" % (t, n)}
            for n in BOUNDARY:
                yield {"s": "%s[%d]" % (t, n)}
            for k in (4299, 4300, 4301):
                yield {"s": "%s[%s]" % (t, "9" * k)}
            yield {"s": "%s[%s7]" % (t, "0" * 4299)}
            yield {"s": "%s[%s7]" % (t, "0" * 4300)}
        yield {"s": "DECIMAL(%s,2)" % ("0" * 4298 + "10")}
        yield {"s": "DECIMAL(%s,2)" % ("0" * 4299 + "10")}
        yield {"s": "DECIMAL(10,%s)" % ("0" * 4300 + "2")}
        for w in names:
            for v in ("ARRAY<%s>" % w, ("ARRAY<%s>" % w).lower()):
                yield {"s": v}
        # every ASCII character in a digit position, a space position and an element position
        for c in range(128):
            ch = chr(c)
            yield {"s": "VARCHAR[1%s]" % ch}
            yield {"s": "DECIMAL(12,%s3)" % ch}
            yield {"s": "ARRAY<DA%sTE>" % ch}
        yield from _frames_exhaustive(tier)
        yield from _sessions_exhaustive(tier)
        yield from _decls_exhaustive(tier)
        for s in _template_names():
            yield {"s": s}
        for s in _scale_names(tier):
            yield {"s": s}
        yield from _scale_other()
        if tier == "thorough":
            for p in range(0, 46):
                for s in range(0, 46):
                    yield {"s": "decimal(%d, %d)" % (p, s)}
                    yield {"s": "Decimal(%02d,%03d)" % (p, s)}
            for t in ("varchar", "Blob"):
                for n in range(0, 3001):
                    yield {"s": "%s[%d]" % (t, n)}
            for w in names:
                for v in _case_patterns("ARRAY<%s>" % w):
                    yield {"s": v}
                for c in range(128):
                    yield {"s": "ARRAY<%s%s>" % (w, chr(c))}
            for c in range(128):
                ch = chr(c)
                yield {"s": "BLOB[%s1]" % ch}
                yield {"s": "DECIMAL(1%s,3)" % ch}
                yield {"s": "DECIMAL(12,3%s" % ch}
                yield {"s": "ARRAY%sDATE>" % ch}
                yield {"s": "ARRAY<DATE%s" % ch}
                yield {"s": "%sINTEGER" % ch}
                yield {"s": "INTEGER%s" % ch}

    label = ("every member name and alias in 5 letter-case patterns; DECIMAL(p,s) for all (p,s) in 0..45 x 0..45; VARCHAR[n], BLOB[n] for n in 0..300 and "
             "%d boundary widths plus 4299/4300/4301-digit runs; ARRAY<T> for every name and alias T (upper and lower); each of the 128 ASCII characters in a "
             "digit, a space and an element position" % len(BOUNDARY))
    label += ("; whole frames: every ordered pair of %d declared names (all members and aliases, %d parameterised / bare / rejected spellings), every ordered triple of "
              "%d distinct DECIMAL and ARRAY spellings, the whole set in one frame (3 orders), the empty frame, 7 column-name schemes" % (len(_frame_core()), len(FRAME_PARAM), len(FRAME_TRIPLE)))
    label += ("; sessions on one schema object: every ordered pair (old, new) of %d declarations x 5 re-declaration routes (assign at the index, pop+append with and "
              "without a change of order, attributes assigned in place, grow/re-declare/shrink), each described through the frame used before and a frame created after"
              % len(SESSION_TYPES))
    label += ("; constructor keywords: %d type names x (every subset of length / precision / scale / element_type passed as None by keyword, five of the subsets also through a fully spelled-out "
              "schema document; %d value patterns; the name's own values spelled out); %d formatter / template tokens (str.format, %%, $, backslash, regex groups, NUL, quotes) "
              "after %d hosts, around a name, and inside ARRAY<>, DECIMAL(), VARCHAR[]" % (len(DECL_TYPES), len(DECL_VALUES), len(TEMPLATE_TOKENS), len(TEMPLATE_HOSTS)))
    label += ("; names at scale: %d nesting / repetition depths from 2 to 5000 (around and far beyond the recursion limit) x 19 shapes - ARRAY< / LIST< nesting around a member and a "
              "non-member in both cases, unclosed, surplus closers, long element groups, bracket and parenthesis nesting, long blank runs inside DECIMAL(p, s), long plain text, "
              "brace nesting - also as element_type keyword, frame neighbour and re-declaration" % len(SCALE_DEPTHS))
    if tier == "thorough":
        label += "; frames: every ordered pair of DECIMAL(p,s) over a 7-value grid and of ARRAY<T> over all names, every ordered triple of 19 spellings"
        label += "; thorough: two further spellings of every DECIMAL(p,s), n in 0..3000, ARRAY<T> in 5 case patterns and with every ASCII character appended, 7 more character positions"
    return it(), label


NOISE = ["\u00df", "\u0131", "\u017f", "\ufb06", "\ufb01", "\u0130", "\u0149", "\u00e9", "\u03a3", "\u03c2", "\u0663", "\u0661", "\uff10", "\uff19",
         "\u07c2", "\u00b2", "\u2167", "\u00a0", "\u2003", "\u3000", "\u0085", "\u200b", "\u0301", "\u6f22", "\U0001d7d7", "\U0001f600", "\uff41",
         "\uff21", "\uff1c", "\uff3b", "\uff08", "\u2028", "\u1680", "\u01c5", "\u01c6", "\u1fb3", "\u0969", "\u1c49",
         "\u212a", "\u212b", "\u1e9e", "\u0390", "\u03b0", "E\u0301", "\u00c5", "A\u030a", "\u0345", "\ufb00", "\u2160", "\u24b6"]
ASCII_POOL = "ARYDECIMLVHBOTINGSU<>[]()0123456789, _\t\n\x1c-+.xyz"


def _valid(rng):
    F = _facts()
    k = rng.random()
    if k < 0.30:
        return rng.choice(_all_names())
    if k < 0.50:
        p = rng.choice([0, 1, 2, 9, 10, 18, 37, 38, 39, 40, 99, 100, rng.randint(0, 45)])
        s = rng.choice([0, 1, 2, p, p + 1, max(0, p - 1), 38, 39, rng.randint(0, 45)])
        sp = rng.choice(["", "", " ", "  ", "\t", "\n ", "\x1c"])
        z1 = rng.choice(["", "", "0", "000"])
        return "DECIMAL(%s%d,%s%s%d)" % (z1, p, sp, rng.choice(["", "", "0"]), s)
    if k < 0.70:
        n = rng.choice([0, 1, 12, 255, 256, 65535, 2 ** 31, 2 ** 63, 2 ** 64, 10 ** 30, rng.randint(0, 10 ** rng.randint(1, 40))])
        return "%s[%s%d]" % (rng.choice(["VARCHAR", "BLOB"]), rng.choice(["", "", "0", "00"]), n)
    if k < 0.92:
        return "ARRAY<%s>" % rng.choice(_all_names() + ["ARRAY<INTEGER>", "DECIMAL(10,2)", "VARCHAR[10]", "BLOB[2]", "LIST<DATE>", " INTEGER", "INTEGER ", "INT", "", "DATETIME"])
    return rng.choice(["ARRAY", "LIST", "NUMERIC", "BSON", "STRING", "VARIANT", "MISSING", "0", "_MISSING_TYPE", "INT", "TEXT", "FLOAT", "BOOL", "DATETIME", "TIMESTAMPTZ"])


def _recase(rng, s):
    k = rng.random()
    if k < 0.3:
        return s
    if k < 0.5:
        return s.lower()
    if k < 0.6:
        return s.capitalize()
    return "".join(c.lower() if rng.random() < 0.5 else c.upper() for c in s)


def _mutate(rng, s):
    k = rng.random()
    pos = rng.randint(0, len(s))
    if k < 0.15:
        return s[:pos]  # truncation
    if k < 0.25:
        return s[pos:]
    if k < 0.40 and s:
        i = rng.randrange(len(s))
        return s[:i] + s[i + 1:]  # deletion
    if k < 0.55:
        return s[:pos] + rng.choice(ASCII_POOL) + s[pos:]  # insertion
    if k < 0.70 and s:
        i = rng.randrange(len(s))
        return s[:i] + rng.choice(ASCII_POOL) + s[i + 1:]  # replacement
    if k < 0.78 and len(s) > 1:
        i = rng.randrange(len(s) - 1)
        return s[:i] + s[i + 1] + s[i] + s[i + 2:]  # transposition
    if k < 0.88:
        return s + "".join(rng.choice(ASCII_POOL) for _ in range(rng.randint(1, 4)))  # trailing garbage
    if k < 0.94:
        return rng.choice([" ", "\t", "x", "("]) + s  # leading garbage
    return s + s


def _noise(rng, s):
    for _ in range(rng.randint(1, 2)):
        ch = rng.choice(NOISE) if rng.random() < 0.85 else chr(rng.choice([rng.randint(0x80, 0x24F), rng.randint(0x370, 0x3FF), rng.randint(0x660, 0x669),
                                                                            rng.randint(0x2000, 0x206F), rng.randint(0xFF10, 0xFF5A), rng.randint(0x1D7CE, 0x1D7FF)]))
        pos = rng.randint(0, len(s))
        s = s[:pos] + ch + s[pos + (1 if rng.random() < 0.5 else 0):]
    return s


def _random_case(rng):
    s = _valid(rng)
    k = rng.random()
    if k < 0.25:
        s = _recase(rng, s)
    elif k < 0.60:
        s = _recase(rng, _mutate(rng, s))
    elif k < 0.70:
        s = _mutate(rng, _mutate(rng, s))
    elif k < 0.93:
        s = _noise(rng, _recase(rng, s))
    else:
        s = "".join(rng.choice(ASCII_POOL) for _ in range(rng.randint(0, 12)))
    return {"s": s}


def _same_family(rng):
    """a type name of a parameterised family, parameters drawn afresh each time"""
    fam = rng.choice(["DECIMAL", "DECIMAL", "ARRAY", "ARRAY", "VARCHAR", "BLOB"])
    if fam == "DECIMAL":
        if rng.random() < 0.1:
            return "DECIMAL"
        p = rng.randint(0, 38)
        return "DECIMAL(%d,%s%d)" % (p, rng.choice(["", "", " "]), rng.randint(0, p))
    if fam == "ARRAY":
        return rng.choice(["ARRAY<%s>" % rng.choice(_facts()["members"]), "ARRAY", "LIST"])
    return rng.choice(["%s[%d]" % (fam, rng.choice([0, 1, 12, 255, 65536, rng.randint(0, 10 ** 6)])), fam])


def _random_frame(rng):
    k = rng.choice([1, 2, 2, 2, 3, 3, 4, 5, 6, 8])
    mode = rng.random()
    types = []
    if mode < 0.45:      # one or two families repeated with different parameters, a few bystanders
        fams = [_same_family(rng).split("(")[0].split("<")[0].split("[")[0].upper() for _ in range(rng.choice([1, 1, 2]))]
        for _ in range(k):
            if rng.random() < 0.2:
                types.append(rng.choice(_all_names()))
            else:
                for _try in range(20):
                    s = _same_family(rng)
                    if any(s.upper().startswith(f) or (f == "ARRAY" and s == "LIST") for f in fams):
                        break
                types.append(s)
    elif mode < 0.85:    # anything valid-ish, re-cased
        types = [_recase(rng, _valid(rng)) for _ in range(k)]
    else:                # with malformed / non-ASCII neighbours
        types = [_random_case(rng)["s"] if rng.random() < 0.5 else _same_family(rng) for _ in range(k)]
    if mode < 0.85 and rng.random() < 0.5:
        types = [_recase(rng, s) for s in types]
    if rng.random() < 0.3 and types:   # the same spelling twice somewhere in the frame
        types.insert(rng.randint(0, len(types)), rng.choice(types))
    nm = rng.random()
    if nm < 0.6:
        names = ["c%d" % i for i in range(len(types))]
    elif nm < 0.75:
        names = [("col" if i % 2 == 0 else "COL") + str(i // 2) for i in range(len(types))]
    elif nm < 0.9:
        pool = ["id", "ID", "Id", "value", "VALUE", "DECIMAL", "decimal", "ARRAY", "type", "a", "A", "b", "B", "_", "x y"]
        rng.shuffle(pool)
        names = pool[:len(types)]
    else:
        names = [rng.choice(["a", "b", "A"]) for _ in types]   # repeated names likely
    return _frame(types, names)


def generate(rng, tier):
    count = 800 if tier == "quick" else 16000
    for _ in range(count):
        yield _random_case(rng)
    # frames are drawn after the strings so that the string stream of a given seed is the one of round 1
    for _ in range(250 if tier == "quick" else 5000):
        yield _random_frame(rng)
    for _ in range(150 if tier == "quick" else 3000):
        yield _random_session(rng)
    for _ in range(150 if tier == "quick" else 2000):
        yield _random_decl(rng)
    toks = TEMPLATE_TOKENS
    for _ in range(100 if tier == "quick" else 1500):
        s = _recase(rng, _valid(rng))
        for _k in range(rng.randint(1, 2)):
            pos = rng.randint(0, len(s))
            s = s[:pos] + rng.choice(toks) + s[pos:]
        yield {"s": s}


def search(rng):
    names = None
    while True:
        if names is None:
            names = _all_names()
        r = rng.random()
        if r < 0.2:
            yield _random_frame(rng)
            continue
        if r < 0.4:
            yield _random_session(rng)
            continue
        if r < 0.55:
            yield _random_decl(rng)
            continue
        if r < 0.7:
            s = _recase(rng, _valid(rng))
            pos = rng.randint(0, len(s))
            yield {"s": s[:pos] + rng.choice(TEMPLATE_TOKENS) + s[pos:]}
            continue
        if r < 0.75:
            d = rng.choice([50, 400, 950, 1200, 2500, 6000])
            opener, closer = rng.choice([("ARRAY<", ">"), ("array<", ">"), ("LIST<", ">"), ("(", ")"), ("[", "]"), ("ARRAY<(", ")>")])
            yield {"s": rng.choice(["", "DECIMAL", "VARCHAR", "x"]) + _nested(d, rng.choice(_all_names() + ["NOPE", "1,2", ""]), opener, closer)}
            continue
        k = rng.random()
        if k < 0.2:
            yield {"s": _recase(rng, rng.choice(names))}
        elif k < 0.3:
            yield {"s": _recase(rng, "ARRAY<%s>" % rng.choice(names))}
        elif k < 0.5:
            yield {"s": "DECIMAL(%d,%d)" % (rng.randint(0, 45), rng.randint(0, 45))}
        else:
            yield _random_case(rng)


def shrink(case):
    if "decl" in case:
        d = case["decl"]
        for k in sorted(d["kw"]):
            kw = dict(d["kw"])
            del kw[k]
            yield {"decl": dict(d, kw=kw)}
        if d["route"] != "ctor":
            yield {"decl": dict(d, route="ctor")}
        if d["s"] != d["s"].upper():
            yield {"decl": dict(d, s=d["s"].upper())}
        return
    if "session" in case:
        s = case["session"]
        for i in range(len(s["ops"])):
            yield {"session": {"cols": s["cols"], "ops": s["ops"][:i] + s["ops"][i + 1:]}}
        for i in range(len(s["cols"])):
            yield {"session": {"cols": s["cols"][:i] + s["cols"][i + 1:], "ops": s["ops"]}}
        return
    if "frame" in case:
        fr = case["frame"]
        for i in range(len(fr)):
            if len(fr) > 1:
                yield {"frame": fr[:i] + fr[i + 1:]}
        for i, (n, s) in enumerate(fr):
            if s != s.upper():
                yield {"frame": fr[:i] + [[n, s.upper()]] + fr[i + 1:]}
            if n != "c%d" % i:
                yield {"frame": fr[:i] + [["c%d" % i, s]] + fr[i + 1:]}
        return
    s = case["s"]
    if len(s) > 64:   # long names: drop big chunks first (from the middle outwards keeps nesting balanced)
        n = len(s)
        for frac in (2, 4, 8, 16, 64):
            k = n // frac
            yield {"s": s[:(n - k) // 2] + s[(n + k) // 2:]}
            yield {"s": s[k:]}
            yield {"s": s[:n - k]}
    for i in range(len(s)):
        yield {"s": s[:i] + s[i + 1:]}
    if s != s.upper():
        yield {"s": s.upper()}
