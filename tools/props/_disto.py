"""Shared harness for C13 / C14: runs small histogram programs on the real
orso.profiler.distogram in two arithmetics -

  mode "f": the code as shipped (binary64); values travel as float.hex() strings
  mode "q": the same code with its float cast patched out (distogram._caster = identity)
            and fractions.Fraction values, i.e. the real control flow in EXACT arithmetic;
            values travel as "p/q" strings

and prints the programs / observations as Coq terms for Model/C13_F.v and Model/C13_Q.v."""
import math
from fractions import Fraction

from vlib import coqlit as L


# ---------------------------------------------------------------- value codecs
def enc(mode, x):
    if x is None:
        return None
    if mode == "f":
        return float(x).hex()
    fr = Fraction(x)
    return f"{fr.numerator}/{fr.denominator}"


def dec(mode, s):
    if s is None:
        return None
    if mode == "f":
        return float.fromhex(s)
    return Fraction(s)


def exact(mode, s):
    """exact rational value of an encoded number (floats are dyadic rationals)"""
    if mode == "f":
        v = float.fromhex(s)
        if math.isinf(v) or math.isnan(v):
            raise ValueError("non-finite")
        return Fraction(v)
    return Fraction(s)


def coq_num(mode, s):
    if mode == "f":
        return L.primfloat(float.fromhex(s))
    return L.Q(Fraction(s))


# ---------------------------------------------------------------- running the implementation
def _state(mode, h):
    md = h.min_diff
    if h.diffs is None:
        cache = None
    else:
        if md is None:
            mdv = "none"
        elif isinstance(md, float) and math.isinf(md):
            mdv = "inf"
        else:
            mdv = enc(mode, md)
        cache = {"diffs": [enc(mode, d) for d in h.diffs], "min_diff": mdv}
    return {
        "bins": [[enc(mode, v), int(c)] for v, c in h.bins],
        "min": enc(mode, h.min),
        "max": enc(mode, h.max),
        "cache": cache,
        "cap": int(h._bin_count),
    }


def bulk_pairs(values, cap, dtype="float64"):
    """What Distogram.bulkload feeds to update(), recomputed here with numpy the way the
    property describes it (unique values with counts; above 5*cap distinct values a
    numpy.histogram with 5*cap bins and the MIDPOINTS of its edges)."""
    import numpy

    arr = numpy.array(values, dtype=getattr(numpy, dtype))     # numpy.histogram / the midpoints work in the array's dtype
    uv, uc = numpy.unique(arr, return_counts=True)
    above = len(uv) > cap * 5
    if above:
        counts, edges = numpy.histogram(arr, cap * 5, density=False)
        mids = [(edges[i] + edges[i + 1]) / 2 for i in range(len(edges) - 1)]
        pairs = [[float(m).hex(), int(c)] for m, c in zip(mids, counts)]
    else:
        pairs = [[float(v).hex(), int(c)] for v, c in zip(uv, uc)]
    return pairs, above, float(arr.min()).hex(), float(arr.max()).hex()


def run_program(mode, prog, keep_going=False):
    """Returns one observation per executed op; stops after the first op that raises.
    keep_going=True (C14 sessions): an op that raises is recorded as {"raise": ..., "state": state of its target
    histogram after the failed call, if it exists} and the program CONTINUES on the same objects."""
    import numpy
    from orso.profiler import distogram as D

    saved = D._caster
    if mode == "q":
        D._caster = lambda x: x
    try:
        env = {}
        out = []
        for op in prog:
            k = op[0]
            try:
                if k == "new":
                    env[op[1]] = D.Distogram(op[2])
                    out.append({"state": _state(mode, env[op[1]])})
                elif k == "upd":
                    h = env[op[1]]
                    r = D.update(h, dec(mode, op[2]), op[3])
                    env[op[1]] = r
                    out.append({"state": _state(mode, r)})
                elif k == "merge":
                    r = D.merge(env[op[1]], env[op[2]])
                    env[op[1]] = r
                    out.append({"state": _state(mode, r)})
                elif k == "add":
                    r = env[op[1]] + env[op[2]]
                    env[op[1]] = r
                    out.append({"state": _state(mode, r)})
                elif k == "bulk":
                    h = env[op[1]]
                    vals = [float.fromhex(x) for x in op[2]]
                    pairs, above, dmin, dmax = bulk_pairs(vals, h._bin_count, op[3] if len(op) > 3 else "float64") if vals else ([], False, None, None)
                    # optional 4th field: the dtype of the array handed to bulkload (the values are exactly
                    # representable in it; what goes into the histogram is the same numbers)
                    h.bulkload(numpy.array(vals, dtype=getattr(numpy, op[3]) if len(op) > 3 else numpy.float64))
                    out.append({"state": _state(mode, h), "pairs": pairs, "above": above, "dmin": dmin, "dmax": dmax})
                elif k == "copy":
                    # copy.deepcopy / pickle round trip of the histogram object: the copy replaces the original
                    import copy as _copy
                    import pickle as _pickle

                    h = env[op[1]]
                    r = _copy.deepcopy(h) if op[2] == "deepcopy" else (_copy.copy(h) if op[2] == "copy" else _pickle.loads(_pickle.dumps(h)))
                    if op[2] == "copy":
                        # a shallow copy shares its lists with the original: detach them as a caller that keeps both would expect
                        r.bins = list(r.bins)
                        r.diffs = None if r.diffs is None else list(r.diffs)
                    env[op[1]] = r
                    out.append({"state": _state(mode, r)})
                elif k == "load":
                    h = env[op[1]]
                    if mode == "f":
                        d = h.dump()
                        r = D.load([(float(v), int(c)) for v, c in d["bins"]], None if d["min"] is None else float(d["min"]),
                                   None if d["max"] is None else float(d["max"]))
                    else:
                        if not h.bins:
                            raise ValueError("dump of an empty histogram")
                        r = D.load(list(h.bins), h.min, h.max)
                    env[op[1]] = r
                    out.append({"state": _state(mode, r)})
                elif k == "loadb":
                    r = D.load([(dec(mode, v), int(c)) for v, c in op[2]], dec(mode, op[3]), dec(mode, op[4]))
                    env[op[1]] = r
                    out.append({"state": _state(mode, r)})
                elif k == "count_at":
                    r = D.count_at(env[op[1]], dec(mode, op[2]))
                    out.append({"ans": None if r is None else enc(mode, r)})
                elif k == "quantile":
                    r = D.quantile(env[op[1]], dec(mode, op[2]))
                    out.append({"ans": None if r is None else enc(mode, r)})
                else:
                    raise KeyError(k)
            except KeyError:
                raise
            except Exception as e:
                if keep_going:
                    ob = {"raise": type(e).__name__}
                    if k not in ("new", "loadb") and op[1] in env:
                        ob["state"] = _state(mode, env[op[1]])
                    out.append(ob)
                    continue
                out.append({"raise": type(e).__name__})
                break
        return out
    finally:
        D._caster = saved


# ---------------------------------------------------------------- Coq terms
def coq_op(mode, op, ob, default_cap):
    n = lambda s: coq_num(mode, s)
    k = op[0]
    if k == "new":
        return f"(ONew {L.nat(op[1])} {L.nat(op[2])})"
    if k == "upd":
        return f"(OUpd {L.nat(op[1])} {n(op[2])} {L.Z(op[3])})"
    if k == "merge":
        return f"(OMerge {L.nat(op[1])} {L.nat(op[2])})"
    if k == "add":
        return f"(OAdd {L.nat(op[1])} {L.nat(op[2])})"
    if k == "bulk":
        pairs = ob.get("pairs", [])
        if not pairs:
            z = L.primfloat(0.0)
            return f"(OBulk {L.nat(op[1])} [] {z} {z})"
        ps = L.lst(L.pair(L.primfloat(float.fromhex(v)), L.Z(c)) for v, c in pairs)
        return f"(OBulk {L.nat(op[1])} {ps} {L.primfloat(float.fromhex(ob['dmin']))} {L.primfloat(float.fromhex(ob['dmax']))})"
    if k == "load":
        return f"(OLoad {L.nat(op[1])} {L.nat(default_cap)})"
    if k == "loadb":
        bins = L.lst(L.pair(n(v), L.Z(c)) for v, c in op[2])
        return f"(OLoadB {L.nat(op[1])} {L.nat(default_cap)} {bins} {L.opt(None if op[3] is None else n(op[3]))} {L.opt(None if op[4] is None else n(op[4]))})"
    if k == "count_at":
        return f"(OCountAt {L.nat(op[1])} {n(op[2])})"
    if k == "quantile":
        return f"(OQuantile {L.nat(op[1])} {n(op[2])})"
    raise KeyError(k)


def coq_obs(mode, ob):
    n = lambda s: coq_num(mode, s)
    P = "F" if mode == "f" else "Q"
    if "raise" in ob:
        return f"{P}oRaise"
    if "ans" in ob:
        return f"{P}oNone" if ob["ans"] is None else f"({P}oNum {n(ob['ans'])})"
    s = ob["state"]
    bins = L.lst(L.pair(n(v), L.Z(c)) for v, c in s["bins"])
    if s["cache"] is None:
        cache = "None"
    else:
        md = s["cache"]["min_diff"]
        mdt = "Inf" if md in ("inf", "none") else f"(Fin {n(md)})"
        cache = f"(Some ({L.lst(n(d) for d in s['cache']['diffs'])}, {mdt}))"
    return f"({P}oState ({bins}, {L.opt(None if s['min'] is None else n(s['min']))}, {L.opt(None if s['max'] is None else n(s['max']))}, {cache}))"


def to_coq_case(mode, prog, obs, default_cap):
    # a copy of a histogram is the same value: the model has no such operation, the op and its observation
    # are left out of the Coq term (the oracle requires the state after the copy to equal the state before it)
    pairs = [(op, ob) for op, ob in zip(prog, obs) if op[0] != "copy"]
    ops = [coq_op(mode, op, ob, default_cap) for op, ob in pairs]
    return "(%s, %s)" % (L.lst(ops), L.lst(coq_obs(mode, ob) for _, ob in pairs))


# ---------------------------------------------------------------- reference algorithm (exact or float)
def reference_update(bins, v, c, cap, mode):
    """The reference streaming algorithm: insert in order (adding to an equal centre), then
    while over capacity merge the closest adjacent pair (weighted centroid, clamped between
    the two centres it replaces as the implementation documents).  Returns (bins, unique)
    where unique says whether every merge had a strictly closest pair."""
    bins = list(bins)
    for i, (x, f) in enumerate(bins):
        if x == v:
            bins[i] = (x, f + c)
            return bins, True
    i = 0
    while i < len(bins) and bins[i][0] < v:
        i += 1
    bins.insert(i, (v, c))
    unique = True
    while len(bins) > cap:
        gaps = [bins[j + 1][0] - bins[j][0] for j in range(len(bins) - 1)]
        m = min(gaps)
        if gaps.count(m) != 1:
            unique = False
        j = gaps.index(m)
        (v1, f1), (v2, f2) = bins[j], bins[j + 1]
        cen = (v1 * f1 + v2 * f2) / (f1 + f2)
        cen = min(max(cen, v1), v2)
        bins[j:j + 2] = [(cen, f1 + f2)]
    return bins, unique
