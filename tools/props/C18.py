"""C18 - Rendering a DataFrame never fails and shows the right rows.

Case (JSON):
  {"names": [str], "schema": None | [{"type": NAME, "element_type": NAME|None, "precision": int|None, "scale": int|None}],
   "rows": [[cellspec, ...], ...], "lazy": bool, "idcol": bool,
   "cfg": {"limit", "dw", "mcw", "colorize", "tt", "show_types"},   display(...) / ascii_table(..., top_and_tail=False)
   "md": {"limit", "mcw"}, "cols": terminal width seen by str()}
cellspec (JSON list): ["none"] ["bool",b] ["int","<decimal>"] ["float","<hex>|nan|inf|-inf"] ["dec","<text>"]
  ["str",s] ["bytes",hex] ["bytearray",hex] ["date",y,m,d] ["datetime",y,m,d,H,M,S,us,tzminutes|None]
  ["time",H,M,S,us] ["td",days,seconds,us] ["list",[spec]] ["tuple",[spec]] ["dict",[[keyspec,spec]]] ["set",[spec]]
  ["complex",re,im] ["np",kind,text]  (kind: int8..uint64,float16..float64,bool,str,bytes,datetime64,complex64)
  ["nparr",dtype,nested list | scalar] ["nptd",count|None,unit]
  round 4: ["sub",cls,basespec]  an instance of a proper SUBCLASS of basespec's class (cls: SubInt IntEnum IntFlag SubFloat SubStr SubBytes
             SubByteArray SubDecimal SubDate SubDateTime SubTimedelta SubDict OrderedDict defaultdict SubList SubTuple namedtuple)
           ["npsub",cls,dtype,data,mask|None]  an instance of an ndarray SUBCLASS (cls: masked matrix recarray subarr chararray masked_const)
           nparr dtypes also U / S (hex items) / datetime64[..] / timedelta64[..] / complex128 ([re,im] items) / struct ([int,int] items)
  cfg["dw"] may be true (terminal width = "cols") or false (no limit, 5000); cfg["argkind"] == "sub": limit / widths passed as int-subclass instances
With "idcol" the first column holds the int 1000+row index, so the row a label stands next to can be read back.
Observation: for display / markdown / str: {"exc": name} or {"text": str}; derived: labels, ellipsis position,
line widths (colour codes stripped)."""
import ast
import datetime
import decimal
import importlib
import inspect
import os
import re
import unicodedata

from vlib import coqlit as L

ID = "C18"
READY = True
TECHNIQUE = ("Coq proofs over an executable model of ascii_table/markdown/__str__ (row selection by induction over the frame, "
             "width accounting of trunc_printable by induction over the text) + model/implementation correspondence evaluated in Coq")
LEVEL_TEXT = ("Machine-checked Coq theorems over an executable Gallina model of orso/display.py: for every frame, limit >= 1, both modes, "
              "eager and lazy, the rows shown are the first and last `limit` (all when n <= 2*limit) with exactly one ellipsis line otherwise and every "
              "label is the row's true 1-based position; a cell that is an instance of a proper SUBCLASS of a listed kind (masked array / matrix / recarray / "
              "user ndarray subclass; int, float, str, bytes, Decimal, date, datetime, timedelta, dict, list, tuple subclasses) is formatted, "
              "and the whole frame rendered by all three renderers, exactly as the base-class instance of equal content is; columns are positional: "
              "column j is min(max_column_width, max(its own name, its own type text, its own shown non-null cells, 4)) wide, so nothing but "
              "max_column_width cuts a cell, a number that fits is printed with every digit, and renaming the columns (all to ONE name included) "
              "changes the header line only; for every enumerated cell kind the formatter, the table and str() return Ok (no Raise reachable; bytes of any content, timedelta64 of any unit and NaT included); for "
              "printable-ASCII names and cells every box line handed to colorizer has the same printed width min(table width, display width). The model "
              "is tied to the code by rendering real DataFrames (display / ascii_table head-only / markdown / str, eager and generator-backed, every "
              "listed cell kind) and evaluating the model on the same frames inside Coq: full output compared by length + 61-bit digest, labels, "
              "ellipsis position and per-line printed widths compared structurally; a literal property oracle on the real output supplies replayable "
              "failing inputs.")
LEVEL_NOTE = ("Totality is over the enumerated cell kinds; a value whose own str() raises (an int beyond CPython's int->str digit limit, a user object) "
              "cannot be described as a case and is covered by nothing. Trusted / modelled, not verified: str() of cell values, strftime, "
              "ndarray.tolist(), unicodedata.east_asian_width (regenerated into Gen/C18_Tables.v), terminal width; sub-second interval text is exact "
              "rational rounding (generators avoid exact .xx5 ties, where binary64 decides). Partial: the equal-width theorem is about the lines "
              "before colour-token substitution with tokens counted as zero width; that colorizer replaces exactly the tokens is checked by the "
              "correspondence and the oracle, not proved, and is false for content holding the six characters backslash-u0001 (known finding "
              "F-C18-4, guarded exactly: printable-ASCII case with that text in a column name or a rendered cell). The real output is compared by "
              "length and a 61-bit polynomial digest, not character by character.")
DESIGN_REF = "DESIGN.md section 8, C18"
COQ_IMPORTS = "From Coq Require Import String.\nFrom Orso Require Import Model.C18."
COQ_CHECKS = {"render": "c18_check"}
COQ_SHOW = {"render": "c18_show"}
RULE = ("a deterministic cell-class table (every listed kind, every builtin / library subclass instance, every ndarray subclass x dtype x "
        "shape, every ndarray dtype, every NumPy scalar kind) one cell per frame and six per frame, eager and lazy; "
        "frames of 0..30 rows x 0..5 columns over every listed cell kind (null, bool, int, float incl. nan/inf, text with any Unicode / line "
        "breaks / control / wide characters, bytes of any content, date, datetime, time, timedelta, Decimal, list, tuple, dict, set, complex, NumPy "
        "scalars and arrays of every dtype, timedelta64, subclass instances of all of these incl. masked arrays / matrix / recarray), text also "
        "non-NFC and with special case folding, list-of-names and RelationSchema schemas, limits 1..8, colour on/off, type row on/off, max column "
        "width 1..40 and display width 1..200 (narrower and wider than the table) or given as a bool, integer arguments also as int-subclass "
        "instances, head-only and top-and-tail, eager and generator-backed; column names repeated (30 % of random frames with >= 2 columns) "
        "and a deterministic table of repeated / look-alike column names (later same-named column wider, mirrored, max_column_width at "
        "widest cell -1 / = / +1, names list and RelationSchema); "
        "each rendered by display()/ascii_table, markdown() and str(); a case is non-trivial when the frame has at least one row and one "
        "column; distinct by canonical JSON")
TRUSTED = [
    "C18 model (coq/Model/C18.v): hand-written from display.py; str()/strftime/tolist() texts of cell values are supplied per case (library oracles)",
    "Gen/C18_Tables.v: COLORS in dictionary order, the double-width east-asian classes named at display.py:303 expanded with the running "
    "interpreter's unicodedata, ascii_table's defaults and the limit __str__ passes - regenerated from the live modules on every run",
    "the real output is compared with the model's by length and a 61-bit polynomial digest (plus labels, ellipsis position and line widths structurally)",
    "compiled calculate_data_width (shipped .so) is modelled as max(4, len(str(v))) over non-null cells and validated only by the correspondence",
]
ASSUMPTIONS = [
    "limit >= 1, max_column_width >= 1, display width >= 1, rows rectangular (ragged rows: see C10)",
    "equal-width theorem: names, type names and all cell texts printable ASCII (32..126)",
    "every cell value has a str() (supplied with the case)",
    "a subclass instance is described as VSub around the description of the base-class instance of equal content; the subclasses used override "
    "no method (IntEnum / IntFlag / OrderedDict / defaultdict / namedtuple / MaskedArray / matrix / recarray / chararray as the libraries define them)",
]

ANSI = re.compile(r"\x1b\[[0-9;]*m")
LINEAR_UNITS = ["ns", "us", "ms", "s", "m", "h", "D", "W"]
NONLINEAR_UNITS = ["M", "Y"]
UNIT_NS = {"ns": 1, "us": 10**3, "ms": 10**6, "s": 10**9, "m": 60 * 10**9, "h": 3600 * 10**9, "D": 86400 * 10**9, "W": 7 * 86400 * 10**9}
DIGEST_P = 2305843009213693951
U0001 = "\\u0001"


# ---------------------------------------------------------------------------------------
# gen: tables from the live modules
def _fail(msg):
    raise RuntimeError("C18 gen (fail closed): " + msg)


def _tree(rs):
    if not rs:
        return "RLeaf"
    mid = len(rs) // 2
    return "(RNode %s %s %s %s)" % (_tree(rs[:mid]), L.N(rs[mid][0]), L.N(rs[mid][1]), _tree(rs[mid + 1:]))


def gen(repo):
    disp = importlib.import_module("orso.display")
    dfm = importlib.import_module("orso.dataframe")
    types = importlib.import_module("orso.types")
    src_path = os.path.join(repo, "orso", "display.py")
    if os.path.realpath(disp.__file__) != os.path.realpath(src_path):
        _fail(f"imported module {disp.__file__} is not the tree under examination {src_path}")
    colors = getattr(disp, "COLORS", None)
    if not isinstance(colors, dict) or not colors or not all(isinstance(k, str) and isinstance(v, str) and k for k, v in colors.items()):
        _fail("orso.display.COLORS has an unexpected shape")
    # character_width: the classes that count double, from the AST of display.py
    tree = ast.parse(open(src_path).read())
    classes = None
    for n in ast.walk(tree):
        if isinstance(n, ast.FunctionDef) and n.name == "character_width":
            for m in ast.walk(n):
                if isinstance(m, ast.IfExp) and isinstance(m.test, ast.Compare) and len(m.test.ops) == 1 and isinstance(m.test.ops[0], ast.In):
                    call, tup = m.test.left, m.test.comparators[0]
                    if not (isinstance(call, ast.Call) and isinstance(call.func, ast.Attribute) and call.func.attr == "east_asian_width"):
                        _fail("character_width does not test unicodedata.east_asian_width")
                    if not (isinstance(m.body, ast.Constant) and m.body.value == 2 and isinstance(m.orelse, ast.Constant) and m.orelse.value == 1):
                        _fail("character_width no longer answers 2 / 1")
                    if not isinstance(tup, ast.Tuple) or not all(isinstance(e, ast.Constant) and isinstance(e.value, str) for e in tup.elts):
                        _fail("character_width: class tuple has an unexpected shape")
                    classes = tuple(e.value for e in tup.elts)
    if classes is None:
        _fail("character_width not found in display.py")
    ranges = []
    for cp in range(0x110000):
        if unicodedata.east_asian_width(chr(cp)) in classes:
            if ranges and ranges[-1][1] == cp - 1:
                ranges[-1][1] = cp
            else:
                ranges.append([cp, cp])
    sig = inspect.signature(disp.ascii_table).parameters
    for p in ("limit", "display_width", "max_column_width", "colorize", "top_and_tail", "show_types"):
        if p not in sig:
            _fail(f"ascii_table has no parameter {p}")
    mcw, col, tt, st = sig["max_column_width"].default, sig["colorize"].default, sig["top_and_tail"].default, sig["show_types"].default
    if not (isinstance(mcw, int) and isinstance(col, bool) and isinstance(st, bool) and tt is True and sig["display_width"].default is True):
        _fail("ascii_table defaults have an unexpected shape")
    ssrc = inspect.getsource(dfm.DataFrame.__str__)
    m = re.search(r"size\s*:\s*int\s*=\s*(\d+)", ssrc)
    if not m or "ascii_table(self, limit=size, top_and_tail=True)" not in ssrc:
        _fail("DataFrame.__str__ no longer calls ascii_table(self, limit=size, top_and_tail=True) with a literal size")
    missing = str.center(types.OrsoTypes._MISSING_TYPE, 1)
    if str(types.OrsoTypes._MISSING_TYPE) != missing:
        _fail("_MISSING_TYPE text")
    out = [
        "(* GENERATED by tools/props/C18.py gen() from orso/display.py, orso/dataframe.py, orso/types.py and unicodedata - do not edit. *)",
        "From Coq Require Import List NArith.",
        "Import ListNotations.",
        "(* COLORS.items() in dictionary order *)",
        "Definition c18_colors : list (list N * list N) := %s." % L.lst(L.pair(L.text(k), L.text(v)) for k, v in colors.items()),
        "(* code point ranges whose east_asian_width is one of %s (unicodedata %s) *)" % ("/".join(classes), unicodedata.unidata_version),
        "Definition c18_wide_ranges : list (N * N) := %s." % L.lst(L.pair(L.N(a), L.N(b)) for a, b in ranges),
        "(* the same ranges as a balanced search tree *)",
        "Inductive c18_rtree := RLeaf | RNode (l : c18_rtree) (lo hi : N) (r : c18_rtree).",
        "Definition c18_wide_tree : c18_rtree := %s." % _tree(ranges),
        "Definition c18_missing_type : list N := %s." % L.text(missing),
        "Definition c18_str_limit : nat := %s." % L.nat(int(m.group(1))),
        "Definition c18_ascii_mcw : nat := %s." % L.nat(mcw),
        "Definition c18_ascii_colorize : bool := %s." % L.boolean(col),
        "Definition c18_ascii_show_types : bool := %s." % L.boolean(st),
    ]
    return {"C18_Tables": "\n".join(out) + "\n"}


# ---------------------------------------------------------------------------------------
# building the Python values and describing them for the model
def _float_of(s):
    if s in ("nan", "inf", "-inf"):
        return float(s)
    return float.fromhex(s)


def build(spec):
    import numpy

    k = spec[0]
    if k == "none":
        return None
    if k == "bool":
        return bool(spec[1])
    if k == "int":
        return int(spec[1])
    if k == "float":
        return _float_of(spec[1])
    if k == "dec":
        return decimal.Decimal(spec[1])
    if k == "str":
        return spec[1]
    if k == "bytes":
        return bytes.fromhex(spec[1])
    if k == "bytearray":
        return bytearray.fromhex(spec[1])
    if k == "date":
        return datetime.date(*spec[1:4])
    if k == "datetime":
        tz = None if spec[8] is None else datetime.timezone(datetime.timedelta(minutes=spec[8]))
        return datetime.datetime(*spec[1:8], tzinfo=tz)
    if k == "time":
        return datetime.time(*spec[1:5])
    if k == "td":
        return datetime.timedelta(days=spec[1], seconds=spec[2], microseconds=spec[3])
    if k == "list":
        return [build(x) for x in spec[1]]
    if k == "tuple":
        return tuple(build(x) for x in spec[1])
    if k == "set":
        return set(build(x) for x in spec[1])
    if k == "dict":
        return {build(a): build(b) for a, b in spec[1]}
    if k == "complex":
        return complex(spec[1], spec[2])
    if k == "np":
        kind, txt = spec[1], spec[2]
        if kind == "bool":
            return numpy.bool_(bool(txt))
        if kind == "str":
            return numpy.str_(txt)
        if kind == "bytes":
            return numpy.bytes_(bytes.fromhex(txt))
        if kind == "datetime64":
            return numpy.datetime64(txt)
        if kind == "complex64":
            return numpy.complex64(complex(txt))
        if kind == "complex128":
            return numpy.complex128(complex(txt))
        if kind.startswith("float") or kind == "longdouble":
            return getattr(numpy, kind)(_float_of(txt))
        return getattr(numpy, kind)(int(txt))
    if k == "sub":
        return _make_sub(spec[1], build(spec[2]))
    if k == "npsub":
        cls, dtype, data, mask = spec[1], spec[2], spec[3], spec[4]
        if cls == "masked_const":
            return numpy.ma.masked
        base = build(["nparr", dtype, data])
        if cls == "masked":
            return numpy.ma.masked_array(base, mask=False if mask is None else mask)
        if cls == "matrix":
            return numpy.matrix(base)
        if cls == "recarray":
            return base.view(numpy.recarray)
        if cls == "subarr":
            return base.view(_sub_class("SubArr"))
        if cls == "chararray":
            return numpy.char.array(base)
        raise KeyError(cls)
    if k == "nparr":
        dtype, data = spec[1], spec[2]

        if dtype == "S":
            def hx(x):
                return [hx(y) for y in x] if isinstance(x, list) else bytes.fromhex(x)
            return numpy.array(hx(data), dtype="S")
        if dtype == "complex128":
            return numpy.array([complex(a, b) for a, b in data], dtype="complex128")
        if dtype == "struct":
            sd = [("a", "i8"), ("b", "i4")]
            if data and not isinstance(data[0], list):
                return numpy.array(tuple(data), dtype=sd)      # 0-d
            return numpy.array([tuple(x) for x in data], dtype=sd)
        if dtype == "object":
            items = [build(x) for x in data]
            a = numpy.empty(len(items), dtype=object)
            for i, it in enumerate(items):
                a[i] = it
            return a
        if dtype.startswith("float"):
            def fl(x):
                return [fl(y) for y in x] if isinstance(x, list) else _float_of(x)
            return numpy.array(fl(data), dtype=dtype)
        return numpy.array(data, dtype=dtype)
    if k == "nptd":
        if spec[1] is None:
            return numpy.timedelta64("NaT", spec[2])
        return numpy.timedelta64(int(spec[1]), spec[2])
    raise KeyError(k)


# ---- subclass instances (round 4) ----
SUBS = {"int": ["SubInt", "IntEnum", "IntFlag"], "float": ["SubFloat"], "str": ["SubStr"], "bytes": ["SubBytes"],
        "bytearray": ["SubByteArray"], "dec": ["SubDecimal"], "date": ["SubDate"], "datetime": ["SubDateTime"],
        "td": ["SubTimedelta"], "dict": ["SubDict", "OrderedDict", "defaultdict"], "list": ["SubList"],
        "tuple": ["SubTuple", "namedtuple"]}
_SUB_CACHE = {}


def _sub_class(name):
    """A class that is a proper subclass of the builtin / library class and overrides nothing."""
    if name not in _SUB_CACHE:
        import numpy

        base = {"SubInt": int, "SubFloat": float, "SubStr": str, "SubBytes": bytes, "SubByteArray": bytearray,
                "SubDecimal": decimal.Decimal, "SubDate": datetime.date, "SubDateTime": datetime.datetime,
                "SubTimedelta": datetime.timedelta, "SubDict": dict, "SubList": list, "SubTuple": tuple,
                "SubArr": numpy.ndarray}[name]
        _SUB_CACHE[name] = type(name, (base,), {})
    return _SUB_CACHE[name]


def _make_sub(cls, v):
    import collections
    import enum

    if cls == "IntEnum":
        return enum.IntEnum("Kind", {"MEMBER": int(v)}).MEMBER
    if cls == "IntFlag":
        return enum.IntFlag("Flag", {"A": 1, "B": 2, "C": 4})(abs(int(v)) % 8)
    if cls == "OrderedDict":
        return collections.OrderedDict(v)
    if cls == "defaultdict":
        return collections.defaultdict(int, v)
    if cls == "namedtuple":
        return collections.namedtuple("NT", ["f%d" % i for i in range(len(v))])(*v)
    c = _sub_class(cls)
    if cls == "SubDateTime":
        return c(v.year, v.month, v.day, v.hour, v.minute, v.second, v.microsecond, tzinfo=v.tzinfo)
    if cls == "SubDate":
        return c(v.year, v.month, v.day)
    if cls == "SubTimedelta":
        return c(days=v.days, seconds=v.seconds, microseconds=v.microseconds)
    return c(v)


_KINDS = {"sub", "npsub", "none", "bool", "int", "float", "dec", "str", "bytes", "bytearray", "date", "datetime", "time", "td", "list", "tuple",
          "set", "dict", "complex", "np", "nparr", "nptd"}


def _is_ascii(s):
    return all(32 <= ord(c) <= 126 for c in s)


class Desc:
    """The model's view of one cell: Coq term of the value, str(value), and every text that can reach the output."""

    def __init__(self, term, own, texts, raw=b""):
        self.term, self.own, self.texts, self.raw = term, own, texts, raw


def ctext(s):
    """Python str -> Coq text; printable-ASCII texts travel as a string literal."""
    if s and _is_ascii(s):
        return '(T "%s")' % s.replace('"', '""')
    return L.text(s)


def _isnan(x):
    return x != x


_EXACT = (type(None), bool, int, float, decimal.Decimal, str, datetime.datetime, datetime.date, bytes, bytearray, dict,
          datetime.timedelta, list, tuple)


def describe_py(v):
    """Plain Python values (the cell itself, or what ndarray.tolist() returned).  An instance of a proper subclass of a class
    the formatter tests for is marked VSub around the description of the base-class instance of equal content."""
    d = _describe_base(v)
    if type(v) not in _EXACT and not d.term.startswith("(VOther"):
        return Desc("(VSub %s)" % d.term, d.own, d.texts, raw=d.raw)
    return d


def _describe_base(v):
    if v is None:
        return Desc("VNone", "None", [])
    if isinstance(v, bool):
        return Desc("(VBool %s)" % L.boolean(v), str(v), [])
    if isinstance(v, int):
        return Desc("(VInt %s)" % ctext(str(v)), str(v), [])
    if isinstance(v, float):
        return Desc("(VFloat %s %s)" % (L.boolean(_isnan(v)), ctext(str(v))), str(v), [])
    if isinstance(v, decimal.Decimal):
        return Desc("(VDecimal %s)" % ctext(str(v)), str(v), [])
    if isinstance(v, str):
        return Desc("(VStr %s)" % ctext(v), v, [v])
    if isinstance(v, datetime.datetime):
        d, t = v.strftime("%Y-%m-%d"), v.strftime("%H:%M:%S")
        return Desc("(VDateTime %s %s)" % (ctext(d), ctext(t)), None, [d, t])
    if isinstance(v, datetime.date):
        d = v.strftime("%Y-%m-%d")
        return Desc("(VDate %s)" % ctext(d), None, [d])
    if isinstance(v, (bytes, bytearray)):
        return Desc("(VBytes %s)" % L.bytes_(bytes(v)), None, [], raw=bytes(v))
    if isinstance(v, dict):
        kvs = [(f"{k}", f"{x}") for k, x in v.items()]
        return Desc("(VDict %s)" % L.lst(L.pair(ctext(a), ctext(b)) for a, b in kvs), None, [t for kv in kvs for t in kv])
    if isinstance(v, datetime.timedelta):
        return Desc("(VInterval 0%%Z %s %s %s)" % (L.Z(v.days), L.Z(v.seconds), L.Z(v.microseconds * 1000)), None, [])
    if isinstance(v, (list, tuple)):
        items = [str(x) for x in v]
        return Desc("(VList %s)" % L.lst(ctext(x) for x in items), None, items)
    return Desc("(VOther %s)" % ctext(str(v)), str(v), [str(v)])


def describe(spec, v):
    import numpy

    k = spec[0]
    if k == "np":
        kind = spec[1]
        if kind == "bool":
            return Desc("(VNpBool %s)" % L.boolean(bool(v)), None, [])
        if kind in ("str", "bytes", "datetime64", "complex64", "complex128"):
            return Desc("(VNpOther %s)" % ctext(str(v)), str(v), [str(v)])
        if kind.startswith("float") or kind == "longdouble":
            f = float(v)
            return Desc("(VNpFloat %s %s)" % (L.boolean(_isnan(f)), ctext(str(f))), str(f), [])
        return Desc("(VNpInt %s)" % ctext(str(int(v))), str(int(v)), [])
    if k == "nparr":
        inner = describe_py(v.tolist())
        return Desc("(VNpArray %s)" % inner.term, None, inner.texts, raw=inner.raw)
    if k == "npsub":
        if type(v) is numpy.ndarray or not isinstance(v, numpy.ndarray):
            raise RuntimeError("C18: npsub spec did not build an ndarray-subclass instance: %r" % (spec,))
        inner = describe_py(v.tolist())
        return Desc("(VSub (VNpArray %s))" % inner.term, None, inner.texts, raw=inner.raw)
    if k == "nptd":
        is_nat = spec[1] is None
        linear = spec[2] in LINEAR_UNITS
        if is_nat:
            cnt = 0
        elif linear:
            cnt = int(spec[1]) * UNIT_NS[spec[2]]          # nanoseconds
        else:
            cnt = int(spec[1]) * (12 if spec[2] == "Y" else 1)   # months
        return Desc("(VNpTimedelta %s %s %s)" % (L.boolean(is_nat), L.boolean(linear), L.Z(cnt)), None, [])
    return describe_py(v)


def cell_term(spec):
    v = build(spec)
    d = describe(spec, v)
    s = str(v)
    cs = "None" if d.own == s else "(Some %s)" % ctext(s)
    return "(mkcell %s %s)" % (d.term, cs), d


# ---------------------------------------------------------------------------------------
def _schema(case):
    from orso.schema import FlatColumn, RelationSchema
    from orso.types import OrsoTypes

    if case["schema"] is None:
        return list(case["names"])
    cols = []
    for name, c in zip(case["names"], case["schema"]):
        kw = {"name": name}
        if c["type"] is not None:
            kw["type"] = OrsoTypes[c["type"]]
        if c.get("element_type") is not None:
            kw["element_type"] = OrsoTypes[c["element_type"]]
        if c.get("precision") is not None:
            kw["precision"] = c["precision"]
        if c.get("scale") is not None:
            kw["scale"] = c["scale"]
        cols.append(FlatColumn(**kw))
    return RelationSchema(name="t", columns=cols)


def _frame(case, rows, schema):
    from orso.dataframe import DataFrame

    if case["lazy"]:
        return DataFrame(rows=(r for r in rows), schema=schema)
    return DataFrame(rows=list(rows), schema=schema)


def _run(fn):
    try:
        return {"text": fn()}
    except Exception as e:  # the rendering raised
        return {"exc": type(e).__name__, "msg": str(e)[:120]}


def observe(case):
    from orso.display import ascii_table

    rows = [tuple(build(c) for c in r) for r in case["rows"]]
    schema = _schema(case)
    cfg = case["cfg"]

    # the integer arguments as plain ints or (round 4) as instances of an int subclass; display_width may be a bool
    num = _sub_class("SubInt") if cfg.get("argkind") == "sub" else int
    dw = cfg["dw"] if isinstance(cfg["dw"], bool) else num(cfg["dw"])

    def with_columns(fn):
        old = os.environ.get("COLUMNS")
        os.environ["COLUMNS"] = str(case["cols"])
        try:
            return fn()
        finally:
            if old is None:
                os.environ.pop("COLUMNS", None)
            else:
                os.environ["COLUMNS"] = old

    def disp():
        df = _frame(case, rows, schema)
        if cfg["tt"]:
            return with_columns(lambda: df.display(limit=num(cfg["limit"]), display_width=dw, max_column_width=num(cfg["mcw"]),
                                                   colorize=cfg["colorize"], show_types=cfg["show_types"]))
        return with_columns(lambda: ascii_table(df, limit=num(cfg["limit"]), display_width=dw, max_column_width=num(cfg["mcw"]),
                                                colorize=cfg["colorize"], top_and_tail=False, show_types=cfg["show_types"]))

    def md():
        return _frame(case, rows, schema).markdown(limit=num(case["md"]["limit"]), max_column_width=num(case["md"]["mcw"]))

    def st():
        return with_columns(lambda: str(_frame(case, rows, schema)))

    return {"display": _run(disp), "markdown": _run(md), "str": _run(st)}


# ---------------------------------------------------------------------------------------
# reading the real output
def parse_table(text):
    """-> dict(head=[...], body=[("row", label|None, line) | ("ellipsis", line)], widths=[...]) or None."""
    lines = [ANSI.sub("", ln) for ln in text.split("\n")]
    sep = [i for i, ln in enumerate(lines) if ln.startswith("╞")]
    if not sep or not lines[-1].startswith("└") or not lines[0].startswith("┌"):
        return None
    body = []
    for ln in lines[sep[0] + 1:-1]:
        if ln.startswith("│"):
            parts = ln.split("│")
            lab = None
            if len(parts) >= 3 and parts[1].strip().isdigit():
                lab = int(parts[1].strip())
            body.append(("row", lab, ln))
        else:
            body.append(("ellipsis", ln))
    return {"head": lines[:sep[0]], "sepline": lines[sep[0]], "body": body, "last": lines[-1], "lines": lines}


_NO_WIDTH_LIMIT = None


def _no_width_limit():
    """What ascii_table uses for display_width=False: the literal in the live source when it is still written as an assignment
    under `if not display_width`, else the documented value (docstring: "False disables (5000)").  Never raises: a rewritten
    width selection must still be run against the cases."""
    global _NO_WIDTH_LIMIT
    if _NO_WIDTH_LIMIT is None:
        from orso.display import ascii_table

        m = re.search(r"if not display_width:[^\n]*\n\s*display_width\s*=\s*(\d+)", inspect.getsource(ascii_table))
        _NO_WIDTH_LIMIT = int(m.group(1)) if m and int(m.group(1)) <= 5000 else 5000
    return _NO_WIDTH_LIMIT


def eff_dw(case):
    """The display width in force: an int as given; True = the terminal's (COLUMNS = case["cols"]); False = no limit."""
    dw = case["cfg"]["dw"]
    if dw is True:
        return case["cols"]
    if dw is False:
        return _no_width_limit()
    return dw


def expected_labels(n, limit, tt):
    """The property, literally: labels of the rows shown and the number of rows before the ellipsis (or None)."""
    if not tt:
        return list(range(1, min(n, limit) + 1)), None
    if n <= 2 * limit:
        return list(range(1, n + 1)), None
    return list(range(1, limit + 1)) + list(range(n - limit + 1, n + 1)), limit


def _descs(case):
    return [[cell_term(c)[1] for c in r] for r in case["rows"]]


def _type_texts(case):
    if case["schema"] is None:
        return ["0"] * len(case["names"])
    sch = _schema(case)
    out = []
    for col in sch.columns:
        out.append(str(col.type) + str(col.element_type) + str(col.precision) + str(col.scale))
    return out


def ascii_only(case):
    if not all(_is_ascii(n) for n in case["names"]):
        return False
    if not all(_is_ascii(t) for t in _type_texts(case)):
        return False
    for r in _descs(case):
        for d in r:
            if not all(_is_ascii(t) for t in d.texts) or not all(32 <= b <= 126 for b in d.raw):
                return False
    return True


def _shown_indices(n, limit, tt):
    labs, _ = expected_labels(n, limit, tt)
    return [x - 1 for x in labs]


def _rendered_rows(case):
    """Row indices whose cells display() or str() formats."""
    n = len(case["rows"])
    cfg = case["cfg"]
    return sorted(set(_shown_indices(n, cfg["limit"], cfg["tt"])) | set(_shown_indices(n, _str_limit(), True)))


_STR_LIMIT = None


def _str_limit():
    global _STR_LIMIT
    if _STR_LIMIT is None:
        from orso.dataframe import DataFrame

        m = re.search(r"size\s*:\s*int\s*=\s*(\d+)", inspect.getsource(DataFrame.__str__))
        _STR_LIMIT = int(m.group(1)) if m else 10
    return _STR_LIMIT


def known(case, obs):
    """F-C18-4 (known): printable-ASCII content holding the six characters backslash-u0001 in a column name or in a
    cell that display() or str() renders.  Nothing else is guarded."""
    if not ascii_only(case):
        return None     # the finding breaks the equal-width clause, which speaks about printable-ASCII content only
    if any(U0001 in nm for nm in case["names"]):
        return "F-C18-4"
    for i in _rendered_rows(case):
        for c in case["rows"][i]:
            d = cell_term(c)[1]
            if any(U0001 in t for t in d.texts) or U0001.encode() in d.raw:
                return "F-C18-4"
    return None


def _check_table(case, text, limit, tt, dw, show_types, what, mcw=None):
    n = len(case["rows"])
    p = parse_table(text)
    if p is None:
        return f"{what}: the output is not a table (top rule, separator rule and bottom rule expected)"
    want, ell = expected_labels(n, limit, tt)
    rows = [b for b in p["body"] if b[0] == "row"]
    ells = [i for i, b in enumerate(p["body"]) if b[0] == "ellipsis"]
    if len(rows) != len(want):
        return f"{what}: {len(want)} rows must be shown (n={n}, limit={limit}, top_and_tail={tt}), {len(rows)} row lines printed"
    if ell is None and ells:
        return f"{what}: no ellipsis line expected (n={n} <= 2*{limit} or head-only), found one at body line {ells[0]}"
    if ell is not None and ells != [ell]:
        return f"{what}: exactly one ellipsis line after the first {limit} rows expected (n={n} > 2*{limit}), found at body lines {ells}"
    if len(p["head"]) != (3 if show_types else 2):
        return f"{what}: top rule + column names" + (" + types" if show_types else "") + f" expected before the separator, found {len(p['head'])} lines"
    room = dw >= len(str(n + 1)) + 5       # "│", the index column (at most len(str(n + 1)) + 2 wide), "│" all fit
    for (_, lab, ln), w in zip(rows, want):
        if lab is None and room:
            return (f"{what}: a row line carries no readable label although the display width ({dw}) leaves room for the index column "
                    f"(expected label {w}): {ln!r}")
        if lab is not None and lab != w:
            return f"{what}: row line labelled {lab} where the true 1-based position is {w} (n={n}, limit={limit}): {ln!r}"
        if lab is not None and case.get("idcol") and case["names"]:
            parts = ln.split("│")
            if len(parts) >= 4 and len(parts[2]) >= 6 and parts[2].strip().isdigit():
                rid = int(parts[2].strip())
                if rid != 1000 + w - 1:
                    return f"{what}: the line labelled {w} shows row {rid - 1000 + 1} of the frame: {ln!r}"
    if ascii_only(case):
        box = [ln for ln in p["lines"] if ln and ln[0] in "┌│╞└"]
        ws = sorted(set(len(ln) for ln in box))
        if len(ws) > 1:
            bad = [ln for ln in box if len(ln) != len(box[0])][0]
            return f"{what}: printable-ASCII content but box lines have different printed widths {ws}: {box[0]!r} vs {bad!r}"
        if ws and ws[0] > dw:
            return f"{what}: box lines are {ws[0]} wide, display width is {dw}"
        # column names (and types) are printed
        hl = p["head"][1].split("│")
        if hl[-1] == "" and len(hl) == len(case["names"]) + 3:
            for cellt, nm in zip(hl[2:-1], case["names"]):
                w = len(cellt) - 2
                if cellt[1:-1].strip() != nm[:w].strip() and cellt[1:-1] != nm.center(w)[:w]:
                    return f"{what}: column name {nm!r} not printed in its header cell {cellt!r}"
            if show_types and case["schema"] is not None:
                tl = p["head"][2].split("│")
                if tl[-1] == "" and len(tl) == len(case["names"]) + 3:
                    for cellt, c in zip(tl[2:-1], case["schema"]):
                        got = cellt[1:-1].strip()
                        nm = c["type"] or "0"
                        if got and not (got.startswith(nm) or nm.startswith(got)):
                            return f"{what}: type row cell {cellt!r} does not show the column type {nm}"
        # round 7 - "shows the right rows": every shown cell of a plain kind is the row's own value, cut by nothing but
        # max_column_width - a column is as wide as its own widest shown cell (up to max_column_width) whatever the
        # other columns hold or are called
        if mcw is not None and ws and ws[0] < dw:
            why = _check_cells(case, [ln for _, _, ln in rows], [w - 1 for w in want], mcw, what)
            if why:
                return why
    return None


_PLAIN = ("none", "bool", "int", "float", "dec", "str")


def _plain_text(spec):
    """str() of a cell of a plain kind as the table must show it ("null" for None), else None (kind not judged here)."""
    if spec[0] not in _PLAIN:
        return None
    v = build(spec)
    if v is None:
        return "null"
    if isinstance(v, float) and v != v:
        return None
    s = str(v)
    return s if _is_ascii(s) else None


def _check_cells(case, lines, idx, mcw, what):
    ncols = len(case["names"])
    if ncols == 0:
        return None
    for ln, i in zip(lines, idx):
        parts = ln.split("\u2502")
        if len(parts) != ncols + 3 or parts[-1] != "":
            continue            # (cannot happen for printable-ASCII content on an uncut line; the width clauses judge it)
        for j, (cellt, spec) in enumerate(zip(parts[2:-1], case["rows"][i])):
            s = _plain_text(spec)
            if s is None or len(cellt) < 2:
                continue
            shown, w = cellt[1:-1], len(cellt) - 2
            if w < min(mcw, len(s)):
                return (f"{what}: row {i + 1}, column {j + 1} ({case['names'][j]!r}) holds {s!r} ({len(s)} characters, max_column_width {mcw}) "
                        f"but the column is only {w} wide and shows {shown!r}: {ln!r}")
            if shown not in (s.rjust(w)[:w], s.ljust(w)[:w]):
                return f"{what}: row {i + 1}, column {j + 1} ({case['names'][j]!r}) holds {s!r} but the table shows {shown!r}: {ln!r}"
    return None


def _check_markdown(case, text):
    """The Markdown rendering shows the first 'limit' rows, each plain cell being the row's own value cut by nothing but
    max_column_width.  Judged only when no name / cell text contains a vertical bar (the cells are then unambiguous)."""
    names, n, lim, mcw = case["names"], len(case["rows"]), case["md"]["limit"], case["md"]["mcw"]
    if not names or not ascii_only(case):
        return None
    shown = list(range(min(n, lim)))
    texts = [[_plain_text(c) for c in case["rows"][i]] for i in shown]
    if any("|" in nm for nm in names) or any(t is not None and "|" in t for r in texts for t in r):
        return None
    for i in shown:
        for c in case["rows"][i]:
            if _plain_text(c) is None:
                t = str(build(c))
                if "|" in t or not _is_ascii(t):      # (str() of an array holds line breaks)
                    return None
    lines = text.split("\n")
    if len(lines) != 2 + len(shown):
        return f"markdown: header, rule and {len(shown)} row lines expected (n={n}, limit={lim}), {len(lines)} lines printed"
    for k, i in enumerate(shown):
        ln = lines[2 + k]
        parts = ln.split(" | ")
        if len(parts) != len(names) + 1 or not parts[-1].endswith(" |"):
            continue
        parts[-1] = parts[-1][:-2]
        if parts[0].strip("| ") != str(i + 1):
            return f"markdown: row line {k + 1} labelled {parts[0].strip('| ')!r} where the true 1-based position is {i + 1}: {ln!r}"
        for j, (cellt, s) in enumerate(zip(parts[1:], texts[k])):
            if s is None:
                continue
            w = len(cellt)
            if w < min(mcw, len(s)):
                return (f"markdown: row {i + 1}, column {j + 1} ({names[j]!r}) holds {s!r} ({len(s)} characters, max_column_width {mcw}) "
                        f"but the column is only {w} wide and shows {cellt!r}: {ln!r}")
            alts = (s, "None") if s == "null" else (s,)        # Markdown prints a null as str(None)
            if all(cellt not in (a.rjust(w)[:w], a.ljust(w)[:w]) for a in alts):
                return f"markdown: row {i + 1}, column {j + 1} ({names[j]!r}) holds {s!r} but the table shows {cellt!r}: {ln!r}"
    return None


_STR_MCW = None


def _str_mcw():
    """max_column_width in force under str(): ascii_table's default (read from the live signature)."""
    global _STR_MCW
    if _STR_MCW is None:
        from orso.display import ascii_table

        d = inspect.signature(ascii_table).parameters["max_column_width"].default
        _STR_MCW = d if isinstance(d, int) and d >= 1 else 30
    return _STR_MCW


def oracle(case, obs):
    cfg = case["cfg"]
    for what in ("display", "markdown", "str"):
        if "exc" in obs[what]:
            return f"{what} must complete without error, raised {obs[what]['exc']}: {obs[what].get('msg', '')}"
    why = _check_table(case, obs["display"]["text"], cfg["limit"], cfg["tt"], eff_dw(case), cfg["show_types"], "display", cfg["mcw"])
    if why:
        return why
    why = _check_markdown(case, obs["markdown"]["text"])
    if why:
        return why
    st = obs["str"]["text"]
    if "\n" not in st:
        return "str: table and footer expected"
    table, _footer = st.rsplit("\n", 1)
    return _check_table(case, table, _str_limit(), True, case["cols"], False, "str", _str_mcw())


# ---------------------------------------------------------------------------------------
def digest(s):
    h = 7
    for ch in s:
        h = (h * 1000003 + ord(ch) + 1) % DIGEST_P
    return h


def _obs_term(o):
    if "exc" in o:
        if o["exc"] in ("ValueError", "TypeError", "UnicodeDecodeError"):
            return "(ORaise %s)" % o["exc"]
        return "OOther"
    return "(OText %s %s)" % (L.N(len(o["text"])), L.N(digest(o["text"])))


def _coltype_term(col):
    from orso.types import OrsoTypes

    name = ctext(str(col.type))
    if col.type == OrsoTypes.ARRAY:
        return "(CtArray %s %s)" % (name, L.opt(None if col.element_type is None else ctext(f"{col.element_type}")))
    if col.type == OrsoTypes.DECIMAL:
        return "(CtDecimal %s %s %s)" % (name, L.opt(None if col.precision is None else ctext(f"{col.precision}")), ctext(f"{col.scale}"))
    return "(CtPlain %s)" % name


def to_coq(case, obs):
    cfg = case["cfg"]
    if max(len(o.get("text", "")) for o in obs.values()) > 20000:  # resource bound on one Coq term
        return None
    rows = L.lst(L.lst(cell_term(c)[0] for c in r) for r in case["rows"])
    if case["schema"] is None:
        cts = "None"
    else:
        cts = "(Some %s)" % L.lst(_coltype_term(c) for c in _schema(case).columns)
    frame = "(mkframe %s %s %s %s)" % (L.lst(ctext(n) for n in case["names"]), cts, rows, L.boolean(case["lazy"]))
    config = "(mkconfig %s %s %s %s %s %s)" % (L.nat(cfg["limit"]), L.nat(eff_dw(case)), L.nat(cfg["mcw"]), L.boolean(cfg["colorize"]),
                                             L.boolean(cfg["tt"]), L.boolean(cfg["show_types"]))
    labels = "None"
    widths = "None"
    if "text" in obs["display"]:
        p = parse_table(obs["display"]["text"])
        if p is not None:
            rws = [b for b in p["body"] if b[0] == "row"]
            if all(b[1] is not None for b in rws):
                before = []
                k = 0
                for b in p["body"]:
                    if b[0] == "ellipsis":
                        before.append(k)
                    else:
                        k += 1
                labels = "(Some (%s, %s))" % (L.lst(L.nat(b[1]) for b in rws), L.lst(L.nat(x) for x in before))
            if ascii_only(case):
                widths = "(Some %s)" % L.lst(L.nat(len(ln)) for ln in p["lines"])
    # str() runs the same ascii_table under other settings: the model is evaluated on it for every second case
    with_str = (len(case["rows"]) + cfg["limit"]) % 2 == 0 or "exc" in obs["str"]
    term = "(mkcase %s %s %s %s %s %s %s %s %s %s)" % (
        frame, config, L.nat(case["md"]["limit"]), L.nat(case["md"]["mcw"]), L.nat(case["cols"]),
        _obs_term(obs["display"]), _obs_term(obs["markdown"]), L.opt(_obs_term(obs["str"]) if with_str else None), labels, widths)
    return ("render", term)


def nontrivial_key(case, obs):
    if not case["rows"] or not case["names"]:
        return None
    return None if "exc" in obs["display"] else repr(sorted(case.items()))


def _spec_kinds(spec):
    yield spec[0] if spec[0] not in ("np", "nparr", "sub", "npsub") else f"{spec[0]}:{spec[1]}"
    if spec[0] == "npsub" and spec[1] != "masked_const":
        yield f"npsub-dtype:{spec[2]}"


def classify(case, obs):
    cfg = case["cfg"]
    n = len(case["rows"])
    yield "lazy" if case["lazy"] else "eager"
    yield "top-and-tail" if cfg["tt"] else "head-only"
    yield "colour-on" if cfg["colorize"] else "colour-off"
    yield "types-on" if cfg["show_types"] else "types-off"
    yield "schema:relation" if case["schema"] is not None else "schema:names"
    yield "rows=0" if n == 0 else ("n<=limit" if n <= cfg["limit"] else ("n<=2*limit" if n <= 2 * cfg["limit"] else "n>2*limit"))
    yield "cols=%d" % len(case["names"])
    yield "ascii" if ascii_only(case) else "non-ascii"
    if len(set(case["names"])) < len(case["names"]):
        yield "repeated-column-name"
    if "text" in obs["display"]:
        w = max(len(ANSI.sub("", ln)) for ln in obs["display"]["text"].split("\n"))
        yield "cut-by-display-width" if w >= eff_dw(case) else "fits-display-width"
    if isinstance(cfg["dw"], bool):
        yield "display_width=%s" % cfg["dw"]
    if cfg.get("argkind") == "sub":
        yield "int-subclass-arguments"
    seen = set()
    for r in case["rows"]:
        for c in r:
            for k in _spec_kinds(c):
                if k not in seen:
                    seen.add(k)
                    yield "kind:" + k


# ---------------------------------------------------------------------------------------
# generators
ASCII_WORDS = ["", "a", "x y", "hello", "Lorem ipsum dolor", "it's", 'q"uote', "{k}", "[1]", "0", "null", "m", "mmmm", "a\\nb",
               "a|b", "  lead", "trail  ", "~tilde~", "The quick brown fox jumps over the lazy dog 0123456789"]
UNI_WORDS = ["日本語テキスト", "\U0001f44d\U0001f3fd", "café", "é", "a​b", "│─┘",
             "Жук", "שלום", "↵", "�", "\ud800", "\U0010ffff", "　wide space", "ＡＢ",
             # round 4: not NFC / case folding differs from lower(): decomposed e-acute and a-ring, sharp s, final sigma, dotless i,
             # dotted capital I, long s, Kelvin and Angstrom signs, fi ligature, Hangul jamo, precomposed vs decomposed
             "e\u0301te\u0301", "A\u030angstro\u0308m", "Stra\u00dfe", "\u03bf\u03b4\u03cc\u03c2", "\u0131\u0130i", "\u017ftop", "\u212a\u212b",
             "\ufb01n", "\u1112\u1161\u11ab", "\u00e9 e\u0301"]
CTRL_WORDS = ["a\nb", "a\r\nb", "\n\n\n\n\n\n", "tab\there", "nul\x00", "\x01OFFm", "a\x01b", "\x1b[31mred\x1b[0m", "\x1b", "esc\x1bno-m-after",
              "\x01", "\x7f", "\x85next", " ls", "\x0b\x0c", "x\x01REDmy\x01OFFmz", "\r", "m\x01m"]


def _rand_text(rng, mode):
    r = rng.random()
    if rng.random() < 0.003:  # the F-C18-4 class does occur (such cases run under its guard)
        return rng.choice(["\\u0001OFFm", "x\\u0001REDmy", "\\u0001"])
    if mode == "ascii" or r < 0.45:
        if rng.random() < 0.5:
            return rng.choice(ASCII_WORDS)
        return "".join(chr(rng.randint(32, 126)) for _ in range(rng.choice([1, 2, 3, 5, 8, 13, 21, 40])))
    if r < 0.65:
        return rng.choice(UNI_WORDS) + (rng.choice(ASCII_WORDS) if rng.random() < 0.3 else "")
    if r < 0.85:
        return rng.choice(CTRL_WORDS) + (rng.choice(ASCII_WORDS) if rng.random() < 0.3 else "")
    pool = [rng.randint(0, 0x10FFFF) for _ in range(3)] + [10, 13, 1, 27, 109, 0x3042, 0xFF01, 0x1F600, 0x300, 9, 32, 65]
    return "".join(chr(rng.choice(pool)) for _ in range(rng.randint(1, 12)))


BYTE_SEEDS = ["", "61", "ff", "fffe", "c3a9", "c3", "e282ac", "e282", "e28228", "f09f918d", "f09f91", "f09f", "f0", "f0808080", "eda080", "e08080",
              "c080", "c1bf", "f4908080", "f48fbfbf", "f5808080", "80", "bf80", "0a0d", "01", "1b5b33316d", "e0a080", "ed9fbf", "efbfbd", "00",
              "f09f918df0", "e2e282ac", "c3c3a9", "f0e282ac", "f09fe282ac"]


def _rand_bytes_hex(rng, mode):
    if mode == "ascii":
        return bytes(rng.randint(32, 126) for _ in range(rng.randint(0, 12))).hex()
    r = rng.random()
    if r < 0.5:
        return rng.choice(BYTE_SEEDS) + (rng.choice(BYTE_SEEDS) if rng.random() < 0.5 else "")
    if r < 0.75:
        return bytes(rng.choice([0x61, 0x80, 0xBF, 0xC2, 0xE0, 0xED, 0xF0, 0xF4, 0xA0, 0x9F, 0x90, 0x8F, 0xFF, 0x7F, 0xC3, 0xE2])
                     for _ in range(rng.randint(1, 8))).hex()
    return bytes(rng.randint(0, 255) for _ in range(rng.randint(1, 10))).hex()


def _rand_float_hex(rng):
    r = rng.random()
    if r < 0.15:
        return rng.choice(["nan", "inf", "-inf"])
    x = rng.choice([0.0, -0.0, 1.0, 1.5, -2.25, 1e-7, 1e22, 123456.789, 0.1, 3.141592653589793, 1e300, 5e-324, 2.0**53, 2.0**64,
                    rng.uniform(-1000, 1000)])
    return float(x).hex()


def _rand_simple(rng, mode):
    r = rng.random()
    if r < 0.2:
        return ["int", str(rng.choice([0, 1, -1, 7, 42, 2**31, -2**63, 10**18, 2**53 + 1, 2**64, -2**64 - 1, rng.randint(-10**6, 10**6)]))]
    if r < 0.4:
        return ["str", _rand_text(rng, mode)]
    if r < 0.5:
        return ["none"]
    if r < 0.6:
        return ["bool", rng.random() < 0.5]
    if r < 0.8:
        return ["float", _rand_float_hex(rng)]
    return ["dec", rng.choice(["0", "1", "1.0", "-0", "1.50", "-0.001", "1E+400", "NaN", "sNaN", "-Infinity", "123456789.123456789", "0E-10"])]


def _rand_us(rng):
    us = rng.choice([0, 0, 1, 500000, 250000, 999999, 123456, rng.randint(0, 999999)])
    if us % 10000 == 5000:  # exact .xx5 tie: binary64 decides, outside the exact model
        us += 1
    return us


def _rand_cell(rng, mode, kind=None):
    kind = kind or rng.choice(KIND_CHOICES)
    if kind == "simple":
        return _rand_simple(rng, mode)
    if kind == "bigint":
        return ["int", str(rng.choice([10**40, -10**100 + 1, 2**200]))]
    if kind == "bytes":
        return [rng.choice(["bytes", "bytearray"]), _rand_bytes_hex(rng, mode)]
    if kind == "date":
        return ["date", rng.choice([1, 999, 1970, 2024, 9999]), rng.randint(1, 12), rng.randint(1, 28)]
    if kind == "datetime":
        return ["datetime", rng.choice([1, 1970, 2024, 9999]), rng.randint(1, 12), rng.randint(1, 28), rng.randint(0, 23), rng.randint(0, 59),
                rng.randint(0, 59), rng.choice([0, 1, 999999]), rng.choice([None, None, 0, 330, -480])]
    if kind == "time":
        return ["time", rng.randint(0, 23), rng.randint(0, 59), rng.randint(0, 59), rng.choice([0, 5, 999999])]
    if kind == "td":
        return ["td", rng.choice([0, 0, 1, -1, 3, 400, 999999999, -999999999, rng.randint(-1000, 1000)]),
                rng.choice([0, 0, 1, 59, 60, 3599, 3600, 3661, 86399, rng.randint(0, 86399)]), _rand_us(rng)]
    if kind == "list":
        return [rng.choice(["list", "tuple"]), [_rand_simple(rng, mode) for _ in range(rng.choice([0, 1, 2, 3, 6]))]]
    if kind == "nested":
        return ["list", [["list", [_rand_simple(rng, mode)]], ["dict", [[["str", "k"], _rand_simple(rng, mode)]]]]]
    if kind == "dict":
        keys = []
        for _ in range(rng.choice([0, 1, 2, 4])):
            kk = rng.choice([["str", _rand_text(rng, mode)], ["int", str(rng.randint(0, 9))], ["none"], ["bool", True]])
            if kk not in keys and not (kk == ["bool", True] and ["int", "1"] in keys) and not (kk == ["int", "1"] and ["bool", True] in keys):
                keys.append(kk)
        return ["dict", [[kk, _rand_simple(rng, mode)] for kk in keys]]
    if kind == "other":
        return rng.choice([["set", [["int", "1"]]], ["set", []], ["complex", 1.0, -2.5], ["time", 1, 2, 3, 0]])
    if kind == "np":
        k = rng.choice(["int8", "int16", "int32", "int64", "uint64", "uint32", "uint16", "uint8", "float16", "float32", "float64", "longdouble",
                        "bool", "str", "bytes", "datetime64", "complex64", "complex128"])
        if k == "bool":
            return ["np", k, rng.random() < 0.5]
        if k == "str":
            return ["np", k, _rand_text(rng, mode).replace("\x00", "")]
        if k == "bytes":
            return ["np", k, _rand_bytes_hex(rng, mode).replace("00", "41")]
        if k == "datetime64":
            return ["np", k, rng.choice(["2020-01-01", "2020-01-01T00:00:01", "NaT", "1970-01-01T00:00:00.000001"])]
        if k in ("complex64", "complex128"):
            return ["np", k, rng.choice(["1+2j", "0j", "-1.5j"])]
        if k.startswith("float") or k == "longdouble":
            return ["np", k, rng.choice(["nan", "inf", float(0.1).hex(), float(1.5).hex(), float(-2.0).hex(), float(65504.0).hex()])]
        lo, hi = {"int8": (-128, 127), "int16": (-2**15, 2**15 - 1), "int32": (-2**31, 2**31 - 1), "int64": (-2**63, 2**63 - 1),
                  "uint64": (0, 2**64 - 1), "uint32": (0, 2**32 - 1), "uint16": (0, 2**16 - 1), "uint8": (0, 255)}[k]
        return ["np", k, str(rng.choice([lo, hi, 0, rng.randint(lo, hi)]))]
    if kind == "nparr":
        r = rng.random()
        if r < 0.3:
            return ["nparr", "int64", [rng.randint(-5, 5) for _ in range(rng.choice([0, 1, 3, 5]))]]
        if r < 0.45:
            return ["nparr", "int64", rng.randint(-5, 5)]  # 0-d
        if r < 0.6:
            return ["nparr", "float64", [rng.choice(["nan", float(1.5).hex(), float(-0.25).hex()]) for _ in range(rng.choice([1, 2, 4]))]]
        if r < 0.7:
            return ["nparr", "float64", rng.choice(["nan", float(2.5).hex()])]  # 0-d
        if r < 0.8:
            return ["nparr", "int64", [[1, 2], [3, 4]]]
        if r < 0.85:
            return ["nparr", "bool", [True, False]]
        if r < 0.93:
            return rng.choice(NPARR_MORE)
        return ["nparr", "object", [_rand_simple(rng, mode) for _ in range(rng.choice([1, 2, 3]))]]
    if kind == "sub":
        base = rng.choice(["int", "int", "float", "str", "bytes", "bytearray", "dec", "date", "datetime", "td", "dict", "list", "tuple"])
        if base == "int":
            spec = ["int", str(rng.choice([0, 1, -1, 5, 42, 10**18, 2**64, rng.randint(-10**6, 10**6)]))]
        elif base == "float":
            spec = ["float", _rand_float_hex(rng)]
        elif base == "str":
            spec = ["str", _rand_text(rng, mode)]
        elif base == "dec":
            spec = ["dec", rng.choice(["0", "1", "1.50", "NaN", "-Infinity", "1E+400"])]
        elif base in ("bytes", "bytearray"):
            spec = [base, _rand_bytes_hex(rng, mode)]
        elif base in ("list", "tuple"):
            spec = [base, [_rand_simple(rng, mode) for _ in range(rng.choice([0, 1, 2, 3]))]]
        else:
            spec = _rand_cell(rng, mode, base)
        return ["sub", rng.choice(SUBS[spec[0]]), spec]
    if kind == "npsub":
        r = rng.random()
        if r < 0.45:   # masked arrays: int / float / bool, 0..5 elements, any mask; 2-d; 0-d
            dtype = rng.choice(["int64", "int8", "uint16", "float64", "float32", "bool"])
            shape = rng.choice(["1d", "1d", "1d", "2d", "0d"])
            def item():
                if dtype == "bool":
                    return rng.random() < 0.5
                if dtype.startswith("float"):
                    return rng.choice(["nan", float(1.5).hex(), float(-0.25).hex(), float(2.0).hex()])
                return rng.randint(0, 100)
            if shape == "0d":
                return ["npsub", "masked", dtype, item(), rng.choice([None, True, False])]
            if shape == "2d":
                return ["npsub", "masked", dtype, [[item(), item()], [item(), item()]],
                        rng.choice([None, [[rng.random() < 0.5, rng.random() < 0.5], [rng.random() < 0.5, rng.random() < 0.5]]])]
            n = rng.choice([0, 1, 2, 3, 5])
            return ["npsub", "masked", dtype, [item() for _ in range(n)], rng.choice([None, [rng.random() < 0.5 for _ in range(n)]])]
        if r < 0.5:
            return ["npsub", "masked_const", None, None, None]
        if r < 0.7:    # numpy.matrix: always 2-d
            dtype = rng.choice(["int64", "float64", "bool", "uint8"])
            n = rng.choice([1, 2, 3])
            if dtype == "bool":
                rows_ = [[rng.random() < 0.5 for _ in range(n)] for _ in range(rng.choice([1, 2]))]
            elif dtype == "float64":
                rows_ = [[rng.choice(["nan", float(1.5).hex(), float(-2.0).hex()]) for _ in range(n)] for _ in range(rng.choice([1, 2]))]
            else:
                rows_ = [[rng.randint(0, 9) for _ in range(n)] for _ in range(rng.choice([1, 2]))]
            return ["npsub", "matrix", dtype, rows_, None]
        if r < 0.8:
            return rng.choice([["npsub", "recarray", "int64", [rng.randint(-5, 5) for _ in range(rng.choice([1, 2, 4]))], None],
                               ["npsub", "recarray", "struct", [[rng.randint(0, 9), rng.randint(0, 9)] for _ in range(rng.choice([0, 1, 2]))], None],
                               ["npsub", "recarray", "float64", [float(0.5).hex(), "nan"], None],
                               ["npsub", "chararray", "U", ["a", "bc"], None]])
        dtype = rng.choice(["int64", "float64", "bool", "U", "timedelta64[s]"])
        if dtype == "bool":
            data = [rng.random() < 0.5 for _ in range(rng.choice([0, 1, 2, 3]))]
        elif dtype == "float64":
            data = [rng.choice(["nan", float(1.5).hex(), float(0.1).hex()]) for _ in range(rng.choice([1, 2, 3]))]
        elif dtype == "U":
            data = [rng.choice(["a", "bc", "", "x y"]) for _ in range(rng.choice([1, 2]))]
        else:
            data = [rng.randint(-5, 5) for _ in range(rng.choice([0, 1, 2, 3]))]
        if rng.random() < 0.15 and dtype in ("int64", "float64", "bool"):
            data = data[0] if data else (True if dtype == "bool" else (float(2.5).hex() if dtype == "float64" else 3))   # 0-d
        return ["npsub", "subarr", dtype, data, None]
    if kind == "nptd":
        if rng.random() < 0.3:  # NaT and month / year units (F-C18-3, fixed)
            return rng.choice([["nptd", None, "ns"], ["nptd", None, "D"], ["nptd", None, "M"], ["nptd", 3, "M"], ["nptd", 2, "Y"], ["nptd", 0, "M"],
                               ["nptd", -14, "M"], ["nptd", rng.randint(-500, 500), "M"], ["nptd", rng.randint(-50, 50), "Y"]])
        unit = rng.choice(LINEAR_UNITS)
        bound = min(10**6, (2**52) // UNIT_NS[unit])
        count = rng.choice([0, 1, -1, 59, 61, 3600, 86400, 90061, rng.randint(-bound, bound)])
        count = max(-bound, min(bound, count))
        if (count * UNIT_NS[unit]) % 10**7 == 5 * 10**6:
            count += 1
        return ["nptd", count, unit]
    raise KeyError(kind)


KIND_CHOICES = ["simple"] * 6 + ["bytes", "bytes", "date", "datetime", "time", "td", "td", "list", "list", "dict", "dict", "nested", "other",
                                 "np", "np", "nparr", "nptd", "bigint", "sub", "sub", "npsub", "npsub"]
# ndarray cells of the remaining dtypes and shapes (tolist() gives str / bytes / date / datetime / timedelta / int / complex / tuple items)
NPARR_MORE = [
    ["nparr", "uint8", [0, 255]], ["nparr", "int16", [[-1], [2]]], ["nparr", "float32", [float(0.5).hex(), "nan"]],
    ["nparr", "float16", [float(1.5).hex()]], ["nparr", "U", ["a", "bc", ""]], ["nparr", "U", "solo"], ["nparr", "S", ["61", "ff"]],
    ["nparr", "datetime64[D]", ["2020-01-01", "NaT"]], ["nparr", "datetime64[D]", "2020-02-29"], ["nparr", "datetime64[s]", ["1970-01-01T00:00:01"]],
    ["nparr", "datetime64[s]", "2024-05-06T07:08:09"], ["nparr", "datetime64[ns]", ["2020-01-01T00:00:00.000000001"]],
    ["nparr", "timedelta64[s]", [1, 90061]], ["nparr", "timedelta64[s]", 3661], ["nparr", "timedelta64[ns]", [1, 2]],
    ["nparr", "timedelta64[s]", ["NaT"]], ["nparr", "timedelta64[D]", "NaT"], ["nparr", "timedelta64[M]", [14]],
    ["nparr", "complex128", [[1.0, 2.0], [0.0, -1.5]]], ["nparr", "struct", [[1, 2], [3, 4]]], ["nparr", "struct", [5, 6]],
    ["nparr", "float64", []], ["nparr", "float64", [[], []]], ["nparr", "uint8", [[[0, 1]]]], ["nparr", "bool", True], ["nparr", "bool", []],
    ["nparr", "uint64", [2**64 - 1, 2**53 + 1]], ["nparr", "int64", [-2**63]],
]
TYPES = ["INTEGER", "VARCHAR", "DOUBLE", "BOOLEAN", "BLOB", "DATE", "TIMESTAMP", "TIME", "INTERVAL", "STRUCT", "JSONB", "NULL", None]


def _rand_schema(rng, ncols):
    cols = []
    for _ in range(ncols):
        r = rng.random()
        if r < 0.2:
            cols.append({"type": "ARRAY", "element_type": rng.choice([None, "VARCHAR", "INTEGER"]), "precision": None, "scale": None})
        elif r < 0.4:
            p = rng.choice([None, 10, 38])
            cols.append({"type": "DECIMAL", "element_type": None, "precision": p, "scale": None if p is None else rng.choice([0, 2])})
        else:
            cols.append({"type": rng.choice(TYPES), "element_type": None, "precision": None, "scale": None})
    return cols


def _rand_case(rng, mode=None, n=None, limit=None, lazy=None, tt=None):
    mode = mode or rng.choice(["ascii", "ascii", "any", "any", "any"])
    ncols = rng.choice([0, 1, 1, 2, 2, 3, 3, 4, 5])
    if n is None:
        n = rng.choice([0, 1, 2, 3, 4, 5, 7, 9, 12, 16, 17, 20, 30, rng.randint(0, 30)])
    if limit is None:
        limit = rng.randint(1, 8)
    idcol = ncols > 0 and rng.random() < 0.5
    colkinds = [rng.choice(KIND_CHOICES + ["mixed"] * 6) for _ in range(ncols)]
    rows = []
    for i in range(n):
        row = []
        for j in range(ncols):
            if j == 0 and idcol:
                row.append(["int", str(1000 + i)])
            elif rng.random() < 0.12:
                row.append(["none"])
            else:
                row.append(_rand_cell(rng, mode, None if colkinds[j] == "mixed" else colkinds[j]))
        rows.append(row)
    names = []
    for j in range(ncols):
        nm = rng.choice(["a", "id", "name", "a_rather_long_column_name_for_a_table", "", " x "]) if rng.random() < 0.7 else _rand_text(rng, mode)
        names.append(nm)
    if ncols > 1 and rng.random() < 0.3:      # round 7: a column name occurs more than once (columns are positional)
        for j in range(1, ncols):
            if rng.random() < 0.6:
                names[j] = names[rng.randrange(j)]
    dw = rng.choice([1, 2, 3, 5, 8, 13, 20, 30, 50, 80, 120, 200, rng.randint(1, 200)])
    if rng.random() < 0.08:      # round 4: display_width given as a bool (terminal width / no limit)
        dw = rng.random() < 0.6
    case = {
        "names": names,
        "schema": _rand_schema(rng, ncols) if rng.random() < 0.4 else None,
        "rows": rows,
        "lazy": (rng.random() < 0.5) if lazy is None else lazy,
        "idcol": idcol,
        "cfg": {"limit": limit, "dw": dw, "mcw": rng.choice([1, 2, 3, 4, 5, 8, 12, 20, 32, 40]), "colorize": rng.random() < 0.5,
                "tt": (rng.random() < 0.7) if tt is None else tt, "show_types": rng.random() < 0.5},
        "md": {"limit": rng.choice([1, 2, 5, 8, 40]), "mcw": rng.choice([1, 3, 8, 30])},
        "cols": rng.choice([1, 10, 40, 80, 200]),
    }
    if rng.random() < 0.08:      # round 4: limit / widths passed as instances of an int subclass
        case["cfg"]["argkind"] = "sub"
    return case


def _ints_case(n, limit, lazy, tt, **kw):
    cfg = {"limit": limit, "dw": 80, "mcw": 32, "colorize": False, "tt": tt, "show_types": False}
    cfg.update(kw)
    return {"names": ["id", "v"], "schema": None, "rows": [[["int", str(1000 + i)], ["str", "r%d" % i]] for i in range(n)], "lazy": lazy,
            "idcol": True, "cfg": cfg, "md": {"limit": 5, "mcw": 30}, "cols": 80}


W_F1 = _ints_case(7, 2, False, True)                       # F-C18-1 (fixed): eager, 7 rows, limit 2 -> labels 1 2 ... 6 7
W_F2 = {"names": ["b"], "schema": None, "rows": [[["bytes", "fffe"]], [["bytearray", "6162c3"]]], "lazy": False, "idcol": False,
        "cfg": {"limit": 5, "dw": 80, "mcw": 32, "colorize": True, "tt": True, "show_types": True},
        "md": {"limit": 5, "mcw": 30}, "cols": 80}         # F-C18-2 (fixed): bytes that are not UTF-8
def _one_cell(spec, **kw):
    cfg = {"limit": 5, "dw": 80, "mcw": 32, "colorize": False, "tt": True, "show_types": False}
    cfg.update(kw)
    return {"names": ["t"], "schema": None, "rows": [[spec]], "lazy": False, "idcol": False, "cfg": cfg, "md": {"limit": 5, "mcw": 30}, "cols": 80}


W_F3 = [_one_cell(["nptd", None, "ns"]), _one_cell(["nptd", 3, "M"]), _one_cell(["nptd", None, "M"]), _one_cell(["nptd", -2, "Y"], colorize=True)]
W_F5 = _ints_case(100, 100, True, False)                   # F-C18-5 (fixed): lazy, head-only, label 100
KNOWN_WITNESSES = {
    "F-C18-4": {"names": ["t"], "schema": None, "rows": [[["str", "plain text"]], [["str", "\\u0001OFFm"]]], "lazy": False, "idcol": False,
                "cfg": {"limit": 5, "dw": 80, "mcw": 32, "colorize": False, "tt": True, "show_types": False},
                "md": {"limit": 5, "mcw": 30}, "cols": 80},
}


def known_still_fails(fid, w):
    """Evaluate the property on the witness with the guard lifted."""
    obs = observe(w)
    return oracle(w, obs)


def corpus():
    yield W_F1
    yield dict(W_F1, lazy=True)
    yield _ints_case(7, 2, False, True, colorize=True, show_types=True)
    yield _ints_case(5, 2, False, True)
    yield _ints_case(4, 2, False, True)
    yield _ints_case(30, 8, False, True)
    yield W_F2
    yield dict(W_F2, lazy=True)
    yield {"names": [], "schema": None, "rows": [], "lazy": False, "idcol": False,
           "cfg": {"limit": 5, "dw": 80, "mcw": 32, "colorize": False, "tt": True, "show_types": True}, "md": {"limit": 5, "mcw": 30}, "cols": 80}
    # a lazy head-only frame whose labels just fit (99 rows shown)
    yield _ints_case(99, 99, True, False)
    yield _ints_case(120, 100, False, False)
    for w in W_F3:
        yield w
        yield dict(w, lazy=True)
    yield W_F5
    yield _ints_case(130, 120, True, False, colorize=True)
    yield _ints_case(1, 3, True, False)
    yield _ints_case(0, 3, True, False)
    # three-digit labels next to few shown rows
    yield _ints_case(105, 2, False, True)
    yield _ints_case(105, 2, True, True)
    yield _ints_case(1003, 3, False, True, colorize=True)


def kind_table():
    """Round 4: one spec (at least) for every cell class the formatter can meet, deterministic: every listed kind, every builtin /
    library SUBCLASS instance of it, every ndarray SUBCLASS (masked array, matrix, recarray, chararray, user subclass) x
    int / float / bool / other dtypes x 0-d / 1-d (0, 1, several elements) / 2-d, the remaining ndarray dtypes, every NumPy scalar kind."""
    f15, f25, fm = float(1.5).hex(), float(2.5).hex(), float(-0.25).hex()
    t = [["none"], ["bool", True], ["bool", False], ["int", "0"], ["int", "1"], ["int", "-7"], ["int", str(2**53 + 1)], ["int", str(2**64)],
         ["float", float(1.0).hex()], ["float", float(-0.0).hex()], ["float", "nan"], ["float", "-inf"], ["float", float(2.0**64).hex()],
         ["dec", "1"], ["dec", "1.0"], ["dec", "NaN"], ["dec", "-0"], ["str", "text"], ["str", ""], ["str", "a\nb"],
         ["str", "e\u0301"], ["str", "Stra\u00dfe \u03c2 \u0131 \u017f \u212a"], ["bytes", "6162"], ["bytes", "fffe"], ["bytearray", "c3"],
         ["date", 2024, 2, 29], ["datetime", 2024, 5, 6, 7, 8, 9, 0, None], ["datetime", 2024, 5, 6, 7, 8, 9, 1, 330], ["time", 1, 2, 3, 0],
         ["td", 1, 3661, 250000], ["td", -1, 0, 0], ["td", 0, 0, 0], ["list", []], ["list", [["int", "1"], ["none"]]], ["tuple", [["str", "a"]]],
         ["dict", []], ["dict", [[["str", "k"], ["int", "1"]], [["int", "2"], ["none"]]]], ["set", [["int", "1"]]], ["complex", 1.0, -2.5],
         ["nptd", None, "ns"], ["nptd", 14, "M"], ["nptd", 90061, "s"]]
    # builtin / library subclass instances
    bases = {"int": [["int", "5"], ["int", "0"], ["int", str(2**64)]], "float": [["float", f15], ["float", "nan"]], "str": [["str", "abc"], ["str", ""]],
             "bytes": [["bytes", "6162ff"]], "bytearray": [["bytearray", "6162"]], "dec": [["dec", "1.50"], ["dec", "NaN"]],
             "date": [["date", 2020, 1, 2]], "datetime": [["datetime", 2020, 1, 2, 3, 4, 5, 0, None]], "td": [["td", 1, 5, 0]],
             "dict": [["dict", [[["str", "a"], ["int", "1"]]]], ["dict", []]], "list": [["list", [["int", "1"], ["int", "2"]]], ["list", []]],
             "tuple": [["tuple", [["int", "1"], ["str", "b"]]], ["tuple", []]]}
    for base, specs in bases.items():
        for cls in SUBS[base]:
            for sp in specs:
                t.append(["sub", cls, sp])
    # ndarray subclasses
    data = {"int64": (3, [4], [1, 2, 3], [[1, 2], [3, 4]]), "float64": (f25, [f15], [f15, fm, "nan"], [[f15, f25], [fm, f15]]),
            "bool": (True, [False], [True, False, True], [[True, False], [False, True]]), "uint8": (7, [9], [0, 255], [[1, 2], [3, 4]])}
    for dtype, (d0, d1, dn, d2) in data.items():
        t.append(["npsub", "masked", dtype, d0, None])
        t.append(["npsub", "masked", dtype, d0, True])
        t.append(["npsub", "masked", dtype, d1, [False]])
        t.append(["npsub", "masked", dtype, d1, [True]])
        t.append(["npsub", "masked", dtype, dn, [False, True, False] if len(dn) == 3 else [False, True]])
        t.append(["npsub", "masked", dtype, dn, None])
        t.append(["npsub", "masked", dtype, d2, [[False, True], [True, False]]])
        t.append(["npsub", "masked", dtype, [], None])
        t.append(["npsub", "matrix", dtype, d2, None])
        t.append(["npsub", "matrix", dtype, [d1], None])        # 1 x 1
        t.append(["npsub", "matrix", dtype, [dn], None])        # 1 x n
        for cls in ("recarray", "subarr"):
            for d in (d0, d1, dn, d2, []):
                t.append(["npsub", cls, dtype, d, None])
    t += [["npsub", "masked_const", None, None, None], ["npsub", "masked", "U", ["a", "bc"], [False, True]],
          ["npsub", "masked", "timedelta64[s]", [1, 2], [True, False]], ["npsub", "masked", "datetime64[D]", ["2020-01-01", "NaT"], None],
          ["npsub", "recarray", "struct", [[1, 2], [3, 4]], None], ["npsub", "recarray", "struct", [], None],
          ["npsub", "subarr", "U", ["a", "bc"], None], ["npsub", "subarr", "S", ["61", "ff"], None], ["npsub", "subarr", "timedelta64[s]", [1, 2], None],
          ["npsub", "subarr", "timedelta64[s]", 61, None], ["npsub", "subarr", "datetime64[D]", "2020-02-29", None],
          ["npsub", "subarr", "complex128", [[1.0, 2.0]], None], ["npsub", "subarr", "object", [["int", "1"], ["none"]], None],
          ["npsub", "chararray", "U", ["a", "bc"], None], ["npsub", "chararray", "S", ["61", "62"], None]]
    # plain ndarray cells of every dtype / shape, NumPy scalars of every kind
    t += [["nparr", dtype, d] for dtype, ds in data.items() for d in ds] + NPARR_MORE
    t += [["nparr", "object", [["int", "1"], ["str", "x"], ["none"]]], ["nparr", "object", [["sub", "SubInt", ["int", "4"]]]]]
    for k, v in (("int8", "-128"), ("int16", "-5"), ("int32", "7"), ("int64", str(-2**63)), ("uint8", "255"), ("uint16", "9"), ("uint32", "7"),
                 ("uint64", str(2**64 - 1)), ("float16", f15), ("float32", "nan"), ("float64", float(0.1).hex()), ("longdouble", float(0.1).hex()),
                 ("longdouble", "nan"), ("bool", True), ("bool", False), ("str", "x y"), ("bytes", "6162"), ("datetime64", "NaT"),
                 ("datetime64", "2020-01-01"), ("complex64", "1+2j"), ("complex128", "-1.5j")):
        t.append(["np", k, v])
    return t


def kind_cases(tier):
    """The kind table as frames: every spec alone in a one-cell frame (quick: eager / lazy and the colour alternating with the
    index, neighbours in the table being the same class with another shape; thorough: each both eager and lazy), then six at a
    time in the value column of a labelled two-column frame, eager and lazy (limit 3: all shown; limit 1: ellipsis), the
    other settings cycling."""
    t = kind_table()
    for i, spec in enumerate(t):
        if tier != "quick" or i % 2 == 0:
            yield _one_cell(spec, colorize=bool(i % 4 < 2), show_types=bool((i // 2) % 2))
        if tier != "quick" or i % 2 == 1:
            yield dict(_one_cell(spec, colorize=not (i % 4 < 2), tt=bool(i % 3)), lazy=True)
    for j in range(0, len(t), 6):
        chunk = t[j:j + 6]
        rows = [[["str", "r%d" % (j + i)], sp] for i, sp in enumerate(chunk)]
        k = j // 6
        for lazy in (False, True):
            cfg = {"limit": 3 if k % 3 else 1, "dw": [200, True, 40, False][k % 4], "mcw": [32, 6, 12][k % 3], "colorize": bool(k % 2) != lazy,
                   "tt": k % 5 != 4, "show_types": bool(k % 2)}
            if k % 4 == 2:
                cfg["argkind"] = "sub"
            yield {"names": ["kind", "value"], "schema": None, "rows": rows, "lazy": lazy, "idcol": False, "cfg": cfg,
                   "md": {"limit": 5, "mcw": 30}, "cols": [80, 30, 200][k % 3]}


def name_cases(tier):
    """Round 7: columns are positional - frames whose column names repeat (join results, select(['a', 'a'])-like shapes) or
    merely look alike, the LATER same-named column holding the wider values (and the other way round), every plain kind in
    the wide column, name list and RelationSchema, eager and lazy, head-only and top-and-tail, types on and off, and
    max_column_width at widest-cell - 1 / widest cell / + 1.  Deterministic; all go through Coq."""
    f = float(1234.5678).hex()
    shapes = [
        (["id", "id", "km"], [[["int", "1"], ["str", "Ganymede"], ["int", "5262"]], [["int", "2"], ["str", "Callisto"], ["int", "4821"]],
                              [["int", "3"], ["str", "Io"], ["int", "3643"]]]),
        (["v", "v", "v"], [[["int", "1"], ["int", "1234567"], ["str", "abcdefghijkl"]]]),
        (["a", "b", "a"], [[["str", "x"], ["int", "0"], ["dec", "12345.678901"]], [["none"], ["none"], ["float", f]]]),
        (["n", "n"], [[["str", "a long text first"], ["int", "7"]], [["str", "b"], ["bool", True]]]),
        (["k", "k", "k", "k"], [[["bool", False], ["int", str(-2**63)], ["none"], ["str", "wide enough to matter"]],
                                [["none"], ["none"], ["float", f], ["none"]]]),
        (["", "", ""], [[["int", "1"], ["int", "22222222"], ["int", "333333333333"]]]),
        (["a", "A", "a ", " a"], [[["int", "1"], ["int", "123456"], ["str", "seven77"], ["str", "eight888"]]]),
        (["name", "name"], [[["int", str(1000 + i)], ["str", "row number %d" % i]] for i in range(7)]),
        (["t", "u", "t", "u"], [[["str", "ab"], ["str", "cd"], ["list", [["int", "1"], ["int", "2"]]], ["dict", [[["str", "key"], ["int", "1"]]]]]]),
    ]
    k = 0
    for names, rows in shapes:
        widest = max(len(_plain_text(c) or "") for r in rows for c in r)
        for variant in range(4 if tier == "quick" else 12):
            lazy = bool((variant + k) % 2)
            rel = (variant // 2 + k) % 2 == 1
            cfg = {"limit": [5, 2, 1, 3][(variant + k) % 4], "dw": [200, False, 120, True][(variant + k) % 4],
                   "mcw": [32, widest - 1, widest, widest + 1][(variant + 2 * k) % 4], "colorize": bool((variant // 2 + k) % 2),
                   "tt": (variant + k) % 3 != 0, "show_types": bool((variant + k // 2) % 2)}
            schema = None
            if rel:
                schema = [{"type": ["INTEGER", "VARCHAR", None, "DOUBLE"][(j + k) % 4], "element_type": None, "precision": None, "scale": None}
                          for j in range(len(names))]
            yield {"names": list(names), "schema": schema, "rows": rows, "lazy": lazy, "idcol": names == ["name", "name"], "cfg": cfg,
                   "md": {"limit": [5, 1, 40][(variant + k) % 3], "mcw": [30, widest, 3][(variant + k) % 3]}, "cols": 200}
            # the mirror frame: columns (and names) in reverse order - the wide column now comes first
            if variant % 2 == 0:
                yield {"names": list(reversed(names)), "schema": None if schema is None else list(reversed(schema)),
                       "rows": [list(reversed(r)) for r in rows], "lazy": not lazy, "idcol": False, "cfg": dict(cfg),
                       "md": {"limit": 5, "mcw": 30}, "cols": 200}
            k += 1


def exhaustive(tier):
    top = 20 if tier == "quick" else 30
    lims = range(1, 5) if tier == "quick" else range(1, 9)

    def it():
        for n in range(0, top + 1):
            for limit in lims:
                for lazy in (False, True):
                    for tt in (False, True):
                        yield _ints_case(n, limit, lazy, tt)
        yield from kind_cases(tier)
        yield from name_cases(tier)

    return it(), (f"every (rows 0..{top}) x (limit {lims[0]}..{lims[-1]}) x eager/lazy x head-only/top-and-tail on a two-column id frame; "
                  f"the cell-class table ({len(kind_table())} specs: every listed kind, every builtin-subclass instance, every ndarray subclass x "
                  "dtype x shape, every ndarray dtype, every NumPy scalar kind) one cell per frame eager and lazy and six per frame; "
                  "the repeated / look-alike column-name table (9 shapes x settings, mirrored)")


def generate(rng, tier):
    count = 700 if tier == "quick" else 14000
    for i in range(count):
        yield _rand_case(rng)
    # the known-finding classes do occur (skipped under their guard)
    for w in KNOWN_WITNESSES.values():
        yield w


def search(rng):
    while True:
        r = rng.random()
        if r < 0.1:
            yield _ints_case(rng.randint(95, 130), rng.randint(1, 8), rng.random() < 0.5, True)
        elif r < 0.15:
            yield _ints_case(rng.randint(95, 130), rng.randint(95, 130), True, False)
        elif r < 0.25:
            cs = list(name_cases("thorough"))
            yield cs[rng.randrange(len(cs))]
        elif r < 0.45:
            yield _ints_case(rng.randint(0, 30), rng.randint(1, 8), rng.random() < 0.5, rng.random() < 0.8,
                             colorize=rng.random() < 0.5, show_types=rng.random() < 0.5)
        else:
            yield _rand_case(rng)


def shrink(case):
    rows = case["rows"]
    n = len(rows)
    if n > 1:
        yield dict(case, rows=rows[: n // 2])
        yield dict(case, rows=rows[:-1])
        yield dict(case, rows=rows[1:], idcol=False)
    ncols = len(case["names"])
    for j in range(ncols):
        if ncols > 1:
            yield dict(case, names=case["names"][:j] + case["names"][j + 1:], rows=[r[:j] + r[j + 1:] for r in rows],
                       schema=None if case["schema"] is None else case["schema"][:j] + case["schema"][j + 1:], idcol=case["idcol"] and j != 0)
    if case["schema"] is not None:
        yield dict(case, schema=None)
    for i in range(n):
        for j in range(ncols):
            if rows[i][j] != ["none"] and not (case["idcol"] and j == 0):
                nr = [list(r) for r in rows]
                nr[i][j] = ["none"]
                yield dict(case, rows=nr)
    cfg = case["cfg"]
    if cfg["limit"] > 1:
        yield dict(case, cfg=dict(cfg, limit=cfg["limit"] - 1))
    if cfg["colorize"]:
        yield dict(case, cfg=dict(cfg, colorize=False))
    if cfg["show_types"]:
        yield dict(case, cfg=dict(cfg, show_types=False))
    if cfg["dw"] != 200 or isinstance(cfg["dw"], bool):
        yield dict(case, cfg=dict(cfg, dw=200))
    if cfg.get("argkind") == "sub":
        yield dict(case, cfg={k: v for k, v in cfg.items() if k != "argkind"})
    if cfg["mcw"] != 32:
        yield dict(case, cfg=dict(cfg, mcw=32))
