"""C02 - Dictionary records map onto rows by field name.

Two kinds of case (both JSON):

  {"kind": "row", "fields": [name, ...], "pool": [vspec, ...], "dict": [[key, vi], ...],
   "lookups": [[name, di|None], ...]}
      a Row class over `fields` (Row.create_class), one dictionary given as its items in insertion
      order (vi = index into the value pool), and names to look up with Row.get (di = pool index of the
      default, None = default omitted).
  {"kind": "frame", "pool": [...], "dicts": [[[key, vi], ...], ...], "appends": [[[key, vi], ...], ...],
   "gen": bool}
      DataFrame(dicts) (from a list, or from a generator when gen), then df.append(d) for each of appends.
  Both kinds take an optional "mapping": the class the records are handed over as - "dict" (default), "ordered"
  (OrderedDict), "subclass" (plain dict subclass), "missingdict" (dict subclass with __missing__), "counter",
  "defaultdict" (factory set, so a [] on an absent key would insert), "userdict" (non-dict Mapping).  The harness
  also records whether every mapping it handed over is unchanged afterwards (same class, same items).

vspec = ["none"] | ["bool", b] | ["int", n] | ["float", hex] | ["str", s] | ["bytes", hex] | ["list", [vspec]] |
        ["tuple", [vspec]] | ["dict", [[k, vspec]]] | ["date", iso] | ["datetime", iso] | ["decimal", s]

Canonicalisation: a value is identified by a type-strict structural key (so 1, 1.0 and True are three values,
NaN is one value, -0.0 differs from 0.0); its id is 0 for None, else 1 + the first pool index holding an equal
value; a value the implementation returns that is not in the pool gets id -1.  JSON members are identified by the
class of their decoded document (classes measured with orjson.dumps(value, default=str) on each pool value;
null is class 0, unknown -1).  Exceptions are recorded as ["raise", class name]."""
import datetime
import decimal
import itertools
import json

from vlib import coqlit as L

ID = "C02"
READY = True
TECHNIQUE = ("Coq proof by list induction over an association-list model of dict -> row extraction, the DataFrame(dicts) constructor, "
             "append and the Row views + model/implementation correspondence evaluated in Coq, exhaustive small scope")
LEVEL_TEXT = ("Machine-checked Coq theorems, for every field list (duplicates included), every dictionary with distinct keys and every "
              "sequence of dictionaries, over abstract key/value types with decidable key equality: the extracted row has one cell per field "
              "holding the dictionary's value for that name or None, is invariant under any permutation of the insertion order and under keys "
              "outside the field list; DataFrame(dicts) takes its columns from the first dictionary, has exactly one row per dictionary each as wide "
              "as the column list (empty sequence included), append adds one such row; as_map/keys/values/as_dict/as_json reproduce the "
              "field-to-value association; get returns the value, or the default for an absent name, and never raises. The model is tied to "
              "row.py / dataframe.py / the compiled extractor by running the real Row, DataFrame and append on all cases of a small scope and on "
              "random larger ones and evaluating the model on the same inputs inside Coq; a literal property oracle on the implementation "
              "supplies replayable failing inputs.")
LEVEL_NOTE = ("Trusted: Coq kernel + vm_compute; the hand-written association-list model of CPython dict lookup/insertion order (validated by the "
              "correspondence run, not verified); the harness's identification of values by a type-strict structural key. The compiled extractor is "
              "exercised as the shipped .so. Value encoding is outside the property: as_json is compared as (name, class of the decoded JSON value) "
              "with the per-value rendering taken from orjson itself, and generated values are restricted to ones orjson/ormsgpack can encode "
              "(ints within 64 bits, str-keyed dicts). Field names are text; dictionary keys are text except in the keyed model/stream, where a key is "
              "a key object (str / number / None / bytes / other hashable numbered by Python's own equality in the harness) with its str() "
              "beside it. No axioms (Print Assumptions: closed).")
DESIGN_REF = "DESIGN.md section 8, C02"
COQ_IMPORTS = "From Orso Require Import Model.C02."
COQ_CHECKS = {"row": "c02_row_check", "frame": "c02_frame_check", "session": "c02_session_check", "source": "c02_source_check", "producer": "c02_producer_check", "keyed": "c02_keyed_check"}
COQ_SHOW = {"row": "c02_row_show", "frame": "c02_frame_show", "session": "c02_session_show", "source": "c02_source_show", "producer": "c02_producer_show", "keyed": "c02_keyed_show"}
RULE = ("row cases: field list (0..6 names, duplicates, confusable/Unicode/empty names) x dictionary (sub/superset of the fields, shuffled "
        "insertion order, values of every kind incl. None/NaN/-0.0/nested) x looked-up names present and absent, run through "
        "Row.create_class(fields)(dict) (also with reversed insertion order), DataFrame(rows=[], schema=fields).append(dict), the five views "
        "and get; frame cases: sequences of 0..6 dictionaries through DataFrame(list or generator) then append(dict); records handed over as dict, OrderedDict, dict subclasses, Counter, defaultdict and UserDict "
        "(input mapping must stay unchanged); sessions: histories that create several row classes / frames (dict-aware and tuples-only classes, from_arrow, "
        "DataFrame(dicts), DataFrame(rows=[], schema)) - mostly over the same name list - and use every handle after the others exist; "
        "sources: the records handed to DataFrame(...) through each of 9 carrier classes (containers, one-shot iterators, readers over "
        "read-once state, a wrapper round a generator), with records read from the object before and the object used again afterwards; "
        "producers: generators that keep editing the record objects they have handed over while DataFrame(...) is still reading; "
        "keyed: DataFrame(dictionaries) over dictionaries whose keys are not all strings (int, bool, float, Decimal, None, bytes, tuple, date keys; "
        "keys that collide after str() such as 1 and '1'; later dictionaries with look-alike keys), then append by name; "
        "exhaustive over the stated "
        "small scope, then random; a case is non-trivial when some field/column receives a non-None value from a dictionary; distinct by canonical JSON")
TRUSTED = [
    "C02 model (coq/Model/C02.v): a dictionary is an association list in insertion order with pairwise different keys; PyDict_GetItem / dict.get "
    "are the same lookup; dict(pairs) keeps first-insertion order with the last value; tuple.index finds the first occurrence",
    "modelled, not verified: CPython dict/tuple semantics and the compiled extract_dict_columns (shipped .so, cannot be rebuilt), orjson's "
    "per-value rendering (enters as the function jenc, measured per case)",
]
ASSUMPTIONS = [
    "field names are text (str); dictionary keys are text, or (keyed stream) any hashable whose equality is Python's own; dictionaries have pairwise different keys (NoDup hypothesis of the permutation theorem)",
    "values are identified by a type-strict structural key in the harness; the theorems are over an arbitrary value type",
    "values are encodable by orjson/ormsgpack (append sizes the row with ormsgpack; as_json uses orjson)",
]
KNOWN_WITNESSES = {}

# ------------------------------------------------------------------ values
def _build(s):
    t = s[0]
    if t == "none":
        return None
    if t == "bool":
        return bool(s[1])
    if t == "int":
        return int(s[1])
    if t == "float":
        return float("nan") if s[1] == "nan" else float.fromhex(s[1])
    if t == "str":
        return s[1]
    if t == "bytes":
        return bytes.fromhex(s[1])
    if t == "list":
        return [_build(x) for x in s[1]]
    if t == "tuple":
        return tuple(_build(x) for x in s[1])
    if t == "dict":
        return {k: _build(v) for k, v in s[1]}
    if t == "date":
        return datetime.date.fromisoformat(s[1])
    if t == "datetime":
        return datetime.datetime.fromisoformat(s[1])
    if t == "decimal":
        return decimal.Decimal(s[1])
    raise KeyError(t)


def _canon(v):
    if v is None:
        return "N"
    if isinstance(v, bool):
        return "B%d" % v
    if isinstance(v, int):
        return "I%d" % v
    if isinstance(v, float):
        return "Fnan" if v != v else "F" + v.hex()
    if isinstance(v, str):
        return "S" + repr(v)
    if isinstance(v, bytes):
        return "Y" + v.hex()
    if isinstance(v, list):
        return "L[" + ",".join(_canon(x) for x in v) + "]"
    if isinstance(v, tuple):
        return "T[" + ",".join(_canon(x) for x in v) + "]"
    if isinstance(v, dict):
        return "D{" + ",".join(_canon(k) + ":" + _canon(x) for k, x in v.items()) + "}"
    if isinstance(v, datetime.datetime):
        return "t" + v.isoformat()
    if isinstance(v, datetime.date):
        return "d" + v.isoformat()
    if isinstance(v, decimal.Decimal):
        return "M" + str(v)
    return "?" + type(v).__name__ + ":" + repr(v)


class _Pool:
    def __init__(self, specs):
        self.objs = [_build(s) for s in specs]
        self.table = {"N": 0}
        self.ids = []
        for i, o in enumerate(self.objs):
            self.ids.append(self.table.setdefault(_canon(o), i + 1))

    def vid(self, x):
        return self.table.get(_canon(x), -1)

    def jtable(self):
        """value id -> JSON class, classes numbered by first occurrence, null = 0."""
        import orjson

        classes = {"null": 0}
        tbl = [[0, 0]]
        seen = {0}
        for o, i in zip(self.objs, self.ids):
            if i in seen:
                continue
            seen.add(i)
            doc = _jdoc(orjson.dumps(o, default=str))
            tbl.append([i, classes.setdefault(doc, len(classes))])
        self.jclasses = classes
        return tbl

    def jclass(self, decoded):
        return self.jclasses.get(json.dumps(decoded), -1)


def _hook(pairs):
    return ["obj"] + [[k, v] for k, v in pairs]


def _jdoc(raw):
    return json.dumps(json.loads(raw, object_pairs_hook=_hook))


def _name(k):
    return k if isinstance(k, str) else "?" + type(k).__name__ + ":" + repr(k)


def _exc(e):
    return ["raise", type(e).__name__]


def _mkdict(items, pool):
    d = {}
    for k, vi in items:
        d[k] = pool.objs[vi]
    if len(d) != len(items):
        raise ValueError("case dictionary repeats a key")
    return d


MAPPINGS = ["dict", "ordered", "subclass", "missingdict", "counter", "defaultdict", "userdict"]


class _PlainSubclass(dict):
    pass


class _MissingDict(dict):
    """dict subclass whose [] never fails - .get / dict(data) must not be affected by it."""

    def __missing__(self, key):
        return "MISSING"


def _mkrecord(items, pool, mapping="dict"):
    """The case dictionary as a mapping of the requested class, filled by item assignment in insertion order."""
    import collections

    if mapping == "dict":
        return _mkdict(items, pool)
    if mapping == "ordered":
        m = collections.OrderedDict()
    elif mapping == "subclass":
        m = _PlainSubclass()
    elif mapping == "missingdict":
        m = _MissingDict()
    elif mapping == "counter":
        m = collections.Counter()
    elif mapping == "defaultdict":
        m = collections.defaultdict(lambda: "MISSING")
    elif mapping == "userdict":
        m = collections.UserDict()
    else:
        raise KeyError(mapping)
    for k, vi in items:
        m[k] = pool.objs[vi]
    if len(m) != len(items):
        raise ValueError("case dictionary repeats a key")
    return m


def _snap(m):
    return (type(m), [(k, id(v)) for k, v in m.items()])


# ------------------------------------------------------------------ observe
def _observe_row(case):
    from orso.dataframe import DataFrame
    from orso.row import Row

    pool = _Pool(case["pool"])
    fields = list(case["fields"])
    out = {"jtable": pool.jtable()}
    names = ["row", "row_rev", "append", "as_map", "as_dict", "values", "keys", "as_json"]
    mapping = case.get("mapping", "dict")
    d = _mkrecord(case["dict"], pool, mapping)
    before = _snap(d)
    unchanged = True
    try:
        factory = Row.create_class(fields)
        row = factory(d)
        unchanged = unchanged and _snap(d) == before
        if not isinstance(row, tuple):
            raise TypeError("Row(dict) is not a tuple")
        out["row"] = [pool.vid(x) for x in tuple(row)]
    except Exception as e:
        for n in names:
            out[n] = _exc(e)
        out["get"] = [_exc(e) for _ in case["lookups"]]
        out["input_unchanged"] = _snap(d) == before
        return out
    try:
        d_rev = _mkrecord(case["dict"][::-1], pool, mapping)
        before_rev = _snap(d_rev)
        out["row_rev"] = [pool.vid(x) for x in tuple(Row.create_class(tuple(fields))(d_rev))]
        unchanged = unchanged and _snap(d_rev) == before_rev
    except Exception as e:
        out["row_rev"] = _exc(e)
    try:
        df = DataFrame(rows=[], schema=fields)
        d_app = _mkrecord(case["dict"], pool, mapping)
        before_app = _snap(d_app)
        df.append(d_app)
        unchanged = unchanged and _snap(d_app) == before_app
        rows = [[pool.vid(x) for x in tuple(r)] for r in df]
        if df.rowcount != len(rows):
            raise ValueError("rowcount disagrees with iteration")
        out["append"] = rows
    except Exception as e:
        out["append"] = _exc(e)
    out["input_unchanged"] = unchanged
    try:
        m = row.as_map
        if not isinstance(m, tuple):
            raise TypeError("as_map is not a tuple")
        out["as_map"] = [[_name(k), pool.vid(v)] for k, v in m]
    except Exception as e:
        out["as_map"] = _exc(e)
    try:
        m = row.as_dict
        if type(m) is not dict:
            raise TypeError("as_dict is not a dict")
        out["as_dict"] = [[_name(k), pool.vid(v)] for k, v in m.items()]
    except Exception as e:
        out["as_dict"] = _exc(e)
    try:
        out["values"] = [pool.vid(x) for x in row.values]
    except Exception as e:
        out["values"] = _exc(e)
    try:
        out["keys"] = [_name(k) for k in row.keys()]
    except Exception as e:
        out["keys"] = _exc(e)
    try:
        doc = json.loads(row.as_json, object_pairs_hook=_hook)
        if not (isinstance(doc, list) and doc and doc[0] == "obj"):
            raise TypeError("as_json is not a JSON object")
        out["as_json"] = [[k, pool.jclass(v)] for k, v in doc[1:]]
    except Exception as e:
        out["as_json"] = _exc(e)
    # the views are views: a caller editing the dictionary it was handed must not change what
    # the row reports afterwards (re-read after mutating the returned object)
    try:
        m1 = row.as_dict
        m1["__verif_edit__"] = 1
        for k in list(m1):
            if k != "__verif_edit__":
                m1[k] = "edited"
                break
        m2 = row.as_dict
        out["as_dict_again"] = [[_name(k), pool.vid(v)] if k != "__verif_edit__" else ["__verif_edit__", -1] for k, v in m2.items()] \
            if all((k == "__verif_edit__") or (v is not "edited") for k, v in m2.items()) else ["edited-value-visible"]
    except Exception as e:
        out["as_dict_again"] = _exc(e)
    gets = []
    for name, di in case["lookups"]:
        try:
            r = row.get(name) if di is None else row.get(name, pool.objs[di])
            gets.append(pool.vid(r))
        except Exception as e:
            gets.append(_exc(e))
    out["get"] = gets
    return out


def _observe_frame(case):
    from orso.dataframe import DataFrame
    from orso.row import Row

    pool = _Pool(case["pool"])
    out = {}
    mapping = case.get("mapping", "dict")
    if case["kind"] == "keyed":  # keys are value specs (int, None, bytes, tuple ... as well as str), see _keyed_*
        dicts = [_mkrecord([[_build(k), vi] for k, vi in items], pool, mapping) for items in case["dicts"]]
        apps = [_mkrecord([[_build(k), vi] for k, vi in items], pool, mapping) for items in case["appends"]]
    else:
        dicts = [_mkrecord(items, pool, mapping) for items in case["dicts"]]
        apps = [_mkrecord(items, pool, mapping) for items in case["appends"]]
    before = [_snap(m) for m in dicts + apps]
    try:
        df = DataFrame(_mkcarrier(_carrier_of(case), dicts))
    except Exception as e:
        for n in ("columns", "rows", "columns_after", "rows_after", "dicts_after"):
            out[n] = _exc(e)
        out["input_unchanged"] = [_snap(m) for m in dicts + apps] == before
        return out

    def snapshot(tag):
        try:
            out["columns" + tag] = [_name(c) for c in df.column_names]
        except Exception as e:
            out["columns" + tag] = _exc(e)
        try:
            rows = list(df)
            ok = all(isinstance(r, Row) and tuple(r._fields) == tuple(df.column_names) for r in rows)
            if df.rowcount != len(rows) or df.shape != (len(rows), len(df.column_names)) or len(df) != len(rows):
                raise ValueError("rowcount/shape/len disagree with iteration")
            if [tuple(df.row(i)) for i in range(len(rows))] != [tuple(r) for r in rows] and not any(
                    x != x for r in rows for x in r if isinstance(x, float)):
                raise ValueError("row(i) disagrees with iteration")
            if not ok:
                raise TypeError("a stored row is not a Row over the frame's columns")
            out["rows" + tag] = [[pool.vid(x) for x in tuple(r)] for r in rows]
        except Exception as e:
            out["rows" + tag] = _exc(e)

    snapshot("")
    try:
        for m in apps:
            df.append(m)
    except Exception as e:
        for n in ("columns_after", "rows_after", "dicts_after"):
            out[n] = _exc(e)
        out["input_unchanged"] = [_snap(m) for m in dicts + apps] == before
        return out
    out["input_unchanged"] = [_snap(m) for m in dicts + apps] == before
    snapshot("_after")
    try:
        out["dicts_after"] = [[[_name(k), pool.vid(v)] for k, v in r.as_dict.items()] for r in df]
    except Exception as e:
        out["dicts_after"] = _exc(e)
    return out


# ------------------------------------------------------------------ sessions
# {"kind": "session", "pool": [...], "ops": [op, ...], "mapping": ...}    several row classes / frames in one process
#   ["class", fields, tuples_only]   Row.create_class(fields, tuples_only)         -> class handle (numbered from 0)
#   ["arrow", cols, [[vi, ...], ...]] DataFrame.from_arrow(table with those columns) -> frame handle
#   ["frame", [items, ...], gen]     DataFrame(records)                             -> frame handle
#   ["named", cols]                  DataFrame(rows=[], schema=cols)                -> frame handle
#   ["rowdict", c, items]            class c applied to a record (dict-aware classes only) -> row handle
#   ["rowtuple", c, [vi, ...]]       class c applied to a tuple                     -> row handle
#   ["append", f, items]             frame f .append(record)   (not on Arrow frames: their schema validates)
#   ["rows", f]                      column_names and rows of frame f
#   ["view", r]                      keys / cells / as_dict of row r, read again
# observed per op: ["class"] | ["frame", cols, rows] | ["row", keys, cells, as_dict items] | ["raise", E]
def _spec_kind(spec):
    if spec[0] == "int" and -2 ** 63 <= int(spec[1]) < 2 ** 63:
        return "int"
    return "str" if spec[0] == "str" else None


def _session_handles(ops, pool_specs=None):
    """(classes, frames, rows) created by the ops, or None when an op uses a handle it may not use.
    frames: False = read from Arrow (no append), True = takes any dictionary, ("strict", cols, kinds) = derived from an
    Arrow frame: append validates against the Arrow schema, so the record must have exactly the columns (and, when the
    pool is given, values of each column's type)."""
    classes, frames, rows = [], [], 0
    for op in ops:
        k = op[0]
        if k == "class":
            classes.append(bool(op[2]))
        elif k == "arrow":
            if len(set(op[1])) != len(op[1]) or any(len(r) != len(op[1]) for r in op[2]) or (op[2] and not op[1]):
                return None  # (a table without columns has no rows)
            kinds = None
            if pool_specs is not None:
                kinds = [_spec_kind(pool_specs[op[2][0][j]]) if op[2] else "int" for j in range(len(op[1]))]
            frames.append(("arrow", list(op[1]), kinds))
        elif k in ("frame", "named"):
            frames.append(True)
        elif k == "reframe":
            if not (0 <= op[1] < len(frames)):
                return None
            frames.append(True)
        elif k == "derive":
            if not (0 <= op[1] < len(frames)) or op[2] not in ("head", "slice", "query") or op[3] < 0 or (op[2] == "query" and op[3] < 99):
                return None
            base = frames[op[1]]
            frames.append(True if base is True else ("strict", base[1], base[2]))
        elif k == "rowdict":
            if not (0 <= op[1] < len(classes)) or classes[op[1]]:
                return None
            rows += 1
        elif k == "rowtuple":
            if not (0 <= op[1] < len(classes)):
                return None
            rows += 1
        elif k == "append":
            if not (0 <= op[1] < len(frames)) or (frames[op[1]] is not True and frames[op[1]][0] != "strict"):
                return None
            fr = frames[op[1]]
            if fr is not True:
                keys = [key for key, _ in op[2]]
                if sorted(keys) != sorted(fr[1]):
                    return None
                if pool_specs is not None and any(_spec_kind(pool_specs[vi]) != fr[2][fr[1].index(key)] or fr[2][fr[1].index(key)] is None
                                                  for key, vi in op[2]):
                    return None
        elif k == "rows":
            if not (0 <= op[1] < len(frames)):
                return None
        elif k == "view":
            if not (0 <= op[1] < rows):
                return None
        else:
            return None
    return classes, frames, rows


def _arrow_table(cols, rows, pool):
    import pyarrow

    arrays = []
    for j in range(len(cols)):
        cells = [pool.objs[r[j]] for r in rows]
        arrays.append(pyarrow.array(cells) if cells else pyarrow.array([], type=pyarrow.int64()))
    return pyarrow.Table.from_arrays(arrays, names=list(cols))


def _observe_session(case):
    from orso.dataframe import DataFrame
    from orso.row import Row

    if _session_handles(case["ops"], case["pool"]) is None:
        raise ValueError("invalid session")
    pool = _Pool(case["pool"])
    mapping = case.get("mapping", "dict")
    classes, frames, rows = [], [], []
    inherited = {}  # id(frame) -> number of leading Row objects taken over from another frame (they keep their own class)
    outs = []
    unchanged = True
    # Every name is given a suffix unique to this session when it is handed to the implementation (and stripped from what
    # comes back), so that state the implementation may keep per name list cannot leak from one case into the next:
    # a failing session then fails on its own, in a fresh process too, and shrinking keeps the calls that matter.
    import hashlib

    tag = "\x1f" + hashlib.sha1(json.dumps([case["ops"], mapping], sort_keys=True).encode()).hexdigest()[:8]

    def enc(k):
        return k + tag

    def dec(k):
        k = _name(k)
        return k[: -len(tag)] if k.endswith(tag) else "?untagged:" + k

    def encd(items):
        return [[enc(k), vi] for k, vi in items]

    def frame_out(df):
        cols = tuple(df.column_names)
        n = df.rowcount
        rs = list(df)
        if n != len(rs) or len(df) != n or df.shape != (n, len(cols)):
            raise ValueError("rowcount/shape/len disagree with iteration")
        if not all(isinstance(r, Row) and tuple(r._fields) == cols for r in rs[inherited.get(id(df), 0):]):
            raise TypeError("a stored row is not a Row over the frame's columns")
        return ["frame", [dec(c) for c in cols], [[pool.vid(x) for x in tuple(r)] for r in rs]]

    def row_out(r):
        if not isinstance(r, tuple):
            raise TypeError("not a tuple")
        m = r.as_dict
        if type(m) is not dict:
            raise TypeError("as_dict is not a dict")
        return ["row", [dec(k) for k in r.keys()], [pool.vid(x) for x in tuple(r)], [[dec(k), pool.vid(v)] for k, v in m.items()]]

    for op in case["ops"]:
        k = op[0]
        table = _arrow_table([enc(c) for c in op[1]], op[2], pool) if k == "arrow" else None  # a bad table is the harness's fault
        rec = _mkrecord(encd(op[2]), pool, mapping) if k in ("rowdict", "append") else None
        recs = [_mkrecord(encd(items), pool, mapping) for items in op[1]] if k == "frame" else []
        names = [enc(c) for c in op[1]] if k in ("class", "named") else [enc(c) for c in op[2]] if k == "reframe" else None
        before = [_snap(m) for m in recs + ([rec] if rec is not None else [])]
        try:
            if k == "class":
                classes.append(None)
                classes[-1] = Row.create_class(tuple(names), tuples_only=True) if op[2] else Row.create_class(names)
                outs.append(["class"])
            elif k == "arrow":
                frames.append(None)
                frames[-1] = DataFrame.from_arrow(table)
                outs.append(frame_out(frames[-1]))
            elif k == "frame":
                frames.append(None)
                frames[-1] = DataFrame((m for m in recs) if op[2] else recs)
                outs.append(frame_out(frames[-1]))
            elif k == "named":
                frames.append(None)
                frames[-1] = DataFrame(rows=[], schema=names)
                outs.append(frame_out(frames[-1]))
            elif k == "rowdict":
                rows.append(None)
                rows[-1] = classes[op[1]](rec)
                outs.append(row_out(rows[-1]))
            elif k == "rowtuple":
                rows.append(None)
                rows[-1] = classes[op[1]](tuple(pool.objs[vi] for vi in op[2]))
                outs.append(row_out(rows[-1]))
            elif k == "append":
                frames[op[1]].append(rec)
                outs.append(frame_out(frames[op[1]]))
            elif k == "rows":
                outs.append(frame_out(frames[op[1]]))
            elif k == "view":
                outs.append(row_out(rows[op[1]]))
            elif k == "reframe":
                frames.append(None)
                base = frames[op[1]]
                taken = list(base)
                frames[-1] = DataFrame(rows=taken, schema=names)
                inherited[id(frames[-1])] = len(taken)
                outs.append(frame_out(frames[-1]))
            elif k == "derive":
                frames.append(None)
                base = frames[op[1]]
                frames[-1] = base.head(op[3]) if op[2] == "head" else base.slice(0, op[3]) if op[2] == "slice" else base.query(lambda r: True)
                inherited[id(frames[-1])] = inherited.get(id(base), 0)
                outs.append(frame_out(frames[-1]))
        except Exception as e:
            outs.append(_exc(e))
        unchanged = unchanged and [_snap(m) for m in recs + ([rec] if rec is not None else [])] == before
    return {"outs": outs, "input_unchanged": unchanged}


def _oracle_session(case, obs):
    """The property per call, with the little bookkeeping it needs (which names a handle was created with)."""
    pool = _Pool(case["pool"])
    if obs.get("input_unchanged") is False:
        return "the mappings handed to Row(...) / DataFrame(...) / append(...) must be left unchanged"
    classes, frames, rows = [], [], []
    for i, (op, out) in enumerate(zip(case["ops"], obs["outs"])):
        k = op[0]
        where = f"op {i} {op[0]}"
        if _is_raise(out):
            return f"{where}: must not raise, raised {out[1]}"
        if k == "class":
            classes.append(list(op[1]))
            want = ["class"]
        elif k == "arrow":
            frames.append([list(op[1]), [[pool.ids[vi] for vi in r] for r in op[2]]])
            want = ["frame"] + frames[-1]
        elif k == "frame":
            cols = [key for key, _ in op[1][0]] if op[1] else []
            frames.append([cols, [[_assoc(items, pool).get(c, 0) for c in cols] for items in op[1]]])
            want = ["frame"] + frames[-1]
        elif k == "named":
            frames.append([list(op[1]), []])
            want = ["frame"] + frames[-1]
        elif k == "rowdict":
            D = _assoc(op[2], pool)
            fields = classes[op[1]]
            rows.append([fields, [D.get(f, 0) for f in fields], True])
            want = None
        elif k == "rowtuple":
            rows.append([classes[op[1]], [pool.ids[vi] for vi in op[2]], False])
            want = None
        elif k == "append":
            D = _assoc(op[2], pool)
            fr = frames[op[1]]
            fr[1] = fr[1] + [[D.get(c, 0) for c in fr[0]]]
            want = ["frame"] + fr
        elif k == "rows":
            want = ["frame"] + frames[op[1]]
        elif k == "reframe":
            frames.append([list(op[2]), list(frames[op[1]][1])])
            want = ["frame"] + frames[-1]
        elif k == "derive":
            frames.append([list(frames[op[1]][0]), list(frames[op[1]][1][: op[3]])])
            want = ["frame"] + frames[-1]
        if k in ("rowdict", "rowtuple", "view"):
            fields, cells, from_dict = rows[op[1]] if k == "view" else rows[-1]
            if out[0] != "row" or out[1] != fields or out[2] != cells:
                return (f"{where}: the row must have the names {fields} of the class it was built with and the cells {cells} "
                        f"(each field's value at its position, 0=None when absent), got names {out[1] if len(out) > 1 else None} cells {out[2] if len(out) > 2 else None}")
            if from_dict or (len(set(fields)) == len(fields) == len(cells)):
                if dict((a, b) for a, b in out[3]) != dict(zip(fields, cells)) or len(out[3]) != len(set(fields)):
                    return f"{where}: as_dict must be the association {dict(zip(fields, cells))}, got {out[3]}"
        elif out != want:
            if k == "class":
                return f"{where}: expected a class"
            return (f"{where}: the frame must have the columns {want[1]} it was created with and the rows {want[2]} "
                    f"(one per dictionary, each field's value at its column, 0=None when absent), got columns {out[1] if len(out) > 1 else None} rows {out[2] if len(out) > 2 else None}")
    if len(obs["outs"]) != len(case["ops"]):
        return "one observation per call expected"
    return None


def _coq_sout(o):
    if _is_raise(o):
        return "(SORaise %s)" % (o[1] if o[1] in _EXN else "OtherError")
    if o[0] == "class":
        return "SOClass"
    if o[0] == "frame":
        return "(SOFrame %s %s)" % (_keys(o[1]), _zss(o[2]))
    return "(SORow %s %s %s)" % (_keys(o[1]), _zs(o[2]), _kvs(o[3]))


def _coq_sop(op, pool):
    k = op[0]
    if k == "class":
        return "(SClass %s %s)" % (_keys(op[1]), L.boolean(op[2]))
    if k == "arrow":
        return "(SArrow %s %s)" % (_keys(op[1]), _zss([[pool.ids[vi] for vi in r] for r in op[2]]))
    if k == "frame":
        return "(SFrame (%s : list zdict))" % L.lst(_zdict(d, pool) for d in op[1])
    if k == "named":
        return "(SNamed %s)" % _keys(op[1])
    if k == "rowdict":
        return "(SRowDict %s %s)" % (L.nat(op[1]), _zdict(op[2], pool))
    if k == "rowtuple":
        return "(SRowTuple %s %s)" % (L.nat(op[1]), _zs([pool.ids[vi] for vi in op[2]]))
    if k == "append":
        return "(SAppend %s %s)" % (L.nat(op[1]), _zdict(op[2], pool))
    if k == "rows":
        return "(SRows %s)" % L.nat(op[1])
    if k == "view":
        return "(SView %s)" % L.nat(op[1])
    if k == "reframe":
        return "(SReframe %s %s)" % (L.nat(op[1]), _keys(op[2]))
    if k == "derive":
        return "(SDerive %s %s)" % (L.nat(op[1]), L.nat(op[3]))
    raise KeyError(k)


def _session_to_coq(case, obs):
    pool = _Pool(case["pool"])
    return ("session", "((%s : list (sop key Z)), (%s : list (sout key Z)))" % (
        L.lst(_coq_sop(op, pool) for op in case["ops"]), L.lst(_coq_sout(o) for o in obs["outs"])))


_CREATORS = ["class", "tclass", "arrow", "frame", "named"]


def _creator_ops(kind, fields, tag):
    """(creating op, ops that use the created handle) - values 1..3 of _XPOOL under a, b, c."""
    val = {"a": 1, "b": 2, "c": 3}
    if kind == "class":
        return ["class", fields, False], lambda h: [["rowdict", h, [["c", 3], ["b", 2], ["a", 1]][tag % 2:]]]
    if kind == "tclass":
        return ["class", fields, True], lambda h: [["rowtuple", h, [val[f] for f in fields]]]
    if kind == "arrow":
        return ["arrow", fields, [[val[f] for f in fields], [3 for _ in fields]]], lambda h: [["rows", h]]
    if kind == "frame":
        return ["frame", [[[f, val[f]] for f in fields]], bool(tag % 2)], lambda h: [["append", h, [["b", 3], ["c", 1], ["a", 2]][: 3 - tag % 2]], ["rows", h]]
    return ["named", fields], lambda h: [["append", h, [["b", 2], ["a", 1]]], ["append", h, [["c", 1]]]]


def _enumerated_session(creators):
    """creators: [(kind, fields)]: create all, then use every handle (in creation order when the number of creators is
    odd, in reverse otherwise), then read every row and frame again."""
    ops, uses = [], []
    nclass = nframe = 0
    for tag, (kind, fields) in enumerate(creators):
        op, use = _creator_ops(kind, list(fields), tag)
        ops.append(op)
        if kind in ("class", "tclass"):
            uses.append(use(nclass))
            nclass += 1
        else:
            uses.append(use(nframe))
            nframe += 1
    if len(creators) % 2 == 0:
        uses.reverse()
    nrows = 0
    for u in uses:
        for op in u:
            ops.append(op)
            if op[0] in ("rowdict", "rowtuple"):
                nrows += 1
    ops += [["view", r] for r in range(nrows)] + [["rows", f] for f in range(nframe)]
    return {"kind": "session", "pool": _XPOOL, "ops": ops, "mapping": "dict"}


def _session_exhaustive(tier):
    lists = [["a", "b"], ["b", "a"], ["a"]] if tier == "quick" else [["a", "b"], ["b", "a"], ["a"], ["a", "b", "c"]]
    cre = [(k, f) for f in lists for k in _CREATORS]
    for c1 in cre:
        yield _enumerated_session([c1])
        for c2 in cre:
            yield _enumerated_session([c1, c2])
    same = [(k, ["a", "b"]) for k in _CREATORS]
    for c1 in same:
        for c2 in same:
            for c3 in (same if tier == "thorough" else same[:2]):
                yield _enumerated_session([c1, c2, c3])


def _derived_exhaustive(tier):
    """A base frame (from dictionaries / names-only with appends / read from Arrow) over [a,b] or [b,a]; a second frame made
    from its Row objects (under the same, permuted, new, shorter or longer names) or by head / slice / query; a dictionary in
    another key order appended to the second frame (and to the base); everything read again."""
    val = {"a": 1, "b": 2, "c": 3}
    for fields in (["a", "b"], ["b", "a"]):
        bases = {
            "frame": [["frame", [[[f, val[f]] for f in fields], [[fields[1], 3]]], False]],
            "named": [["named", fields], ["append", 0, [["b", 2], ["a", 1]]], ["append", 0, [["a", 3]]]],
            "arrow": [["arrow", fields, [[val[f] for f in fields], [3 for _ in fields]]]],
        }
        for bk, base in bases.items():
            steps = [["reframe", 0, list(fields)], ["reframe", 0, fields[::-1]], ["reframe", 0, ["c", fields[0]]], ["reframe", 0, [fields[0]]],
                     ["reframe", 0, fields + ["c"]], ["derive", 0, "head", 1], ["derive", 0, "head", 5], ["derive", 0, "slice", 2],
                     ["derive", 0, "query", 99], ["derive", 0, "head", 0]]
            for st in steps:
                strict = st[0] == "derive" and bk == "arrow"
                ops = list(base) + [st]
                ops.append(["append", 1, [["b", 2], ["a", 1]] if strict else [["c", 3], ["b", 2], ["a", 1]]])
                if not strict:
                    ops.append(["append", 1, [["b", 1]]])
                if bk != "arrow":
                    ops.append(["append", 0, [["b", 3], ["a", 2]]])
                ops += [["derive", 1, "head", 9], ["append", 2, [["a", 3], ["b", 1]]], ["rows", 0], ["rows", 1], ["rows", 2]]
                yield {"kind": "session", "pool": _XPOOL, "ops": ops, "mapping": "dict"}
                if tier == "thorough":
                    for mk in MAPPINGS[1:]:
                        yield {"kind": "session", "pool": _XPOOL, "ops": ops, "mapping": mk}


def _random_session(rng):
    base = rng.sample(_PLAIN[:4] + (_TRICKY if rng.random() < 0.2 else []), rng.randint(1, 3))
    pool = [["int", rng.randint(-5, 5)], ["int", 2 ** 40 + rng.randint(0, 9)], ["str", rng.choice(["x", "", "é"])], ["str", "y"]]
    pool += [_rand_value(rng) for _ in range(rng.randint(0, 4))]
    ints, strs = [0, 1], [2, 3]

    def names():
        r = rng.random()
        if r < 0.55:
            return list(base)  # the same names again and again: handles over equal field lists must not interfere
        if r < 0.75:
            l = list(base)
            rng.shuffle(l)
            return l
        if r < 0.9:
            return base[: rng.randint(0, len(base))]
        return base + [rng.choice(_PLAIN[4:])]

    ops, classes, frames, nrows = [], [], [], 0
    strict = {}  # frame handle -> (cols, kinds) when appends are validated against an Arrow schema
    arrow_info = {}
    for _ in range(rng.randint(3, 12)):
        r = rng.random()
        dict_classes = [i for i, t in enumerate(classes) if not t]
        dict_frames = [i for i, t in enumerate(frames) if t]
        if frames and rng.random() < 0.18:
            b = rng.randrange(len(frames))
            if rng.random() < 0.5:
                ops.append(["reframe", b, names()])
            else:
                how = rng.choice(["head", "slice", "query"])
                ops.append(["derive", b, how, 99 if how == "query" else rng.choice([0, 1, 2, 5])])
                if b in arrow_info:
                    strict[len(frames)] = arrow_info[b]
                    arrow_info[len(frames)] = arrow_info[b]
            frames.append(True)
            continue
        if r < 0.14 or not (classes or frames):
            classes.append(rng.random() < 0.5)
            f = names()
            if rng.random() < 0.15 and f:
                f = f + [f[0]]  # duplicate name
            ops.append(["class", f, classes[-1]])
        elif r < 0.24:
            cols = list(dict.fromkeys(names()))
            kinds = [rng.choice([ints, strs]) for _ in cols]
            ops.append(["arrow", cols, [[rng.choice(kd) for kd in kinds] for _ in range(rng.choice([0, 1, 2, 3]) if cols else 0)]])
            if not ops[-1][2]:
                kinds = [ints for _ in cols]  # an empty table is built with int64 columns
            arrow_info[len(frames)] = (cols, kinds)
            frames.append(False)
        elif r < 0.34:
            first = names()
            ds = []
            for j in range(rng.choice([0, 1, 2, 3])):
                ds.append([[k, rng.randrange(len(pool))] for k in first] if j == 0 else _rand_dict(rng, list(dict.fromkeys(base + ["zz"])), len(pool), bias=first))
            ops.append(["frame", ds, rng.random() < 0.3])
            frames.append(True)
        elif r < 0.42:
            ops.append(["named", names()])
            frames.append(True)
        elif r < 0.62 and dict_classes:
            ops.append(["rowdict", rng.choice(dict_classes), _rand_dict(rng, list(dict.fromkeys(base + ["zz"])), len(pool), bias=base)])
            nrows += 1
        elif r < 0.7 and classes:
            c = rng.randrange(len(classes))
            width = len(next(o for o in [o for o in ops if o[0] == "class"][c:c + 1])[1])
            ops.append(["rowtuple", c, [rng.randrange(len(pool)) for _ in range(width)]])
            nrows += 1
        elif r < 0.86 and dict_frames:
            tgt = rng.choice(dict_frames)
            if tgt in strict:
                cols, kinds = strict[tgt]
                rec = [[c, rng.choice(kd)] for c, kd in zip(cols, kinds)]
                rng.shuffle(rec)
                ops.append(["append", tgt, rec])
            else:
                ops.append(["append", tgt, _rand_dict(rng, list(dict.fromkeys(base + ["zz"])), len(pool), bias=base)])
        elif r < 0.93 and frames:
            ops.append(["rows", rng.randrange(len(frames))])
        elif nrows:
            ops.append(["view", rng.randrange(nrows)])
    ops += [["view", r] for r in range(nrows)] + [["rows", f] for f in range(len(frames))]
    return {"kind": "session", "pool": pool, "ops": ops, "mapping": _rand_mapping(rng)}


def _remove_session_op(ops, i):
    """ops without op i; uses of the handle it created are dropped and later handles renumbered."""
    k = ops[i][0]
    made = "class" if k == "class" else "frame" if k in ("arrow", "frame", "named", "reframe", "derive") else "row" if k in ("rowdict", "rowtuple") else None
    users = {"class": ("rowdict", "rowtuple"), "frame": ("append", "rows", "reframe", "derive"), "row": ("view",)}.get(made, ())
    creators = {"class": ("class",), "frame": ("arrow", "frame", "named", "reframe", "derive"), "row": ("rowdict", "rowtuple")}.get(made, ())
    h = sum(1 for o in ops[:i] if o[0] in creators)
    out = []
    for j, o in enumerate(ops):
        if j == i:
            continue
        if o[0] in users:
            if o[1] == h:
                if o[0] in ("rowdict", "rowtuple", "reframe", "derive"):
                    return None  # would cascade into further handles; keep it simple
                continue
            if o[1] > h:
                o = [o[0], o[1] - 1] + list(o[2:])
        out.append(o)
    return out


def _shrink_session(case):
    ops = case["ops"]
    for i in reversed(range(len(ops))):
        cand = _remove_session_op(ops, i)
        if cand is not None and _session_handles(cand, case["pool"]) is not None:
            yield dict(case, ops=cand)
    for i, o in enumerate(ops):
        if o[0] in ("rowdict", "append"):
            for j in range(len(o[2])):
                yield dict(case, ops=ops[:i] + [[o[0], o[1], o[2][:j] + o[2][j + 1:]]] + ops[i + 1:])
        if o[0] == "arrow" and o[2]:
            yield dict(case, ops=ops[:i] + [[o[0], o[1], o[2][:-1]]] + ops[i + 1:])
        if o[0] == "frame" and o[1]:
            yield dict(case, ops=ops[:i] + [[o[0], o[1][:-1], o[2]]] + ops[i + 1:])
    if case.get("mapping", "dict") != "dict":
        yield dict(case, mapping="dict")


# ------------------------------------------------------------------ the object that delivers the dictionaries
# {"kind": "source", "pool": [...], "carrier": c, "dicts": [items, ...], "ops": ["next" | "list" | "frame", ...], "mapping": ...}
#   one object of class `carrier` made to deliver the records; "next" = next(iter(obj), None), "list" = list(obj),
#   "frame" = DataFrame(obj).  Containers hand out a fresh iterator from the start every time; everything else
#   advances one shared position whichever iterator object reads (Coq sees only that boolean).
CARRIERS = ["list", "tuple", "dictvalues", "generator", "listiter", "map", "reader", "drain", "wrapped"]
REWINDING = {"list", "tuple", "dictvalues"}


class _Reader:
    """records behind a read position (an open file): every iteration reads on from where the last one stopped"""

    def __init__(self, records):
        self.records = list(records)
        self.pos = 0

    def __iter__(self):
        while self.pos < len(self.records):
            self.pos += 1
            yield self.records[self.pos - 1]


class _Drain:
    """hands out (and removes) whatever is waiting in a queue"""

    def __init__(self, records):
        import collections

        self.queue = collections.deque(records)

    def __iter__(self):
        while self.queue:
            yield self.queue.popleft()


class _Wrapped:
    """__iter__ returns the generator it was given (not self)"""

    def __init__(self, generator):
        self.generator = generator

    def __iter__(self):
        return self.generator


def _mkcarrier(kind, records):
    if kind == "list":
        return list(records)
    if kind == "tuple":
        return tuple(records)
    if kind == "dictvalues":
        return {i: r for i, r in enumerate(records)}.values()
    if kind == "generator":
        return (r for r in records)
    if kind == "listiter":
        return iter(list(records))
    if kind == "map":
        return map(lambda r: r, list(records))
    if kind == "reader":
        return _Reader(records)
    if kind == "drain":
        return _Drain(records)
    if kind == "wrapped":
        return _Wrapped(r for r in list(records))
    raise KeyError(kind)


def _carrier_of(case):
    return case.get("carrier") or ("generator" if case.get("gen") else "list")


def _observe_source(case):
    from orso.dataframe import DataFrame
    from orso.row import Row

    pool = _Pool(case["pool"])
    mapping = case.get("mapping", "dict")
    records = [_mkrecord(items, pool, mapping) for items in case["dicts"]]
    before = [_snap(m) for m in records]
    src = _mkcarrier(case["carrier"], records)
    outs = []

    def assoc(m):
        return [[_name(k), pool.vid(v)] for k, v in m.items()]

    for op in case["ops"]:
        try:
            if op == "next":
                r = next(iter(src), None)
                outs.append(["item", None if r is None else assoc(r)])
            elif op == "list":
                outs.append(["items", [assoc(r) for r in list(src)]])
            elif op == "frame":
                df = DataFrame(src)
                cols = tuple(df.column_names)
                n = df.rowcount
                rs = list(df)
                if n != len(rs) or len(df) != n or df.shape != (n, len(cols)):
                    raise ValueError("rowcount/shape/len disagree with iteration")
                if not all(isinstance(r, Row) and tuple(r._fields) == cols for r in rs):
                    raise TypeError("a stored row is not a Row over the frame's columns")
                outs.append(["frame", [_name(c) for c in cols], [[pool.vid(x) for x in tuple(r)] for r in rs]])
            else:
                raise KeyError(op)
        except KeyError:
            raise
        except Exception as e:
            outs.append(_exc(e))
    return {"outs": outs, "input_unchanged": [_snap(m) for m in records] == before}


def _oracle_source(case, obs):
    """One row per dictionary the object delivers when the frame is built, columns from the first of them."""
    pool = _Pool(case["pool"])
    if obs.get("input_unchanged") is False:
        return "the records handed over must be left unchanged"
    pending = [_assoc(items, pool) for items in case["dicts"]]
    order = [[k for k, _ in items] for items in case["dicts"]]
    rewinds = case["carrier"] in REWINDING
    for i, (op, out) in enumerate(zip(case["ops"], obs["outs"])):
        where = f"op {i} {op}"
        if _is_raise(out):
            return f"{where}: must not raise, raised {out[1]}"
        if op == "next":
            want = ["item", [[k, pending[0][k]] for k in order[0]] if pending else None]
            if out != want:
                return f"{where}: the object must deliver its next record {want[1]}, got {out}"
            if not rewinds:
                pending, order = pending[1:], order[1:]
        elif op == "list":
            want = ["items", [[[k, D[k]] for k in o] for D, o in zip(pending, order)]]
            if out != want:
                return f"{where}: the object must deliver the records {want[1]}, got {out}"
            if not rewinds:
                pending, order = [], []
        else:
            cols = order[0] if pending else []
            rows = [[D.get(c, 0) for c in cols] for D in pending]
            if out != ["frame", cols, rows]:
                return (f"{where}: the object delivers {len(pending)} dictionaries, so the frame must have the columns {cols} of the first "
                        f"and exactly the rows {rows} (one per dictionary, each field's value at its column, 0=None when absent), "
                        f"got columns {out[1] if len(out) > 1 else None} rows {out[2] if len(out) > 2 else None}")
            if not rewinds:
                pending, order = [], []
    if len(obs["outs"]) != len(case["ops"]):
        return "one observation per call expected"
    return None


def _source_to_coq(case, obs):
    pool = _Pool(case["pool"])

    def out(o):
        if _is_raise(o):
            return "(SrcRaise %s)" % (o[1] if o[1] in _EXN else "OtherError")
        if o[0] == "item":
            return "(SrcItem %s)" % L.opt(None if o[1] is None else _kvs(o[1]))
        if o[0] == "items":
            return "(SrcItems %s)" % _kvss(o[1])
        return "(SrcFrameOut %s %s)" % (_keys(o[1]), _zss(o[2]))

    ops = L.lst({"next": "SrcNext", "list": "SrcList", "frame": "SrcFrame"}[o] for o in case["ops"])
    return ("source", "(%s, (%s : list zdict), (%s : list src_op), (%s : list (src_out key Z)))" % (
        L.boolean(case["carrier"] in REWINDING), L.lst(_zdict(d, pool) for d in case["dicts"]), ops, L.lst(out(o) for o in obs["outs"])))


def _source_exhaustive(tier):
    ab = _small_dicts(_NAMES3[:2])
    few = [ab[0], ab[1], ab[4], ab[7], ab[12]]
    seqs = [[]] + [[d] for d in ab] + [[d1, d2] for d1 in (ab if tier == "thorough" else few) for d2 in (ab if tier == "thorough" else few)]
    seqs += [[ab[1], ab[7], ab[0]], [ab[12], ab[4], ab[1], ab[9]], [ab[0], ab[0], ab[5]]]
    hists = [["frame", "frame"], ["next", "frame", "list"], ["list", "frame"]]
    if tier == "thorough":
        hists += [["frame"], ["next", "next", "frame", "next", "frame"]]
    for carrier in CARRIERS:
        for ds in seqs:
            for h in hists:
                yield {"kind": "source", "pool": _XPOOL, "carrier": carrier, "dicts": ds, "ops": h, "mapping": "dict"}


def _random_source(rng):
    names = _rand_names(rng)
    pool = [_rand_value(rng) for _ in range(rng.randint(1, 8))]
    dicts = []
    for j in range(rng.choice([0, 1, 2, 2, 3, 4, 6])):
        dicts.append(_rand_dict(rng, names, len(pool), bias=[k for k, _ in dicts[0]] if j else None))
    ops = [rng.choice(["next", "next", "list", "frame", "frame"]) for _ in range(rng.randint(0, 4))] + ["frame"]
    if rng.random() < 0.3:
        ops.append(rng.choice(["next", "list", "frame"]))
    return {"kind": "source", "pool": pool, "carrier": rng.choice(CARRIERS), "dicts": dicts, "ops": ops, "mapping": _rand_mapping(rng)}


def _shrink_source(case):
    for key in ("ops", "dicts"):
        l = case[key]
        for i in reversed(range(len(l))):
            yield dict(case, **{key: l[:i] + l[i + 1:]})
    for i, d in enumerate(case["dicts"]):
        for j in range(len(d)):
            yield dict(case, dicts=case["dicts"][:i] + [d[:j] + d[j + 1:]] + case["dicts"][i + 1:])
    if case.get("mapping", "dict") != "dict":
        yield dict(case, mapping="dict")
    for i, sp in enumerate(case["pool"]):
        if sp != ["int", i + 1]:
            yield dict(case, pool=case["pool"][:i] + [["int", i + 1]] + case["pool"][i + 1:])


# ------------------------------------------------------------------ lazily produced records
# {"kind": "producer", "pool": [...], "lazy": "generator" | "wrapped" | "lazyobj", "mapping": ...,
#  "actions": [["new", items] | ["set", r, key, vi] | ["del", r, key] | ["yield", r], ...]}
#   a generator that creates record objects, hands them to DataFrame(...) and keeps touching them between the
#   constructor's reads (annotate the previous record, refill one buffer, delete a key).
LAZY = ["generator", "wrapped", "lazyobj"]


def _valid_producer(actions):
    n = 0
    for a in actions:
        if a[0] == "new":
            n += 1
        elif a[0] in ("set", "del", "yield"):
            if not (0 <= a[1] < n):
                return False
        else:
            return False
    return True


def _observe_producer(case):
    from orso.dataframe import DataFrame
    from orso.row import Row

    if not _valid_producer(case["actions"]):
        raise ValueError("invalid producer")
    pool = _Pool(case["pool"])
    mapping = case.get("mapping", "dict")

    def produce():
        store = []
        for a in case["actions"]:
            if a[0] == "new":
                store.append(_mkrecord(a[1], pool, mapping))
            elif a[0] == "set":
                store[a[1]][a[2]] = pool.objs[a[3]]
            elif a[0] == "del":
                store[a[1]].pop(a[2], None)
            else:
                yield store[a[1]]

    class _LazyObj:
        def __iter__(self):
            return produce()

    lazy = case.get("lazy", "generator")
    src = produce() if lazy == "generator" else _Wrapped(produce()) if lazy == "wrapped" else _LazyObj()
    try:
        df = DataFrame(src)
        cols = tuple(df.column_names)
        n = df.rowcount
        rs = list(df)
        if n != len(rs) or len(df) != n or df.shape != (n, len(cols)):
            raise ValueError("rowcount/shape/len disagree with iteration")
        if not all(isinstance(r, Row) and tuple(r._fields) == cols for r in rs):
            raise TypeError("a stored row is not a Row over the frame's columns")
        return {"frame": [[_name(c) for c in cols], [[pool.vid(x) for x in tuple(r)] for r in rs],
                          [[[_name(k), pool.vid(v)] for k, v in r.as_dict.items()] for r in rs],
                          [len(r.as_map) for r in rs]]}
    except Exception as e:
        return {"frame": _exc(e)}


def _oracle_producer(case, obs):
    """Columns from the first dictionary as it was when it was handed over; one row per dictionary handed over, as
    wide as the column list, holding that dictionary's values (as it was when handed over) by name."""
    pool = _Pool(case["pool"])
    out = obs["frame"]
    if _is_raise(out):
        return f"DataFrame(lazily produced records) must not raise, raised {out[1]}"
    store, handed = [], []
    for a in case["actions"]:
        if a[0] == "new":
            store.append(dict((k, pool.ids[vi]) for k, vi in a[1]))
        elif a[0] == "set":
            store[a[1]][a[2]] = pool.ids[a[3]]
        elif a[0] == "del":
            store[a[1]].pop(a[2], None)
        else:
            handed.append(dict(store[a[1]]))
    cols = list(handed[0]) if handed else []
    rows = [[D.get(c, 0) for c in cols] for D in handed]
    if out[0] != cols:
        return f"columns must be those of the first dictionary as it was when it was read, {cols}, got {out[0]}"
    if len(out[1]) != len(handed):
        return f"exactly one row per dictionary handed over required ({len(handed)}), got {len(out[1])}"
    for j, r in enumerate(out[1]):
        if len(r) != len(cols):
            return f"row {j} must be as wide as the column list {cols}, got {r}"
    if out[1] != rows:
        return f"rows must be {rows} (each record's values, as it was when handed over, at its columns; 0=None), got {out[1]}"
    for j, (want, got, nmap) in enumerate(zip(rows, out[2], out[3])):
        if dict((k, v) for k, v in got) != dict(zip(cols, want)) or len(got) != len(cols) or nmap != len(cols):
            return f"as_dict / as_map of row {j} must pair every column with its value {dict(zip(cols, want))}, got {got} ({nmap} pairs)"
    return None


def _producer_to_coq(case, obs):
    pool = _Pool(case["pool"])
    acts = []
    for a in case["actions"]:
        if a[0] == "new":
            acts.append("(PNew %s)" % _zdict(a[1], pool))
        elif a[0] == "set":
            acts.append("(PSet %s %s %s)" % (L.nat(a[1]), L.text(a[2]), L.Z(pool.ids[a[3]])))
        elif a[0] == "del":
            acts.append("(PDel %s %s)" % (L.nat(a[1]), L.text(a[2])))
        else:
            acts.append("(PYield %s)" % L.nat(a[1]))
    out = obs["frame"]
    res = _res(out, lambda o: "(%s, %s, %s)" % (_keys(o[0]), _zss(o[1]), _kvss(o[2])))
    return ("producer", "((%s : list (pact key Z)), (%s : result (list key * list (list Z) * list (list (key * Z)))))" % (L.lst(acts), res))


def _producer_exhaustive(tier):
    """Small producers over the names a, b (+ c as the key that appears later); _XPOOL values."""
    recs = [[["a", 1], ["b", 2]], [["b", 2], ["a", 1]], [["a", 1]], [], [["a", 0], ["b", 3]]]
    muts = lambda r: [[], [["set", r, "c", 3]], [["set", r, "a", 3]], [["del", r, "a"]], [["del", r, "b"]],
                      [["del", r, "a"], ["set", r, "a", 2]], [["set", r, "c", 3], ["del", r, "b"]]]
    n = 0
    for d1 in recs:
        for d2 in (recs if tier == "thorough" else recs[:3]):
            for m in muts(0):
                # the previous record is touched once the next one exists, before / after the next one is handed over
                for acts in ([["new", d1], ["yield", 0], ["new", d2]] + m + [["yield", 1]],
                             [["new", d1], ["new", d2], ["yield", 0], ["yield", 1]] + m + [["yield", 0]] * (n % 2)):
                    n += 1
                    yield {"kind": "producer", "pool": _XPOOL, "lazy": LAZY[n % 3], "mapping": "dict", "actions": acts}
        for m1 in muts(0):
            for m2 in (muts(0) if tier == "thorough" else muts(0)[:4]):
                # one buffer dictionary refilled for every record; also touched before it is first handed over
                n += 1
                yield {"kind": "producer", "pool": _XPOOL, "lazy": LAZY[n % 3], "mapping": "dict",
                       "actions": [["new", d1], ["yield", 0]] + m1 + [["yield", 0]] + m2 + [["yield", 0]]}
            n += 1
            yield {"kind": "producer", "pool": _XPOOL, "lazy": LAZY[n % 3], "mapping": "dict",
                   "actions": [["new", d1]] + m1 + [["yield", 0]] + m1}


def _random_producer(rng):
    names = _rand_names(rng)[:4] or ["a"]
    pool = [_rand_value(rng) for _ in range(rng.randint(1, 6))]
    acts, n, yielded = [], 0, []
    for _ in range(rng.randint(2, 12)):
        r = rng.random()
        if n == 0 or r < 0.25:
            acts.append(["new", _rand_dict(rng, names, len(pool))])
            n += 1
            if rng.random() < 0.7:
                acts.append(["yield", n - 1])
                yielded.append(n - 1)
        elif r < 0.5:
            tgt = rng.choice(yielded) if yielded and rng.random() < 0.8 else rng.randrange(n)
            acts.append(["set", tgt, rng.choice(names + ["extra"]), rng.randrange(len(pool))])
        elif r < 0.65:
            tgt = rng.choice(yielded) if yielded and rng.random() < 0.8 else rng.randrange(n)
            acts.append(["del", tgt, rng.choice(names)])
        else:
            tgt = rng.randrange(n)
            acts.append(["yield", tgt])
            yielded.append(tgt)
    return {"kind": "producer", "pool": pool, "lazy": rng.choice(LAZY), "mapping": _rand_mapping(rng), "actions": acts}


def _shrink_producer(case):
    acts = case["actions"]
    for i in reversed(range(len(acts))):
        if acts[i][0] == "new":
            continue  # would renumber the records
        yield dict(case, actions=acts[:i] + acts[i + 1:])
    for i, a in enumerate(acts):
        if a[0] == "new":
            for j in range(len(a[1])):
                yield dict(case, actions=acts[:i] + [["new", a[1][:j] + a[1][j + 1:]]] + acts[i + 1:])
    if case.get("lazy", "generator") != "generator":
        yield dict(case, lazy="generator")
    if case.get("mapping", "dict") != "dict":
        yield dict(case, mapping="dict")
    for i, sp in enumerate(case["pool"]):
        if sp != ["int", i + 1]:
            yield dict(case, pool=case["pool"][:i] + [["int", i + 1]] + case["pool"][i + 1:])


# ------------------------------------------------------------------ dictionaries whose keys are not all strings
# {"kind": "keyed", "pool": [...], "dicts": [[[keyspec, vi], ...], ...], "appends": [...], "carrier": ..., "mapping": ...}
# A key is a value spec (["int", 1], ["str", "1"], ["none"], ["bytes", "6b"], ["tuple", [...]], ["bool", True], ["float", hex],
# ["date", iso], ["decimal", "2.5"]).  Observed exactly like a "frame" case (columns, rows, appends, as_dict per row).
def _keyed_records(case):
    """The case dictionaries as real Python dictionaries key object -> value id (the language's own key equality)."""
    pool = _Pool(case["pool"])
    out = []
    for group in ("dicts", "appends"):
        recs = []
        for items in case[group]:
            d = {}
            for k, vi in items:
                d[_build(k)] = pool.ids[vi]
            if len(d) != len(items):
                raise ValueError("case dictionary repeats a key")
            recs.append(d)
        out.append(recs)
    return out


def _oracle_keyed(case, obs):
    """Each value sits at the position of the field (= key of the first dictionary) it is stored under; the columns are
    named str(key); absent -> None; one row per dictionary.  append(dict) afterwards goes by column name (a string)."""
    for n in ("columns", "rows", "columns_after", "rows_after", "dicts_after"):
        if _is_raise(obs[n]):
            return f"{n}: must not raise, raised {obs[n][1]}"
    if obs.get("input_unchanged") is False:
        return "the mappings handed to DataFrame(...) / append(...) must be left unchanged (same class, same items, no key gained)"
    dicts, apps = _keyed_records(case)
    keys = list(dicts[0].keys()) if dicts else []
    cols = [str(k) for k in keys]
    if obs["columns"] != cols:
        return f"columns must be the str() of the first dictionary's keys {cols}, got {obs['columns']}"
    if len(obs["rows"]) != len(dicts):
        return f"exactly one row per dictionary required ({len(dicts)}), got {len(obs['rows'])}"
    for j, (D, r) in enumerate(zip(dicts, obs["rows"])):
        if len(r) != len(cols):
            return f"row {j} must be as wide as the column list ({len(cols)}), got width {len(r)}"
        want = [D.get(k, 0) for k in keys]
        if r != want:
            return (f"row {j} must hold, per field {keys!r} of the first dictionary, the value dictionary {j} stores under that "
                    f"key (0=None when absent): {want}, got {r}")
    if obs["columns_after"] != cols:
        return f"columns after append must stay {cols}, got {obs['columns_after']}"
    allr = [[D.get(k, 0) for k in keys] for D in dicts] + [[D.get(c, 0) for c in cols] for D in apps]
    if obs["rows_after"] != allr:
        return f"after the appends (which go by column name) the rows must be {allr}, got {obs['rows_after']}"
    if len(obs["dicts_after"]) != len(allr):
        return "one as_dict per row expected"
    for j, (want, got) in enumerate(zip(allr, obs["dicts_after"])):
        if dict((k, v) for k, v in got) != dict(zip(cols, want)) or len(got) != len(set(cols)):
            return f"as_dict of row {j} must be {dict(zip(cols, want))}, got {got}"
    return None


def _pkey(obj, classes):
    """Key object -> Coq pkey.  bool/int/integral float/integral Decimal are one number (Python: True == 1 == 1.0, equal
    hashes); str, bytes, None are themselves; any other hashable is numbered by Python's own equality within the case."""
    if isinstance(obj, str):
        return "(PKStr %s)" % L.text(obj)
    if obj is None:
        return "PKNone"
    if isinstance(obj, bytes):
        return "(PKBytes %s)" % L.lst(L.N(b) for b in obj)
    if isinstance(obj, (bool, int)):
        return "(PKNum %s)" % L.Z(int(obj))
    if isinstance(obj, (float, decimal.Decimal)):
        if obj != obj:
            raise ValueError("NaN keys are not generated (NaN is not equal to itself)")
        if obj == obj and abs(obj) != float("inf") and obj == int(obj):
            return "(PKNum %s)" % L.Z(int(obj))
    return "(PKObj %s)" % L.N(classes.setdefault(obj, len(classes)))


def _keyed_to_coq(case, obs):
    pool = _Pool(case["pool"])
    classes = {}

    def kd(items):
        ents = []
        for k, vi in items:
            o = _build(k)
            ents.append(L.pair(L.pair(_pkey(o, classes), L.text(str(o))), L.Z(pool.ids[vi])))
        return "(%s : zkdict)" % L.lst(ents)

    term = "(KeyedCase (%s : list zkdict) (%s : list zkdict) %s %s %s %s %s)" % (
        L.lst(kd(d) for d in case["dicts"]), L.lst(kd(d) for d in case["appends"]),
        _res(obs["columns"], _keys), _res(obs["rows"], _zss), _res(obs["columns_after"], _keys),
        _res(obs["rows_after"], _zss), _res(obs["dicts_after"], _kvss))
    return ("keyed", term)


_KPOOL = [["none"]] + [["int", i] for i in range(1, 9)]
_KEYS = [["int", 1], ["str", "1"], ["none"], ["str", "None"], ["bytes", "6b"], ["tuple", [["str", "x"], ["int", 1]]],
         ["int", 0], ["str", "a"], ["date", "2024-01-01"], ["str", "2024-01-01"]]
# keys that print alike / compare alike: the string naming the key, and the other spellings of the same number
_ALIKE = {
    '["int", 1]': [["str", "1"], ["bool", True], ["float", (1.0).hex()], ["str", "True"]],
    '["str", "1"]': [["int", 1], ["bytes", "31"]],
    '["none"]': [["str", "None"]],
    '["str", "None"]': [["none"]],
    '["bytes", "6b"]': [["str", "b'k'"], ["str", "k"]],
    '["tuple", [["str", "x"], ["int", 1]]]': [["str", "('x', 1)"], ["tuple", [["str", "x"], ["bool", True]]], ["tuple", [["str", "x"], ["int", 2]]]],
    '["int", 0]': [["str", "0"], ["bool", False], ["float", (-0.0).hex()]],
    '["str", "a"]': [["str", "A"]],
    '["date", "2024-01-01"]': [["str", "2024-01-01"], ["datetime", "2024-01-01T00:00:00"]],
    '["str", "2024-01-01"]': [["date", "2024-01-01"]],
}


def _kdedupe(items):
    """Drop entries whose key object equals an earlier one (Python equality), keep the first."""
    seen, out = {}, []
    for k, vi in items:
        o = _build(k)
        if o in seen:
            continue
        seen[o] = True
        out.append([k, vi])
    return out


def _keyed_exhaustive(tier):
    """Every first dictionary of 1 or 2 keys out of _KEYS (ordered; 3 keys in the thorough tier) x what follows it."""
    sizes = (1, 2) if tier == "quick" else (1, 2, 3)
    n = 0
    for r in sizes:
        for ks in itertools.permutations(_KEYS, r):
            if r == 3 and tier != "quick" and n % 3:
                n += 1
                continue
            n += 1
            first = _kdedupe([[k, 1 + i] for i, k in enumerate(ks)])
            rev = [[k, 4 + i] for i, (k, _) in enumerate(reversed(first))]
            alike1 = _kdedupe([[_ALIKE[json.dumps(k)][0], 4 + i] for i, (k, _) in enumerate(first) if _ALIKE[json.dumps(k)]])
            everything = _kdedupe([[a, 7] for k, _ in first for a in _ALIKE[json.dumps(k)][1:]] + [[k, 4 + i] for i, (k, _) in enumerate(first)]
                                  + [[_ALIKE[json.dumps(k)][0], 8] for k, _ in first if _ALIKE[json.dumps(k)]])
            # append goes by name: the strings naming the columns, and the key objects themselves, in one dictionary
            app = _kdedupe([[k, 6] for k, _ in first] + [[["str", str(_build(k))], 7 + (i % 2)] for i, (k, _) in enumerate(first)])
            byname = _kdedupe([[["str", str(_build(k))], 5 + i] for i, (k, _) in enumerate(first)])
            yield {"kind": "keyed", "pool": _KPOOL, "dicts": [first], "appends": [app], "carrier": "generator", "mapping": "dict"}
            yield {"kind": "keyed", "pool": _KPOOL, "dicts": [first, rev], "appends": [byname], "carrier": "list", "mapping": "dict"}
            yield {"kind": "keyed", "pool": _KPOOL, "dicts": [first, alike1], "appends": [], "carrier": "listiter" if n % 2 else "tuple", "mapping": "dict"}
            yield {"kind": "keyed", "pool": _KPOOL, "dicts": [first, everything, first], "appends": [app, everything],
                   "carrier": CARRIERS[n % len(CARRIERS)], "mapping": MAPPINGS[n % len(MAPPINGS)]}


_RKEYS = _KEYS + [["bool", True], ["bool", False], ["float", (1.0).hex()], ["float", (2.5).hex()], ["decimal", "2.5"], ["decimal", "1"],
                  ["int", 2024], ["int", -1], ["int", 2 ** 64], ["str", ""], ["str", "b"], ["str", "name"], ["str", "True"], ["str", "1.0"],
                  ["str", "2.5"], ["str", "0"], ["bytes", ""], ["bytes", "31"], ["tuple", []], ["tuple", [["int", 1]]],
                  ["tuple", [["str", "x"], ["int", 2]]], ["tuple", [["none"], ["str", "1"]]], ["datetime", "2024-01-01T00:00:00"],
                  ["date", "1999-12-31"], ["str", "('x', 1)"], ["str", "b'k'"], ["str", "é"]]


def _random_keyed(rng):
    pool = [["none"]] + [_rand_value(rng) for _ in range(rng.randint(2, 7))]
    universe = rng.sample(_RKEYS, rng.randint(2, 8))
    first = _kdedupe([[k, rng.randrange(len(pool))] for k in universe if rng.random() < 0.7])

    def other():
        keys = [k for k, _ in first if rng.random() < 0.7]
        for k, _ in first:
            al = _ALIKE.get(json.dumps(k))
            if al and rng.random() < 0.4:
                keys.append(rng.choice(al))
            if rng.random() < 0.25:
                keys.append(["str", str(_build(k))])
        keys += [k for k in rng.sample(_RKEYS, 2) if rng.random() < 0.4]
        rng.shuffle(keys)
        return _kdedupe([[k, rng.randrange(len(pool))] for k in keys])

    nd = rng.choice([0, 1, 2, 2, 3, 4])
    dicts = ([first] + [other() for _ in range(nd - 1)]) if nd else []
    appends = [other() for _ in range(rng.choice([0, 0, 1, 2]))]
    return {"kind": "keyed", "pool": pool, "dicts": dicts, "appends": appends, "carrier": rng.choice(CARRIERS), "mapping": _rand_mapping(rng)}



def observe(case):
    if case["kind"] == "producer":
        return _observe_producer(case)
    if case["kind"] == "source":
        return _observe_source(case)
    if case["kind"] == "session":
        return _observe_session(case)
    return _observe_row(case) if case["kind"] == "row" else _observe_frame(case)


# ------------------------------------------------------------------ oracle (the property, read literally)
def _is_raise(x):
    return isinstance(x, list) and len(x) == 2 and x[0] == "raise" and isinstance(x[1], str)


def _assoc(items, pool):
    return {k: pool.ids[vi] for k, vi in items}


def _oracle_row(case, obs):
    pool = _Pool(case["pool"])
    fields = case["fields"]
    D = _assoc(case["dict"], pool)
    want = [D.get(f, 0) for f in fields]  # each field's value at that field's position, None (0) when absent
    for n in ("row", "row_rev", "append", "as_map", "as_dict", "values", "keys", "as_json"):
        if _is_raise(obs[n]):
            return f"{n}: must not raise, raised {obs[n][1]}"
    if obs.get("input_unchanged") is False:
        return "the mapping handed to Row(...) / append(...) must be left unchanged (same class, same items, no key gained)"
    if obs["row"] != want:
        return f"Row(dict) must be {want} (value of each field at its position, 0=None when absent), got {obs['row']}"
    if obs["row_rev"] != want:
        return f"Row(dict with reversed insertion order) must still be {want}, got {obs['row_rev']}"
    if obs["append"] != [want]:
        return f"append(dict) on an empty frame over the fields must store exactly the row {want}, got {obs['append']}"
    pairs = [[f, v] for f, v in zip(fields, want)]
    if obs["as_map"] != pairs:
        return f"as_map must be {pairs}, got {obs['as_map']}"
    if obs["values"] != want:
        return f"values must be {want}, got {obs['values']}"
    if obs["keys"] != list(fields):
        return f"keys() must be {list(fields)}, got {obs['keys']}"
    assoc = {f: D.get(f, 0) for f in fields}
    got = {}
    for k, v in obs["as_dict"]:
        if k in got:
            return f"as_dict repeats the key {k!r}"
        got[k] = v
    if got != assoc:
        return f"as_dict must be the association {assoc}, got {obs['as_dict']}"
    if "as_dict_again" in obs and obs["as_dict_again"] != obs["as_dict"]:
        return (f"as_dict read again after the caller edited the dictionary it was handed must still be the row's association "
                f"{obs['as_dict']}, got {obs['as_dict_again']}")
    jt = dict((a, b) for a, b in obs["jtable"])
    jassoc = {f: jt[v] for f, v in assoc.items()}
    gotj = {}
    for k, v in obs["as_json"]:
        if k in gotj:
            return f"as_json repeats the member {k!r}"
        gotj[k] = v
    if gotj != jassoc:
        return f"as_json must encode the association {jassoc} (name -> JSON class of the value), got {obs['as_json']}"
    for (name, di), g in zip(case["lookups"], obs["get"]):
        if _is_raise(g):
            return f"get({name!r}) must not raise, raised {g[1]}"
        if name in fields:
            if g != assoc[name]:
                return f"get({name!r}) must return the field's value {assoc[name]}, got {g}"
        else:
            dflt = 0 if di is None else pool.ids[di]
            if g != dflt:
                return f"get({name!r}) on a row without that field must return the default {dflt}, got {g}"
    if len(obs["get"]) != len(case["lookups"]):
        return "one get result per lookup expected"
    return None


def _oracle_frame(case, obs):
    pool = _Pool(case["pool"])
    for n in ("columns", "rows", "columns_after", "rows_after", "dicts_after"):
        if _is_raise(obs[n]):
            return f"{n}: must not raise, raised {obs[n][1]}"
    if obs.get("input_unchanged") is False:
        return "the mappings handed to DataFrame(...) / append(...) must be left unchanged (same class, same items, no key gained)"
    dicts = [_assoc(items, pool) for items in case["dicts"]]
    cols = [k for k, _ in case["dicts"][0]] if case["dicts"] else []
    if obs["columns"] != cols:
        return f"columns must be those of the first dictionary {cols}, got {obs['columns']}"
    if len(obs["rows"]) != len(dicts):
        return f"exactly one row per dictionary required ({len(dicts)}), got {len(obs['rows'])}"
    for j, (D, r) in enumerate(zip(dicts, obs["rows"])):
        if len(r) != len(cols):
            return f"row {j} must be as wide as the column list ({len(cols)}), got width {len(r)}"
        want = [D.get(c, 0) for c in cols]
        if r != want:
            return f"row {j} must be {want}, got {r}"
    apps = [_assoc(items, pool) for items in case["appends"]]
    if obs["columns_after"] != cols:
        return f"columns after append must stay {cols}, got {obs['columns_after']}"
    allr = [[D.get(c, 0) for c in cols] for D in dicts + apps]
    if obs["rows_after"] != allr:
        return f"after the appends the rows must be {allr}, got {obs['rows_after']}"
    for j, (want, got) in enumerate(zip(allr, obs["dicts_after"])):
        if dict((k, v) for k, v in got) != dict(zip(cols, want)) or len(got) != len(cols):
            return f"as_dict of row {j} must be {dict(zip(cols, want))}, got {got}"
    if len(obs["dicts_after"]) != len(allr):
        return "one as_dict per row expected"
    return None


def oracle(case, obs):
    if case["kind"] == "producer":
        return _oracle_producer(case, obs)
    if case["kind"] == "source":
        return _oracle_source(case, obs)
    if case["kind"] == "session":
        return _oracle_session(case, obs)
    if case["kind"] == "keyed":
        return _oracle_keyed(case, obs)
    return _oracle_row(case, obs) if case["kind"] == "row" else _oracle_frame(case, obs)


def known(case, obs):
    return None


# ------------------------------------------------------------------ Coq literals
_EXN = {"IndexError", "ValueError", "TypeError", "KeyError", "StopIteration", "AttributeError"}


def _res(x, render):
    if _is_raise(x):
        return "(Raise %s)" % (x[1] if x[1] in _EXN else "OtherError")
    return "(Ok %s)" % render(x)


def _zs(l):
    return "(%s : list Z)" % L.lst(L.Z(v) for v in l)


def _zss(l):
    return "(%s : list (list Z))" % L.lst(_zs(r) for r in l)


def _keys(l):
    return "(%s : list key)" % L.lst(L.text(k) for k in l)


def _kvs(l):
    return "(%s : list (key * Z))" % L.lst(L.pair(L.text(k), L.Z(v)) for k, v in l)


def _kvss(l):
    return "(%s : list (list (key * Z)))" % L.lst(_kvs(r) for r in l)


def _zdict(items, pool):
    return _kvs([[k, pool.ids[vi]] for k, vi in items])


def to_coq(case, obs):
    if case["kind"] == "producer":
        return _producer_to_coq(case, obs)
    if case["kind"] == "source":
        return _source_to_coq(case, obs)
    if case["kind"] == "session":
        return _session_to_coq(case, obs)
    if case["kind"] == "keyed":
        return _keyed_to_coq(case, obs)
    pool = _Pool(case["pool"])
    if case["kind"] == "row":
        lookups = L.lst(L.pair(L.text(n), L.opt(None if di is None else L.Z(pool.ids[di]))) for n, di in case["lookups"])
        gets = L.lst(_res(g, L.Z) for g in obs["get"])
        term = "(RowCase %s %s (%s : list (key * option Z)) (%s : list (Z * Z)) %s %s %s %s %s %s %s %s (%s : list (result Z)))" % (
            _keys(case["fields"]), _zdict(case["dict"], pool), lookups,
            L.lst(L.pair(L.Z(a), L.Z(b)) for a, b in obs["jtable"]),
            _res(obs["row"], _zs), _res(obs["row_rev"], _zs), _res(obs["append"], _zss),
            _res(obs["as_map"], _kvs), _res(obs["as_dict"], _kvs), _res(obs["values"], _zs),
            _res(obs["keys"], _keys), _res(obs["as_json"], _kvs), gets)
        return ("row", term)
    term = "(FrameCase (%s : list zdict) (%s : list zdict) %s %s %s %s %s)" % (
        L.lst(_zdict(d, pool) for d in case["dicts"]), L.lst(_zdict(d, pool) for d in case["appends"]),
        _res(obs["columns"], _keys), _res(obs["rows"], _zss), _res(obs["columns_after"], _keys),
        _res(obs["rows_after"], _zss), _res(obs["dicts_after"], _kvss))
    return ("frame", term)


# ------------------------------------------------------------------ evidence helpers
def nontrivial_key(case, obs):
    pool = _Pool(case["pool"])
    if case["kind"] == "producer":
        # non-trivial: a record that has been handed over is touched while the constructor is still reading
        seen, touched = set(), False
        for a in case["actions"]:
            if a[0] == "yield":
                seen.add(a[1])
            elif a[0] in ("set", "del") and a[1] in seen:
                touched = True
        ys = [i for i, a in enumerate(case["actions"]) if a[0] == "yield"]
        return json.dumps(case, sort_keys=True) if touched and len(ys) >= 2 else None
    if case["kind"] == "source":
        # non-trivial: a frame is built from an object that delivers a dictionary with a non-None value
        fed = any(pool.ids[vi] != 0 for d in case["dicts"] for _, vi in d)
        return json.dumps(case, sort_keys=True) if fed and "frame" in case["ops"] else None
    if case["kind"] == "session":
        # non-trivial: a dictionary with a non-None value reaches a class or frame while another handle exists
        creators = sum(1 for o in case["ops"] if o[0] in ("class", "arrow", "frame", "named"))
        fed = any(o[0] in ("rowdict", "append") and any(pool.ids[vi] != 0 for _, vi in o[2]) for o in case["ops"])
        return json.dumps(case, sort_keys=True) if creators >= 2 and fed else None
    if case["kind"] == "keyed":
        # non-trivial: the first dictionary stores a non-None value under a key that is not a string
        if not case["dicts"] or not any(k[0] != "str" and pool.ids[vi] != 0 for k, vi in case["dicts"][0]):
            return None
        return json.dumps(case, sort_keys=True)
    if case["kind"] == "row":
        D = _assoc(case["dict"], pool)
        if not any(D.get(f, 0) != 0 for f in case["fields"]):
            return None
    else:
        if not case["dicts"] or not any(pool.ids[vi] != 0 for _, vi in case["dicts"][0]):
            return None
    return json.dumps(case, sort_keys=True)


def classify(case, obs):
    yield case["kind"]
    yield "mapping:" + case.get("mapping", "dict")
    if case["kind"] == "producer":
        yield "lazy:" + case.get("lazy", "generator")
        seen = set()
        ny = sum(1 for a in case["actions"] if a[0] == "yield")
        k = 0
        for a in case["actions"]:
            yield "pact:" + a[0]
            if a[0] == "yield":
                if a[1] in seen:
                    yield "same-record-object-handed-over-again"
                seen.add(a[1])
                k += 1
            elif a[0] in ("set", "del") and a[1] in seen:
                yield "handed-over-record-touched-" + ("after-the-last-yield" if k == ny else "between-reads")
                if a[1] == next((b[1] for b in case["actions"] if b[0] == "yield"), None):
                    yield "first-record-touched-after-it-was-read"
        return
    if case["kind"] == "source":
        yield "carrier:" + case["carrier"]
        yield "source-dicts=%d" % min(len(case["dicts"]), 4)
        for o in case["ops"]:
            yield "srcop:" + o
        if "frame" in case["ops"] and case["ops"].index("frame") > 0:
            yield "read-from-before-the-frame-is-built"
        if case["ops"].count("frame") > 1:
            yield "same-object-used-for-two-frames"
        return
    if case["kind"] in ("frame", "keyed"):
        yield "carrier:" + _carrier_of(case)
    if case["kind"] == "keyed":
        for d in case["dicts"] + case["appends"]:
            for k, _ in d:
                yield "key:" + k[0]
        if case["dicts"]:
            names = [str(_build(k)) for k, _ in case["dicts"][0]]
            if len(set(names)) < len(names):
                yield "first-dictionary-keys-collide-after-str"
            objs = [_build(k) for k, _ in case["dicts"][0]]
            for d in case["dicts"][1:] + case["appends"]:
                if any(_build(k) not in objs and str(_build(k)) in names for k, _ in d):
                    yield "later-dictionary-has-a-key-that-only-prints-like-a-field"
                if any(type(_build(k)) is not type(o) and _build(k) == o for k, _ in d for o in objs):
                    yield "later-dictionary-spells-an-equal-key-differently"
    if case["kind"] == "session":
        made = []
        for o in case["ops"]:
            yield "op:" + o[0] + ("-tuples-only" if o[0] == "class" and o[2] else "") + ("-" + o[2] if o[0] == "derive" else "")
            if o[0] in ("class", "arrow", "named"):
                made.append((o[0] + str(o[2]) if o[0] == "class" else o[0], tuple(o[1])))
            elif o[0] == "frame":
                made.append(("frame", tuple(k for k, _ in o[1][0]) if o[1] else ()))
        names = [f for _, f in made]
        if len(set(names)) < len(names):
            yield "handles-over-equal-name-lists"
        if any(k1 in ("classTrue", "arrow") and k2 in ("classFalse", "frame", "named") and f1 == f2
               for i, (k1, f1) in enumerate(made) for (k2, f2) in made[i + 1:]):
            yield "tuples-only-class-before-dict-class-same-names"
        return
    if case["kind"] == "row":
        f = case["fields"]
        keys = [k for k, _ in case["dict"]]
        yield "fields=%d" % len(f)
        if len(set(f)) < len(f):
            yield "duplicate-field-names"
        if any(x not in keys for x in f):
            yield "field-absent-from-dict"
        if any(k not in f for k in keys):
            yield "dict-key-outside-fields"
        if keys != [x for x in f if x in keys]:
            yield "insertion-order-differs-from-field-order"
        if any(n not in f for n, _ in case["lookups"]):
            yield "get-absent-name"
        if any(n in f for n, _ in case["lookups"]):
            yield "get-present-name"
        if any(not k.isascii() or k == "" for k in f + keys):
            yield "non-ascii-or-empty-name"
    else:
        yield "dicts=%d" % min(len(case["dicts"]), 4) + ("+" if len(case["dicts"]) > 4 else "")
        yield "appends=%d" % len(case["appends"])
        if case.get("gen"):
            yield "from-generator"
        if case["dicts"]:
            first = [k for k, _ in case["dicts"][0]]
            if not first:
                yield "first-dict-empty"
            if any([k for k, _ in d] != first for d in case["dicts"][1:]):
                yield "later-dict-differs-in-keys-or-order"
    for s in case["pool"]:
        yield "value:" + s[0]


# ------------------------------------------------------------------ generators
def corpus():
    # round 7 (seeded change r7s3): dictionaries whose keys are not all strings
    for dicts in (
        [[[["int", 0], 1], [["int", 1], 2]], [[["int", 1], 3], [["int", 0], 4]], [[["int", 1], 5]]],
        [[[["str", "name"], 1], [["int", 2024], 2]], [[["str", "name"], 3], [["int", 2024], 4]]],
        [[[["tuple", [["str", "x"], ["int", 1]]], 1], [["tuple", [["str", "x"], ["int", 2]]], 2]], [[["tuple", [["str", "x"], ["int", 2]]], 4]]],
        [[[["none"], 1], [["bool", True], 2], [["bytes", "6b"], 3]]],
        [[[["date", "2024-01-01"], 5], [["str", "total"], 5]], [[["date", "2024-01-01"], 7]]],
        [[[["int", 1], 1], [["str", "1"], 2]], [[["str", "1"], 4], [["int", 1], 3]]],
    ):
        yield {"kind": "keyed", "pool": _KPOOL, "dicts": dicts, "appends": [[[["str", "1"], 6], [["int", 1], 7]]], "carrier": "list", "mapping": "dict"}
    # round 5 (seeded change r5s2): the producer touches the first record again after it was read
    yield {"kind": "producer", "pool": [["int", 0], ["str", "n0"], ["int", 1], ["str", "n1"], ["int", 2], ["str", "n2"]], "lazy": "generator",
           "mapping": "dict", "actions": [["new", [["id", 0], ["name", 1]]], ["yield", 0], ["new", [["id", 2], ["name", 3]]], ["set", 0, "next_id", 2],
                                           ["yield", 1], ["new", [["id", 4], ["name", 5]]], ["set", 1, "next_id", 4], ["yield", 2]]}
    yield {"kind": "producer", "pool": [["int", 0], ["int", 1], ["int", 2], ["int", 10], ["int", 20]], "lazy": "generator", "mapping": "dict",
           "actions": [["new", []], ["set", 0, "a", 0], ["yield", 0], ["set", 0, "a", 1], ["set", 0, "extra", 3], ["yield", 0],
                       ["set", 0, "a", 2], ["set", 0, "extra", 4], ["yield", 0]]}
    yield {"kind": "producer", "pool": [["int", 1], ["int", 2], ["int", 3], ["int", 4]], "lazy": "lazyobj", "mapping": "dict",
           "actions": [["new", [["a", 0], ["b", 1]]], ["yield", 0], ["del", 0, "b"], ["new", [["a", 2], ["b", 3]]], ["yield", 1]]}
    # round 3 (seeded change r3s1): the records arrive through an object that is not its own iterator yet reads on
    for carrier in ("reader", "drain", "wrapped"):
        yield {"kind": "source", "pool": [["str", "alpha"], ["int", 1], ["str", "beta"], ["int", 2], ["str", "gamma"], ["int", 4], ["bool", True]],
               "carrier": carrier, "mapping": "dict", "ops": ["frame", "frame"],
               "dicts": [[["name", 0], ["n", 1]], [["n", 3], ["name", 2]], [["name", 4]], [["n", 5], ["extra", 6]]]}
    # round 2 (seeded change r2s1): a tuples-only class (from_arrow) over the same names created first
    yield {"kind": "session", "pool": [["int", 1], ["int", 2], ["str", "one"], ["str", "two"], ["str", "x"]], "mapping": "dict",
           "ops": [["arrow", ["id", "name"], [[0, 2], [1, 3]]], ["frame", [[["id", 0], ["name", 2]]], False],
                   ["append", 1, [["name", 3], ["id", 1]]], ["append", 1, [["name", 2], ["other", 4]]],
                   ["class", ["id", "name"], False], ["rowdict", 0, [["name", 3], ["id", 1]]], ["view", 0], ["rows", 0], ["rows", 1]]}
    # F-C02-1 (fixed de54b21): Row.get('zz', 7) raised ValueError instead of returning the default
    yield {"kind": "row", "fields": ["a"], "pool": [["int", 1], ["int", 7]], "dict": [["a", 0]],
           "lookups": [["zz", 1], ["zz", None], ["a", 1]]}
    # F-C02-2 (fixed 1ec769f): DataFrame([]) raised StopIteration
    yield {"kind": "frame", "pool": [["int", 1]], "dicts": [], "appends": [], "gen": False}
    yield {"kind": "frame", "pool": [["int", 1]], "dicts": [], "appends": [[["a", 0]]], "gen": True}
    # F-C02-3 (fixed 9637b46): Row(OrderedDict(b=2, a=1)) over fields (a, b) raised TypeError (compiled extractor takes an exact dict)
    yield {"kind": "row", "fields": ["a", "b"], "pool": [["int", 1], ["int", 2], ["int", 7]], "dict": [["b", 1], ["a", 0]],
           "lookups": [["a", 2], ["zz", 2]], "mapping": "ordered"}
    for mk in MAPPINGS[1:]:
        yield {"kind": "row", "fields": ["a", "b", "q"], "pool": [["int", 1], ["int", 2], ["int", 7]], "dict": [["b", 1], ["a", 0], ["z", 2]],
               "lookups": [["q", 2], ["z", None]], "mapping": mk}
        yield {"kind": "frame", "pool": [["int", 1], ["int", 2], ["int", 3]], "dicts": [[["a", 0], ["b", 1]], [["b", 2]], []],
               "appends": [[["b", 0], ["q", 1]]], "gen": False, "mapping": mk}
    # empty first dictionary still counts as a row; wrong key order; duplicate field names
    yield {"kind": "frame", "pool": [["int", 1]], "dicts": [[], [["a", 0]]], "appends": [[]], "gen": False}
    yield {"kind": "frame", "pool": [["int", 1], ["int", 2], ["int", 3]],
           "dicts": [[["a", 0], ["b", 1]], [["b", 2], ["a", 1]], [["c", 0]]], "appends": [[["b", 0], ["q", 1]]], "gen": False}
    yield {"kind": "row", "fields": ["a", "b", "a"], "pool": [["int", 1], ["int", 2], ["int", 3], ["str", "d"]],
           "dict": [["b", 0], ["a", 1], ["z", 2]], "lookups": [["a", 3], ["b", None], ["z", 3], ["", None]]}


_NAMES3 = ["a", "b", "c"]
_XPOOL = [["none"], ["int", 1], ["int", 2], ["int", 3], ["str", "dflt"]]


def _small_dicts(names):
    """Every dictionary over `names` (each key maps to its own value or to None), in every insertion order."""
    out = []
    for r in range(len(names) + 1):
        for perm in itertools.permutations(names, r):
            for mask in itertools.product([False, True], repeat=r):
                out.append([[k, 0 if m else 1 + _NAMES3.index(k)] for k, m in zip(perm, mask)])
    return out


def mnames_for_label(tier):
    return _NAMES3[:2] if tier == "quick" else _NAMES3


def exhaustive(tier):
    maxf = 2 if tier == "quick" else 3
    fnames = _NAMES3 if tier == "thorough" else _NAMES3[:2]

    def it():
        dicts = _small_dicts(_NAMES3)
        lookups = [[n, 4] for n in _NAMES3 + ["zz"]] + [["zz", None], ["a", None]]
        for n in range(maxf + 1):
            for fields in itertools.product(_NAMES3, repeat=n):
                for d in dicts:
                    yield {"kind": "row", "fields": list(fields), "pool": _XPOOL, "dict": d, "lookups": lookups}
        fd = _small_dicts(fnames)
        app = [[["c", 3], ["a", 1]]]
        yield {"kind": "frame", "pool": _XPOOL, "dicts": [], "appends": app, "gen": False}
        for d1 in (dicts if tier == "quick" else []):
            yield {"kind": "frame", "pool": _XPOOL, "dicts": [d1], "appends": app, "gen": False}
        for d1 in fd:
            yield {"kind": "frame", "pool": _XPOOL, "dicts": [d1], "appends": app, "gen": True}
            for d2 in fd:
                yield {"kind": "frame", "pool": _XPOOL, "dicts": [d1, d2], "appends": app, "gen": False}
        # the same records handed over as other mapping classes (smaller scope per class)
        ab = _small_dicts(_NAMES3[:2])
        mdicts = ab if tier == "quick" else dicts
        mnames = _NAMES3[:2] if tier == "quick" else _NAMES3
        for mk in MAPPINGS[1:]:
            for n in range(3):
                for fields in itertools.product(mnames, repeat=n):
                    for d in mdicts:
                        yield {"kind": "row", "fields": list(fields), "pool": _XPOOL, "dict": d, "lookups": lookups[2:5], "mapping": mk}
            yield {"kind": "frame", "pool": _XPOOL, "dicts": [], "appends": app, "gen": False, "mapping": mk}
            for d1 in ab:
                yield {"kind": "frame", "pool": _XPOOL, "dicts": [d1], "appends": app, "gen": True, "mapping": mk}
                for d2 in (ab if tier == "thorough" else ab[:5]):
                    yield {"kind": "frame", "pool": _XPOOL, "dicts": [d1, d2], "appends": app, "gen": False, "mapping": mk}
        # several handles alive in one process
        for c in _session_exhaustive(tier):
            yield c
        for c in _derived_exhaustive(tier):
            yield c
        # the object that delivers the dictionaries, read from before and used again afterwards
        for c in _source_exhaustive(tier):
            yield c
        # records produced lazily by a generator that keeps touching what it has handed over
        for c in _producer_exhaustive(tier):
            yield c
        # dictionaries whose keys are not all strings (int / None / bytes / tuple / date keys, keys that collide after str())
        for c in _keyed_exhaustive(tier):
            yield c

    return it(), (f"row: all field lists of <= {maxf} names over the 3-name alphabet {{a,b,c}} x all dictionaries over that alphabet "
                  f"(every subset, every insertion order, each value its own or None; 79) x 6 lookups; frame: all sequences of <= 2 "
                  f"dictionaries over a {len(fnames)}-name alphabet (every subset/order/None pattern), each followed by one append; "
                  f"and for each of the mapping classes OrderedDict, dict subclass, dict subclass with __missing__, Counter, defaultdict, UserDict: "
                  f"all field lists of <= 2 names x all dictionaries over a {len(mnames_for_label(tier))}-name alphabet, and frames of <= 2 dictionaries over {{a,b}}" + (" (second dictionary from 5 of the 13)" if tier == "quick" else "")
                  + "; sessions: every sequence of 1 or 2 handle creations out of {dict-aware class, tuples-only class, from_arrow frame, "
                    "DataFrame(dicts), DataFrame(rows=[], schema)} x name lists {[a,b],[b,a],[a]" + ("" if tier == "quick" else ",[a,b,c]")
                  + "}, and triples over [a,b]" + (" (third creator: the two class kinds)" if tier == "quick" else "")
                  + ", each followed by a use of every handle and a re-read of every row and frame"
                  + "; derived frames: base frame {DataFrame(dicts), names-only frame with appends, from_arrow} over [a,b] / [b,a] x second frame "
                    "{DataFrame(rows=list(base), schema=same / permuted / new / shorter / longer names), head(0/1/5), slice(0,2), query(true)} "
                    "x dictionaries appended to the second frame, to the base and to a head() of the second, all re-read"
                  + "; sources: each of the 9 carrier classes (list, tuple, dict values view, generator, list iterator, map, reader over a read "
                    "position, queue drain, wrapper round a generator) x record sequences (empty, the 13 single dictionaries over {a,b}, "
                  + ("all 169 pairs" if tier == "thorough" else "25 pairs") + ", three longer ones) x call histories "
                  + ("{frame; frame,frame; next,frame,list; list,frame; next,next,frame,next,frame}" if tier == "thorough" else "{frame,frame; next,frame,list; list,frame}")
                  + "; producers: generators over 5 small records x 7 edits (none, new key, overwrite, delete a / b, delete+reinsert, add+delete) of a "
                    "record already handed over - previous record edited before / after the next one is handed over, one buffer object handed over "
                    "three times with an edit between each, record edited before its first and after its last hand-over - through a plain "
                    "generator, a wrapper round it and an object whose __iter__ starts it"
                  + "; keyed: every first dictionary of 1 or 2 " + ("" if tier == "quick" else "(and a third of those of 3) ")
                  + "keys out of {1, '1', None, 'None', b'k', ('x', 1), 0, 'a', date, the date's text} in every order x {alone from a "
                    "generator + append of names and key objects; followed by itself reversed + append by name; followed by its look-alike "
                    "keys ('1' for 1, None for 'None', ...); followed by all look-alikes (True, 1.0, b'1', ...) across carriers and mapping classes}")


_PLAIN = ["a", "b", "c", "d", "e", "f", "g"]
_TRICKY = ["", "A", "a ", " a", "aa", "\u00e9", "e\u0301", "\x00", "\U0001d4b3", "0", "None", "a" * 40, "a\n", "_fields", "zz"]


def _rand_value(rng, depth=0):
    r = rng.random()
    if r < 0.12:
        return ["none"]
    if r < 0.2:
        return ["bool", rng.random() < 0.5]
    if r < 0.4:
        return ["int", rng.choice([0, 1, -1, 2, 7, 255, 2**31, -2**63, 2**63 - 1, 2**64 - 1, rng.randint(-1000, 1000)])]
    if r < 0.52:
        return ["float", rng.choice(["nan", (0.0).hex(), (-0.0).hex(), (1.0).hex(), (1.5).hex(), float("inf").hex(), (1e300).hex(),
                                     (rng.random() * 100).hex()])]
    if r < 0.7:
        return ["str", rng.choice(["", "a", "x", "None", "0", "\u00e9", "\U0001d4b3", "a b", "null", "dflt"])]
    if r < 0.76:
        return ["bytes", rng.choice(["", "00", "6162", "ff"])]
    if r < 0.8:
        return ["date", rng.choice(["2020-01-01", "1999-12-31"])]
    if r < 0.83:
        return ["datetime", "2020-01-01T01:02:03"]
    if r < 0.86:
        return ["decimal", rng.choice(["1.5", "0", "-3.25"])]
    if depth >= 2:
        return ["int", 1]
    if r < 0.92:
        return ["list", [_rand_value(rng, depth + 1) for _ in range(rng.randint(0, 3))]]
    if r < 0.96:
        return ["tuple", [_rand_value(rng, depth + 1) for _ in range(rng.randint(0, 3))]]
    ks = rng.sample(_PLAIN, rng.randint(0, 3))
    return ["dict", [[k, _rand_value(rng, depth + 1)] for k in ks]]


def _rand_names(rng):
    if rng.random() < 0.3:
        return rng.sample(_PLAIN + _TRICKY, rng.randint(2, 10))
    return rng.sample(_PLAIN, rng.randint(1, 7))


def _rand_dict(rng, names, npool, bias=None):
    keys = [k for k in names if rng.random() < 0.6]
    if bias:
        keys = list(dict.fromkeys([k for k in bias if rng.random() < 0.8] + keys))
    rng.shuffle(keys)
    return [[k, rng.randrange(npool)] for k in keys]


def _rand_mapping(rng):
    return "dict" if rng.random() < 0.5 else rng.choice(MAPPINGS[1:])


def _random_row(rng):
    names = _rand_names(rng)
    pool = [_rand_value(rng) for _ in range(rng.randint(1, 8))]
    nf = rng.choice([0, 1, 2, 2, 3, 3, 4, 4, 5, 6])
    fields = [rng.choice(names) for _ in range(nf)]
    if fields and rng.random() < 0.5:
        fields = list(dict.fromkeys(fields))  # half of the cases without duplicate names
    d = _rand_dict(rng, names, len(pool), bias=fields)
    lookups = []
    for _ in range(rng.randint(1, 5)):
        name = rng.choice(fields) if fields and rng.random() < 0.5 else rng.choice(names + ["zz", "missing", ""])
        lookups.append([name, None if rng.random() < 0.3 else rng.randrange(len(pool))])
    return {"kind": "row", "fields": fields, "pool": pool, "dict": d, "lookups": lookups, "mapping": _rand_mapping(rng)}


def _random_frame(rng):
    names = _rand_names(rng)
    pool = [_rand_value(rng) for _ in range(rng.randint(1, 8))]
    n = rng.choice([0, 1, 1, 2, 2, 3, 4, 6])
    dicts = []
    for j in range(n):
        dicts.append(_rand_dict(rng, names, len(pool), bias=[k for k, _ in dicts[0]] if j else None))
    appends = [_rand_dict(rng, names, len(pool), bias=[k for k, _ in dicts[0]] if dicts else None) for _ in range(rng.choice([0, 0, 1, 2]))]
    return {"kind": "frame", "pool": pool, "dicts": dicts, "appends": appends, "gen": False, "carrier": rng.choice(CARRIERS), "mapping": _rand_mapping(rng)}


def generate(rng, tier):
    count = 1800 if tier == "quick" else 36000
    for i in range(count):
        yield _random_frame(rng) if i % 3 == 2 else _random_row(rng)
    for i in range(500 if tier == "quick" else 10000):
        yield _random_session(rng)
    for i in range(400 if tier == "quick" else 8000):
        yield _random_source(rng)
    for i in range(300 if tier == "quick" else 6000):
        yield _random_producer(rng)
    for i in range(300 if tier == "quick" else 6000):
        yield _random_keyed(rng)


def search(rng):
    while True:
        r = rng.random()
        if r > 0.94:
            yield _random_keyed(rng)
            continue
        if r > 0.85:
            yield _random_producer(rng)
            continue
        yield _random_source(rng) if r < 0.15 else _random_session(rng) if r < 0.4 else _random_frame(rng) if r < 0.6 else _random_row(rng)


def shrink(case):
    if case["kind"] == "producer":
        yield from _shrink_producer(case)
        return
    if case["kind"] == "source":
        yield from _shrink_source(case)
        return
    if case["kind"] == "session":
        yield from _shrink_session(case)
        return
    if case["kind"] == "row":
        for key in ("lookups", "dict", "fields"):
            l = case[key]
            for i in range(len(l)):
                yield dict(case, **{key: l[:i] + l[i + 1:]})
    else:
        for key in ("appends", "dicts"):
            l = case[key]
            for i in range(len(l)):
                yield dict(case, **{key: l[:i] + l[i + 1:]})
            for i, d in enumerate(l):
                for j in range(len(d)):
                    yield dict(case, **{key: l[:i] + [d[:j] + d[j + 1:]] + l[i + 1:]})
        if case.get("gen"):
            yield dict(case, gen=False)
        if case.get("carrier") and case["carrier"] in REWINDING and case["carrier"] != "list":
            yield dict(case, carrier="list")
    if case.get("mapping", "dict") != "dict":
        yield dict(case, mapping="dict")
    # simplify values
    for i, s in enumerate(case["pool"]):
        if s != ["int", i + 1]:
            yield dict(case, pool=case["pool"][:i] + [["int", i + 1]] + case["pool"][i + 1:])
