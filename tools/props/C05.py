"""C05 - Validation accepts exactly conforming records; append is atomic.

Cases (JSON):
  {"kind": "validate", "schema": [[name, type, nullable], ...], "rec": REC}
  {"kind": "hist", "init": {"how": "schema", "schema": [...], "rows": [[vid, ...], ...]}      # rows == [] : created empty
                         | {"how": "names",  "names": [...],  "rows": [[vid, ...], ...]}
                         | {"how": "dicts",  "dicts": [[[key, vid], ...], ...]},
                   "entries": [REC, ...]}
  REC  = {"k": "dict" | "ordereddict" | "counter" | "defaultdict" | "dictsub" (dict subclasses) | "mapping" (MutableMapping, not a dict)
               | "tuple" | "scalar", "items": [[key, vid], ...]}      (items in the record's key order)
  {"kind": "session", "schemas": [COLS | {"copy_of": i}, ...], "ops": [OP, ...]}     (round 3: schema OBJECTS used, mutated in place, used again)
     OP  = ["validate", o, REC] | ["mutate", o, MUT] | ["frame", o] (DataFrame(rows=[], schema=<object o>) becomes the current frame) | ["append", REC]
     MUT = ["add", COL] | ["insert", COL] | ["pop", name] | ["settype", i, type] | ["setnull", i, bool] | ["rename", i, name] | ["reverse"]
  COL  = [name, type, nullable] | [name, type, nullable, ATTRS]   ATTRS = {"default": vid (non-null), "aliases": [names], "other": [0..9]}
         (round 4: attributes of a FlatColumn that validation must not read; "other" = description, length, precision, scale, null_count,
          lowest_value, highest_value, origin, disposition, element_type); MUT also has ["setattrs", i, ATTRS]
  {"kind": "twin", "init": as for hist (rows == []), "share_schema": bool, "entries": [[0|1, REC], ...]}   (round 7: TWO frames made from ONE
         creation argument - the same empty rows collection object / the same list of dictionaries; entries addressed to frame 0 or 1)
  init may carry "rows_as": "list" | "tuple" | "deque" | "none" (round 7: how an EMPTY rows collection is passed; "none" = no rows argument)
  type = an OrsoTypes member name | "" (type argument omitted) | "0" (the integer 0 a restored untyped column carries)
  vid  = index into POOL (vid 0 is None).  Column names / keys come from NAMES.
Observations: see observe()."""
import collections
import collections.abc
import enum
import datetime
import decimal
import importlib
import os

from vlib import coqlit as L

ID = "C05"
READY = True
TECHNIQUE = ("Coq proof (induction over the schema for validate, over append histories for the frame) about an executable model "
             "+ type/class tables regenerated from the live modules + model/implementation correspondence evaluated in Coq, "
             "exhaustive type x value decision table")
LEVEL_TEXT = ("Machine-checked Coq theorems over an executable model of RelationSchema.validate and DataFrame.append, for every schema, "
              "record and append history: validate succeeds iff the record conforms; excess keys are reported first and exactly; the three "
              "error lists are exactly the offending columns in schema order; a raising append leaves the frame unchanged; after any history "
              "the rows are the initial rows followed by the accepted records' values in column order, each conforming. Sessions (round 3): schema objects that are "
              "used, changed in place (columns added / inserted / removed / retyped / renamed / reordered) and used again are part of the model; "
              "every validation and every append is proved to be decided by the object's columns as they are at the time of the call, "
              "independently of all earlier uses. Columns carry further attributes (round 4: a declared default, aliases, descriptive "
              "attributes); the model reads only name / type / nullable, and a null in a non-nullable column is proved to be rejected and named "
              "whatever else the column declares. Round 7: two frames made from one (empty) rows collection are proved to be separate values - each ends as if "
              "only its own entries had been appended, whatever the interleaving - and the real frames are compared with that after every append. The type->class table "
              "and the issubclass matrix the model uses are regenerated from orso.types / the live classes on every run and pinned by theorems. "
              "The model is tied to schema.py / dataframe.py by running the real code on the complete type x value decision table and on random "
              "schemas x records x append histories and evaluating the model on the same inputs inside Coq; a literal property oracle on the "
              "implementation supplies replayable failing inputs.")
LEVEL_NOTE = ("Trusted: Coq kernel + vm_compute; the hand-written model (values abstracted to None | (exact class, identity, serialisable?)); "
              "isinstance(v, C) modelled as issubclass(type(v), C) over the regenerated matrix; 'serialisable' (Row.nbytes succeeds) is a flag "
              "declared per pool value and validated by the correspondence, not derived (msgpack is C01's subject); the error-category strings of "
              "DataValidationError.errors are read literally by the harness. Acceptance by append = validates AND the row can be sized "
              "(2**70 validates as INTEGER but append raises TypeError and stores nothing - the disposition of F-C05-1). "
              "Records are exact dicts, dict-subclass instances and other mappings alike (F-C05-2 fixed by 4269430, F-C02-3 by 9637b46; witnesses in corpus()). Outside the quantifier, modelled "
              "as raising and covered by the atomicity / acceptance theorems only: NULL-typed columns (TypeError), tuple/scalar entries.")
DESIGN_REF = "DESIGN.md section 8, C05"
COQ_IMPORTS = "From Orso Require Import Gen.C05_Types Model.C05."
COQ_CHECKS = {"validate": "c05_validate_check2", "hist": "c05_hist_check2", "session": "c05_session_check2", "twin": "c05_twin_check"}
COQ_SHOW = {"validate": "c05_validate_show2", "hist": "c05_hist_show2", "session": "c05_session_show2", "twin": "c05_twin_show"}
RULE = ("validate stream: the complete decision table (every OrsoTypes member and both untyped forms x nullable x one value of every class in "
        "the pool, incl. subclass pairs) on a one-column schema, then random schemas of 1..6 columns (typed/untyped/NULL, nullable or not, "
        "occasionally duplicate names) x records with every column independently missing/null/right/right-by-subclass/wrong plus 0..2 excess keys, "
        "as dict / dict subclass (OrderedDict, Counter, defaultdict, user subclass) / non-dict mapping / tuple / scalar; hist stream: frames created empty, from rows (RelationSchema or name list) or from "
        "dictionaries, 1..8 appends mixing conforming, unserialisable and non-conforming records, observing rows/_nbytes/_cursor after every "
        "append and the error's .errors/.columns; session stream: 1-2 RelationSchema objects (the second optionally a deep copy of the first), "
        "4..12 operations mixing validate, in-place changes of the object (columns.append / insert(0) / pop_column / .type / .nullable / .name "
        "assignment / reverse), making a DataFrame from the object and appending through it, records drawn against the current or the previous "
        "columns, plus a deterministic matrix (5 ways the object was used before x 12 changes x all probe records validated and appended); "
        "round 4: 35% of random columns (and columns added in sessions) carry a default / aliases / descriptive attributes, a deterministic attribute "
        "matrix (4 types x nullable x 14 attribute combinations x 6 record states, validated and appended) and zero-column schemas are enumerated in "
        "both tiers, and the value pool has subclass instances (int/str/float/list/bytes/date subclasses, IntEnum), tz-aware datetime/time, "
        "Decimal(1)/1.0/1/-0.0/inf, 2**53+1, ndarray, datetime64; round 7: twin stream - two frames made from ONE empty rows collection (list / tuple / deque / "
        "no argument) or one list of dictionaries, appended to in an interleaving, both frames and the caller's collection observed after every append "
        "(deterministic matrix + 150 random); wide matrix - schemas of 15..1025 columns (widths around 16, 32, 64, 100, 128, 256, 512, 1024) with all / a third / "
        "every other column offending the same rule, or as many excess keys, validated and appended; non-trivial = at least one column check or one append happened; distinct by canonical JSON")
TRUSTED = [
    "round 7: that an error's MESSAGE mentions every column it names is judged by the Python oracle only; the kind of empty collection passed as rows "
    "(list / tuple / deque / none) and whether twin frames share one schema object are not part of the Coq term (the model's init holds the rows as a value)",
    "round 6: every exception object caught in a case is kept and its .errors / .columns / message read a second time after all later operations "
    "of the case and four further unrelated validations; both readings are compared with the same model output (streams *_check2)",
    "C05 model (coq/Model/C05.v): values are None | (exact class id, identity, serialisable flag); isinstance = regenerated issubclass matrix on type(v)",
    "modelled, not verified: Row.nbytes failing exactly on the pool values flagged unserialisable (ormsgpack), extract_dict_columns (compiled) = dict.get per field",
    "the harness reads DataValidationError.errors under the three literal category strings of schema.py and ExcessColumnsInDataError.columns as a set",
]
ASSUMPTIONS = [
    "twin frames (C05_twin_frames_independent) are tied to the code for frames created from an EMPTY rows collection or from dictionaries (init_fresh); a "
    "NON-empty rows list is adopted by the frame as its store and shared by frames made from it (candidate finding F-C05-3 in notes/C05.md) - not generated",
    "sessions: after an in-place change of a frame's schema object the row CONTENTS of later appends through that (stale) frame are judged by the "
    "model only (field list taken when the frame was made); the oracle judges their validation outcome, atomicity and 'one row added'",
    "records are str-keyed mappings with distinct keys; values come from a pool with one or more values of every class in the regenerated class table",
    "the history theorem C05_history is over records (dicts and other mappings); tuple/scalar entries are covered by C05_history_rows / C05_append_atomic / C05_append_accepts_iff",
    "rows supplied at construction are not validated by orso; 'every stored row conforms' is proved relative to the initial rows conforming",
]

# --------------------------------------------------------------------------------------
# name, class and value pools
NAMES = ["c0", "c1", "c2", "c3", "c4", "c5", "c6", "c7", "x0", "x1", "x2", "x3"]
# round 7: names for WIDE schemas (appended to the key numbering, so earlier key ids are unchanged; the random generators keep drawing from NAMES)
WIDE_NAMES = ["w%04d" % i for i in range(2100)]
KEY_ID = {n: i for i, n in enumerate(NAMES + WIDE_NAMES)}

# the property's reading of "its column type's Python class" - deliberately NOT read from orso (the oracle must not
# follow an edited table); the same pairs are pinned by theorem C05_type_class_table in coq/Props/C05.v
EXPECTED_CLASS = {
    "ARRAY": list, "BLOB": bytes, "BOOLEAN": bool, "DATE": datetime.date, "DECIMAL": decimal.Decimal, "DOUBLE": float,
    "INTEGER": int, "INTERVAL": datetime.timedelta, "STRUCT": dict, "TIMESTAMP": datetime.datetime, "TIME": datetime.time,
    "VARCHAR": str, "JSONB": bytes,
}
UNTYPED = ("", "0", "_MISSING_TYPE")


# user-defined subclasses of the value classes (round 4)
class _MyInt(int):
    pass


class _MyStr(str):
    pass


class _MyFloat(float):
    pass


class _MyList(list):
    pass


class _MyBytes(bytes):
    pass


class _MyDate(datetime.date):
    pass


class _Colour(enum.IntEnum):
    RED = 1


# classes of harness values that are not targets of ORSO_TO_PYTHON_MAP (module, qualified name)
EXTRA_CLASSES = [
    ("builtins", "tuple"), ("builtins", "set"), ("builtins", "frozenset"), ("builtins", "bytearray"), ("builtins", "complex"),
    ("collections", "OrderedDict"), ("numpy", "int64"), ("numpy", "float64"), ("numpy", "bool_"), ("numpy", "str_"), ("numpy", "bytes_"),

    # round 4 (appended, so earlier class ids are unchanged): user subclasses of value classes, an IntEnum, numpy containers
    (__name__, "_MyInt"), (__name__, "_MyStr"), (__name__, "_MyFloat"), (__name__, "_MyList"), (__name__, "_MyBytes"), (__name__, "_MyDate"),
    (__name__, "_Colour"), ("numpy", "ndarray"), ("numpy", "datetime64"),
]


def _qual(c):
    return "%s.%s" % (c.__module__, c.__qualname__)


_CLASSES = None


def classes():
    """Class universe: the classes ORSO_TO_PYTHON_MAP maps to and the expected ones (sorted by qualified name), then the extra harness classes."""
    global _CLASSES
    if _CLASSES is None:
        from orso.types import ORSO_TO_PYTHON_MAP

        live = {c for c in ORSO_TO_PYTHON_MAP.values() if c is not None}
        for c in live:
            if not isinstance(c, type):
                raise ValueError("ORSO_TO_PYTHON_MAP maps to a non-class: %r" % (c,))
        # the classes the table maps to now, plus the classes the property expects (so that an edited table
        # still regenerates and is then caught by the pinned theorem / the oracle rather than by gen())
        targets = sorted(live | set(EXPECTED_CLASS.values()), key=_qual)
        out = list(targets)
        for mod, name in EXTRA_CLASSES:
            c = getattr(importlib.import_module(mod), name)
            if not isinstance(c, type):
                raise ValueError("extra class %s.%s is not a class" % (mod, name))
            if c not in out:
                out.append(c)
        _CLASSES = out
    return _CLASSES


def _mk_pool():
    import numpy

    big = 2 ** 70
    # (label, value, serialisable by Row.nbytes)
    return [
        ("None", None, True),
        ("bool", True, True),
        ("int", 7, True),
        ("int0", 0, True),
        ("float", 1.5, True),
        ("str", "text", True),
        ("str-empty", "", True),
        ("bytes", b"by", True),
        ("date", datetime.date(2020, 1, 2), True),
        ("datetime", datetime.datetime(2020, 1, 2, 3, 4, 5), True),
        ("time", datetime.time(1, 2, 3), True),
        ("timedelta", datetime.timedelta(days=1, seconds=5), True),
        ("dict", {"k": 1}, True),
        ("Decimal", decimal.Decimal("1.50"), True),
        ("list", [1, 2], True),
        ("tuple", (1, 2), True),
        ("set", {1, 2}, True),
        ("frozenset", frozenset([3]), True),
        ("bytearray", bytearray(b"ba"), True),
        ("complex", 1 + 2j, True),
        ("OrderedDict", collections.OrderedDict(a=1), True),
        ("np.int64", numpy.int64(3), True),
        ("np.float64", numpy.float64(2.5), True),
        ("np.bool_", numpy.bool_(True), True),
        ("np.str_", numpy.str_("q"), True),
        ("np.bytes_", numpy.bytes_(b"q"), True),
        ("bool-false", False, True),
        ("float-nan", float("nan"), True),
        # values that validate like their class but cannot be serialised by Row.nbytes (ormsgpack TypeError)
        ("int-2**70", big, False),
        ("int-neg-2**63-1", -(2 ** 63) - 1, False),
        ("int-2**64-1", 2 ** 64 - 1, True),
        ("list-of-2**70", [big], False),
        ("dict-int-key", {1: 2}, False),
        ("dict-of-2**70", {"k": big}, False),
        # round 4 (appended, so earlier value ids are unchanged): subclass instances, equal-but-different values, tz-aware, big ints
        ("int-subclass", _MyInt(5), True),
        ("str-subclass", _MyStr("s"), True),
        ("float-subclass", _MyFloat(2.0), True),
        ("list-subclass", _MyList([1]), True),
        ("bytes-subclass", _MyBytes(b"x"), True),
        ("date-subclass", _MyDate(2020, 1, 1), True),
        ("IntEnum-member", _Colour.RED, True),
        ("datetime-tz-aware", datetime.datetime(2020, 1, 1, tzinfo=datetime.timezone.utc), True),
        ("time-tz-aware", datetime.time(1, 2, tzinfo=datetime.timezone.utc), False),
        ("Decimal-1", decimal.Decimal(1), True),
        ("float-1.0", 1.0, True),
        ("int-1", 1, True),
        ("float-neg-zero", -0.0, True),
        ("float-inf", float("inf"), True),
        ("int-2**53+1", 2 ** 53 + 1, True),
        ("ndarray", numpy.array([1, 2]), True),
        ("np.datetime64", numpy.datetime64("2020-01-01"), True),
    ]


_POOL = None
_VID_BY_ID = None


def pool():
    global _POOL, _VID_BY_ID
    if _POOL is None:
        _POOL = _mk_pool()
        _VID_BY_ID = {id(v): i for i, (_, v, _) in enumerate(_POOL) if v is not None}
    return _POOL


def val(vid):
    return pool()[vid][1]


def vid_of(obj):
    pool()
    if obj is None:
        return 0
    return _VID_BY_ID.get(id(obj))


def class_id(c):
    cl = classes()
    for i, k in enumerate(cl):
        if k is c:
            return i
    raise ValueError("class %r is not in the class table" % (c,))


# --------------------------------------------------------------------------------------
# S1: regenerated tables

def _coqstr(s):
    if '"' in s or "\\" in s or any(ord(ch) > 126 or ord(ch) < 32 for ch in s):
        raise ValueError("unexpected character in a name: %r" % s)
    return '"%s"%%string' % s


def gen(repo):
    import enum

    import orso
    import orso.types as T

    here = os.path.realpath(os.path.dirname(orso.__file__))
    want = os.path.realpath(os.path.join(repo, "orso"))
    if here != want:
        raise RuntimeError("orso imported from %s, expected %s" % (here, want))
    OT = T.OrsoTypes
    if not (isinstance(OT, type) and issubclass(OT, enum.Enum)):
        raise ValueError("OrsoTypes is not an Enum")
    members = list(OT.__members__.items())
    if not members or "_MISSING_TYPE" not in OT.__members__:
        raise ValueError("OrsoTypes has no _MISSING_TYPE member")
    tid = {m: i for i, (_, m) in enumerate(members)}
    M = T.ORSO_TO_PYTHON_MAP
    if not isinstance(M, dict) or not M:
        raise ValueError("ORSO_TO_PYTHON_MAP is not a non-empty dict")
    cl = classes()
    rows = []
    for k, c in M.items():
        if k not in tid:
            raise ValueError("ORSO_TO_PYTHON_MAP key is not an OrsoTypes member: %r" % (k,))
        if c is None:
            rows.append((tid[k], None))
        elif isinstance(c, type):
            rows.append((tid[k], class_id(c)))
        else:
            raise ValueError("ORSO_TO_PYTHON_MAP[%r] is neither a class nor None: %r" % (k, c))
    rows.sort()
    sub = []
    for i, c in enumerate(cl):
        sub.append((i, [j for j, d in enumerate(cl) if issubclass(c, d)]))
    P = pool()
    if P[0][1] is not None:
        raise ValueError("pool value 0 must be None")
    ptab = []
    seen_classes = set()
    for i, (_, v, packable) in enumerate(P):
        if i == 0:
            continue
        ptab.append((i, class_id(type(v)), bool(packable)))
        seen_classes.add(type(v))
    missing = [c for c in cl if c not in seen_classes]
    if missing:
        raise ValueError("no pool value for classes %r" % (missing,))
    out = []
    out.append("(* GENERATED on every run by tools/props/C05.py gen() from the live orso.types module and the live Python classes.")
    out.append("   DO NOT EDIT.  Type id = position in OrsoTypes.__members__; class id = position in the class list below. *)")
    out.append("From Coq Require Import List NArith String.")
    out.append("Import ListNotations.")
    out.append("")
    out.append("(* OrsoTypes.__members__ *)")
    out.append("Definition type_names : list (N * string) :=\n  [" + ";\n   ".join("(%s, %s)" % (L.N(i), _coqstr(n)) for i, (n, _) in enumerate(members)) + "].")
    out.append("")
    out.append("(* the member validate treats as 'no type' (OrsoTypes._MISSING_TYPE) *)")
    out.append("Definition untyped_member : N := %s." % L.N(tid[OT._MISSING_TYPE]))
    out.append("")
    out.append("(* classes: the targets of ORSO_TO_PYTHON_MAP, then the classes of the other harness values *)")
    out.append("Definition class_names : list (N * string) :=\n  [" + ";\n   ".join("(%s, %s)" % (L.N(i), _coqstr(_qual(c))) for i, c in enumerate(cl)) + "].")
    out.append("")
    out.append("(* ORSO_TO_PYTHON_MAP: type id -> Some class id, or None when the table maps the type to the Python object None;")
    out.append("   a type id that is not listed is not a key of the table *)")
    out.append("Definition type_class_table : list (N * option N) :=\n  [" + ";\n   ".join(
        "(%s, %s)" % (L.N(t), L.opt(None if c is None else L.N(c))) for t, c in rows) + "].")
    out.append("")
    out.append("(* issubclass(c, d) for all classes above: class id -> ids of the classes it is a subclass of *)")
    out.append("Definition subclass_table : list (N * list N) :=\n  [" + ";\n   ".join(
        "(%s, %s)" % (L.N(i), L.lst(L.N(j) for j in js)) for i, js in sub) + "].")
    out.append("")
    out.append("Definition cls_str : N := %s." % L.N(class_id(str)))
    out.append("")
    out.append("(* the harness's value pool: value id -> (class id of type(value), Row.nbytes succeeds); value id 0 is None *)")
    out.append("Definition pool_table : list (N * (N * bool)) :=\n  [" + ";\n   ".join(
        "(%s, (%s, %s))" % (L.N(i), L.N(c), L.boolean(p)) for i, c, p in ptab) + "].")
    out.append("")
    return {"C05_Types": "\n".join(out)}


# --------------------------------------------------------------------------------------
# running the implementation

MISSING_KEY = "Column in Schema Not Found in Record"
NOTNULL_KEY = "Column not Nullable"
WRONG_KEY = "Incorrect Type"


class _Mapping(collections.abc.MutableMapping):
    """A MutableMapping that is not a dict."""

    def __init__(self, d):
        self._d = dict(d)

    def __getitem__(self, k):
        return self._d[k]

    def __setitem__(self, k, v):
        self._d[k] = v

    def __delitem__(self, k):
        del self._d[k]

    def __iter__(self):
        return iter(self._d)

    def __len__(self):
        return len(self._d)


def _py_type(ty):
    """The object a column's .type attribute holds for the case's type string."""
    from orso.types import OrsoTypes

    if ty == "":
        return OrsoTypes._MISSING_TYPE
    if ty == "0":
        return 0
    return OrsoTypes.__members__[ty]


def _mk_col(col):
    from orso.schema import FlatColumn

    name, ty, nullable = col[0], col[1], col[2]
    attrs = col[3] if len(col) > 3 else {}
    kw = {"name": name, "nullable": nullable}
    if ty != "":
        kw["type"] = _py_type(ty)
    c = None
    if attrs.get("default") is not None:
        try:  # the constructor parses a default with the column type; not every (type, value) pair survives that
            c = FlatColumn(default=val(attrs["default"]), **kw)
        except Exception:
            c = None
    if c is None:
        c = FlatColumn(**kw)
    _set_attrs(c, attrs)
    return c


OTHER_ATTRS = ["description", "length", "precision", "scale", "null_count", "lowest_value", "highest_value", "origin", "disposition", "element_type"]


def _set_attrs(c, attrs):
    """Assign the attributes validation must not read."""
    from orso.schema import ColumnDisposition
    from orso.types import OrsoTypes

    if attrs.get("default") is not None and c.default is None:
        c.default = val(attrs["default"])
    if attrs.get("aliases"):
        c.aliases = list(attrs["aliases"])
    values = {"description": "a description", "length": 3, "precision": 5, "scale": 2, "null_count": 1, "lowest_value": 0, "highest_value": 9,
              "origin": ["somewhere"], "disposition": list(ColumnDisposition)[0], "element_type": OrsoTypes.INTEGER}
    for i in attrs.get("other", []):
        setattr(c, OTHER_ATTRS[i], values[OTHER_ATTRS[i]])


def _mk_schema(cols):
    from orso.schema import RelationSchema

    return RelationSchema(name="t", columns=[_mk_col(c) for c in cols])


def apply_mut(cols, mut):
    """The column list after an in-place change of the schema object (pure; used by the generators and the oracle).
    Returns None when the change is not applicable (index out of range)."""
    cols = [list(c) for c in cols]
    k = mut[0]
    if k == "add":
        return cols + [list(mut[1])]
    if k == "insert":
        return [list(mut[1])] + cols
    if k == "pop":
        for i, c in enumerate(cols):
            if c[0] == mut[1]:
                return cols[:i] + cols[i + 1:]
        return cols
    if k == "reverse":
        return cols[::-1]
    i = mut[1]
    if not (0 <= i < len(cols)):
        return None
    if k == "setattrs":
        cols[i] = cols[i][:3] + [mut[2]]
        return cols
    if k == "settype":
        cols[i][1] = mut[2]
    elif k == "setnull":
        cols[i][2] = mut[2]
    elif k == "rename":
        cols[i][0] = mut[2]
    else:
        raise KeyError(k)
    return cols


def _do_mut(schema, mut):
    k = mut[0]
    if k == "add":
        schema.columns.append(_mk_col(mut[1]))
    elif k == "insert":
        schema.columns.insert(0, _mk_col(mut[1]))
    elif k == "pop":
        schema.pop_column(mut[1])
    elif k == "reverse":
        schema.columns.reverse()
    elif k == "settype":
        schema.columns[mut[1]].type = _py_type(mut[2])
    elif k == "setnull":
        schema.columns[mut[1]].nullable = mut[2]
    elif k == "rename":
        schema.columns[mut[1]].name = mut[2]
    elif k == "setattrs":
        col = schema.columns[mut[1]]
        col.default = None
        _set_attrs(col, mut[2])
    else:
        raise KeyError(k)


class _UserDict(dict):
    """A user-defined dict subclass."""


DICT_SUBCLASS_KINDS = ("ordereddict", "counter", "defaultdict", "dictsub")
RECORD_KINDS = ("dict",) + DICT_SUBCLASS_KINDS + ("mapping",)


def _mk_entry(rec):
    items = [(k, val(v)) for k, v in rec["items"]]
    k = rec["k"]
    if k == "dict":
        return dict(items)
    if k == "ordereddict":
        return collections.OrderedDict(items)
    if k == "counter":
        c = collections.Counter()
        dict.update(c, items)  # a Counter holding arbitrary values; c[missing] answers 0 without storing it
        return c
    if k == "defaultdict":
        return collections.defaultdict(int, items)  # d[missing] would store the key with value 0
    if k == "dictsub":
        return _UserDict(items)
    if k == "mapping":
        return _Mapping(items)
    if k == "tuple":
        return tuple(v for _, v in items)
    if k == "scalar":
        return 5
    raise KeyError(k)


def _cell(x):
    v = vid_of(x)
    if v is not None:
        return v
    if isinstance(x, str) and x in KEY_ID:
        return {"key": x}
    return {"unknown": repr(x)[:40]}


def _canon(res):
    """Canonical reading of what a call returned or raised: res = ("ok", value) | ("exc", exception object)."""
    from orso.exceptions import DataValidationError, ExcessColumnsInDataError

    if res[0] == "ok":
        return {"v": "ok", "ret": repr(res[1])}
    e = res[1]
    if isinstance(e, ExcessColumnsInDataError):
        cols = e.columns
        msg = str(e)
        return {"v": "excess", "columns": sorted(str(c) for c in cols), "n": len(cols),
                "msg_unnamed": sorted(str(c) for c in cols if str(c) not in msg)[:3]}
    if isinstance(e, DataValidationError):
        errs = e.errors
        wrong = []
        for t in errs.get(WRONG_KEY, []):
            ty = t[2]
            wrong.append([t[0], _cell(t[1]), getattr(ty, "name", repr(ty))])
        msg = str(e)
        named = list(errs.get(MISSING_KEY, [])) + list(errs.get(NOTNULL_KEY, [])) + [w[0] for w in wrong]
        return {"v": "errors", "missing": list(errs.get(MISSING_KEY, [])), "notnull": list(errs.get(NOTNULL_KEY, [])),
                "wrong": wrong, "other": sorted(str(k) for k in errs if k not in (MISSING_KEY, NOTNULL_KEY, WRONG_KEY)),
                "msg_unnamed": [str(n) for n in named if "`%s`" % n not in msg][:3]}
    return {"v": "raise", "exc": type(e).__name__}


def _outcome(fn, kept=None):
    """Run fn; canonical outcome, read at once.  kept (a list) receives the raw result - the exception OBJECT - and the message
    text it had, so that it can be read a second time after later operations (_late)."""
    try:
        res = ("ok", fn())
    except Exception as e:
        res = ("exc", e)
    if kept is not None:
        kept.append((res, str(res[1]) if res[0] == "exc" else None))
    return _canon(res)


def _disturb():
    """Unrelated validations through fresh objects: rejected for every reason, and accepted."""
    sch = _mk_schema([["c7", "INTEGER", False], ["c6", "VARCHAR", False]])
    for rec in ({}, {"c7": None, "c6": 7}, {"c7": 1, "c6": "t", "x3": 1, "x2": 2}, {"c7": 1, "c6": "t"}):
        try:
            sch.validate(rec)
        except Exception:
            pass


def _late(kept):
    """Second reading of every kept result, after everything else in the case (and _disturb) has run."""
    _disturb()
    out = []
    for res, msg in kept:
        d = _canon(res)
        if res[0] == "exc":
            d["msg_same"] = str(res[1]) == msg
        out.append(d)
    return out


def _same_reading(now, late):
    return all(now.get(k) == late.get(k) for k in ("v", "ret", "columns", "n", "missing", "notnull", "wrong", "other", "exc")) \
        and late.get("msg_same", True)


def _rows_of(df):
    return [[_cell(x) for x in tuple(r)] for r in df._rows]


def _keys_after(rec, entry):
    """The record's keys after the call (a defaultdict must not have gained any); None for non-records."""
    if rec["k"] in RECORD_KINDS:
        return [str(k) for k in entry.keys()]
    return None


def observe(case):
    from orso.dataframe import DataFrame

    if case["kind"] == "validate":
        schema = _mk_schema(case["schema"])
        entry = _mk_entry(case["rec"])
        kept = []
        out = _outcome(lambda: schema.validate(entry), kept)
        out["keys_after"] = _keys_after(case["rec"], entry)
        out["late"] = _late(kept)[0]
        return out
    if case["kind"] == "session":
        return _observe_session(case)
    if case["kind"] == "twin":
        return _observe_twin(case)
    init = case["init"]
    df = _mk_frame(init, _mk_arg(init))
    obs = {"init_rows": _rows_of(df), "init_nb": df._nbytes is not None, "init_cur": df._cursor is not None,
           "names": [str(c) for c in df.column_names], "steps": []}
    kept = []
    for rec in case["entries"]:
        entry = _mk_entry(rec)
        out = _outcome(lambda: df.append(entry), kept)
        obs["steps"].append({"out": out, "rows": _rows_of(df), "count": df.rowcount, "keys_after": _keys_after(rec, entry),
                             "nb": df._nbytes is not None, "cur": df._cursor is not None})
    for st, late in zip(obs["steps"], _late(kept)):
        st["late"] = late
    return obs


def _mk_arg(init):
    """The ONE creation argument of a frame: the rows collection (round 7: an empty collection may be given as a list, a tuple,
    a deque, or not at all - "rows_as") or the list of dictionaries."""
    if init["how"] == "dicts":
        return [{k: val(v) for k, v in d} for d in init["dicts"]]
    rows = [tuple(val(v) for v in r) for r in init["rows"]]
    form = init.get("rows_as", "list")
    if form == "list":
        return rows
    if rows:
        raise ValueError("rows_as is for empty row collections only")
    return {"tuple": (), "deque": collections.deque(), "none": None}[form]


def _mk_frame(init, arg, schema=None):
    from orso.dataframe import DataFrame

    if init["how"] == "dicts":
        return DataFrame(dictionaries=arg)
    if schema is None:
        schema = _mk_schema(init["schema"]) if init["how"] == "schema" else list(init["names"])
    if init.get("rows_as") == "none":
        return DataFrame(schema=schema)
    return DataFrame(rows=arg, schema=schema)


def _observe_twin(case):
    """Two frames created from the SAME creation argument (one collection object), appended to in the given interleaving."""
    init = case["init"]
    arg = _mk_arg(init)
    schema = None
    if init["how"] == "schema" and case.get("share_schema"):
        schema = _mk_schema(init["schema"])  # one schema object for both frames as well
    frames = [_mk_frame(init, arg, schema), _mk_frame(init, arg, schema)]

    def state(df):
        return {"rows": _rows_of(df), "count": df.rowcount, "nb": df._nbytes is not None, "cur": df._cursor is not None}

    def caller():
        if init["how"] == "dicts" or arg is None:
            return []
        return [[_cell(x) for x in tuple(r)] for r in arg]

    obs = {"init": [state(f) for f in frames], "names": [[str(c) for c in f.column_names] for f in frames], "steps": []}
    kept = []
    for which, rec in case["entries"]:
        entry = _mk_entry(rec)
        df = frames[which]
        out = _outcome(lambda: df.append(entry), kept)
        obs["steps"].append({"out": out, "frames": [state(f) for f in frames], "caller": caller(), "keys_after": _keys_after(rec, entry),
                             "arg_len": None if arg is None else len(arg)})
    for st, late in zip(obs["steps"], _late(kept)):
        st["late"] = late
    return obs


def _observe_session(case):
    import copy

    from orso.dataframe import DataFrame

    import pickle

    objs = []
    for sc in case["schemas"]:
        if isinstance(sc, dict):  # an equal, independent object: deep copy, or a pickle round trip
            src = objs[sc["copy_of"]]
            objs.append(pickle.loads(pickle.dumps(src)) if sc.get("how") == "pickle" else copy.deepcopy(src))
        else:
            objs.append(_mk_schema(sc))
    df = None
    obs = []
    kept = []
    for op in case["ops"]:
        k = op[0]
        if k == "validate":
            schema, entry = objs[op[1]], _mk_entry(op[2])
            out = _outcome(lambda: schema.validate(entry), kept)
            obs.append({"op": "validate", "out": out, "keys_after": _keys_after(op[2], entry)})
        elif k == "mutate":
            try:
                _do_mut(objs[op[1]], op[2])
                obs.append({"op": "unit"})
            except Exception as e:
                obs.append({"op": "raise", "exc": type(e).__name__})
        elif k == "frame":
            df = DataFrame(rows=[], schema=objs[op[1]])
            obs.append({"op": "unit"})
        elif k == "append":
            if df is None:
                obs.append({"op": "raise", "exc": "NoFrame"})
                continue
            entry = _mk_entry(op[1])
            out = _outcome(lambda: df.append(entry), kept)
            obs.append({"op": "append", "out": out, "rows": _rows_of(df), "count": df.rowcount, "keys_after": _keys_after(op[1], entry),
                        "nb": df._nbytes is not None, "cur": df._cursor is not None})
        else:
            raise KeyError(k)
    late = iter(_late(kept))
    for ob in obs:
        if ob["op"] in ("validate", "append"):
            ob["late"] = next(late)
    return obs


# --------------------------------------------------------------------------------------
# the property, read literally (independent of the Coq model; uses Python's own isinstance and EXPECTED_CLASS)

def _expected_validation(cols, rec):
    """None if the schema is outside the quantifier for this record, else ("ok",) | ("excess", set) | ("errors", m, n, w)."""
    items = rec["items"]
    keys = [k for k, _ in items]
    d = {k: v for k, v in items}
    names = [c[0] for c in cols]
    extra = set(keys) - set(names)
    if extra:
        return ("excess", extra)
    missing, notnull, wrong = [], [], []
    for col in cols:
        name, ty, nullable = col[0], col[1], col[2]  # a default, aliases ... are not the property's business
        if name not in d:
            missing.append(name)
            continue
        v = val(d[name])
        if v is None:
            if not nullable:
                notnull.append(name)
            continue
        if ty in UNTYPED:
            continue
        if ty not in EXPECTED_CLASS:
            return None  # a column type without a Python class (NULL) met a value: outside the quantifier
        if not isinstance(v, EXPECTED_CLASS[ty]):
            wrong.append([name, d[name], ty])
    if missing or notnull or wrong:
        return ("errors", missing, notnull, wrong)
    return ("ok",)


def _check_outcome(exp, out, where, ok_ret):
    if exp[0] == "ok":
        if out["v"] != "ok":
            return f"{where}: the record conforms to the schema and must be accepted, got {out}"
        if ok_ret is not None and out.get("ret") != ok_ret:
            return f"{where}: validate must return True for a conforming record, returned {out.get('ret')}"
        return None
    if exp[0] == "excess":
        if out["v"] != "excess":
            return f"{where}: keys {sorted(exp[1])} name no schema column: an excess-columns error naming exactly them is required (checked first), got {out}"
        if out["columns"] != sorted(exp[1]) or out["n"] != len(exp[1]):
            return f"{where}: the excess-columns error must name exactly {sorted(exp[1])}, names {out['columns']}"
        if out.get("msg_unnamed"):
            return f"{where}: the error's message must name every excess key, it does not mention {out['msg_unnamed']}"
        return None
    _, m, n, w = exp
    if out["v"] != "errors":
        return f"{where}: a validation error naming missing={m} not-nullable={n} wrongly-typed={[x[0] for x in w]} is required, got {out}"
    if out["other"]:
        return f"{where}: unexpected error categories {out['other']}"
    if sorted(out["missing"]) != sorted(m):
        return f"{where}: missing columns must be exactly {m}, error names {out['missing']}"
    if sorted(out["notnull"]) != sorted(n):
        return f"{where}: nulls in non-nullable columns must be exactly {n}, error names {out['notnull']}"
    if sorted(map(repr, out["wrong"])) != sorted(map(repr, w)):
        return f"{where}: wrongly typed values must be exactly {w} (column, value, type), error names {out['wrong']}"
    if out.get("msg_unnamed"):
        return f"{where}: the error's message must name every offending column, it does not mention {out['msg_unnamed']}"
    return None


def _legend(case):
    vids = set()

    def walk(x):
        if isinstance(x, dict):
            if "items" in x:
                vids.update(v for _, v in x["items"])
            for k in ("rec", "init", "entries", "rows", "dicts"):
                if k in x:
                    walk(x[k])
        elif isinstance(x, list):
            for y in x:
                if isinstance(y, int):
                    vids.add(y)
                elif isinstance(y, list) and len(y) == 2 and isinstance(y[0], str) and isinstance(y[1], int):
                    vids.add(y[1])
                else:
                    walk(y)

    walk(case)
    for op in case.get("ops", []):
        for x in op:
            if isinstance(x, dict) and "items" in x:
                vids.update(v for _, v in x["items"])
    return "; ".join("%d=%s" % (v, pool()[v][0]) for v in sorted(vids) if 0 <= v < len(pool()))


def _oracle_late(case, obs):
    """An error is a value: kept and read again after every later operation of the case (and further unrelated validations) it
    must say what it said when it was caught - same columns, same message."""
    if case["kind"] == "validate":
        pairs = [("validate", obs, obs["late"])]
    elif case["kind"] == "hist":
        pairs = [(f"append {i} {rec}", st["out"], st["late"]) for i, (rec, st) in enumerate(zip(case["entries"], obs["steps"]))]
    elif case["kind"] == "twin":
        pairs = [(f"append {i} {x}", st["out"], st["late"]) for i, (x, st) in enumerate(zip(case["entries"], obs["steps"]))]
    else:
        pairs = [(f"op {i} {op}", ob["out"], ob["late"]) for i, (op, ob) in enumerate(zip(case["ops"], obs)) if "late" in ob]
    for where, now, late in pairs:
        if not _same_reading(now, late):
            shown = {k: v for k, v in now.items() if k not in ("late", "keys_after")}
            return (f"{where}: the outcome caught at the time was {shown}; the same exception object read again after the later "
                    f"operations says {late} - an error must keep naming its own record's columns")
    return None


def oracle(case, obs):
    why = _oracle(case, obs)
    if why is None:
        why = _oracle_late(case, obs)
    if why is not None:
        why += "   [value ids: " + _legend(case) + "]"
    return why


def _oracle(case, obs):
    if case["kind"] == "session":
        return _oracle_session(case, obs)
    if case["kind"] == "validate":
        rec = case["rec"]
        if rec["k"] in ("tuple", "scalar"):
            return None if obs["v"] == "raise" else f"validating a non-mapping must raise, got {obs}"
        if obs["keys_after"] != [k for k, _ in rec["items"]]:
            return f"validate must not change the record: keys were {[k for k, _ in rec['items']]}, are {obs['keys_after']}"
        exp = _expected_validation(case["schema"], rec)
        if exp is None:
            return None
        return _check_outcome(exp, obs, "validate", "True")
    if case["kind"] == "twin":
        return _oracle_twin(case, obs)
    init = case["init"]
    if init["how"] == "schema":
        cols, names = init["schema"], [c[0] for c in init["schema"]]
        rows = [list(r) for r in init["rows"]]
    elif init["how"] == "names":
        cols, names = None, list(init["names"])
        rows = [list(r) for r in init["rows"]]
    else:
        cols = None
        names = [k for k, _ in init["dicts"][0]] if init["dicts"] else []
        rows = [[dict((k, v) for k, v in d).get(n, 0) for n in names] for d in init["dicts"]]
    if obs["init_rows"] != rows:
        return f"a frame created from {init['how']} must hold the rows {rows}, holds {obs['init_rows']}"
    if obs["names"] != names:
        return f"column names must be {names}, are {obs['names']}"
    for i, (rec, st) in enumerate(zip(case["entries"], obs["steps"])):
        why, rows = _judge_append(f"append {i} {rec}", rec, st, rows, cols, names)
        if why:
            return why
    return None


def _oracle_twin(case, obs):
    """Two frames created from one (empty) rows collection / one list of dictionaries: each holds exactly the records IT accepted."""
    init = case["init"]
    if init["how"] == "schema":
        cols, names = init["schema"], [c[0] for c in init["schema"]]
        rows0 = [list(r) for r in init["rows"]]
    elif init["how"] == "names":
        cols, names = None, list(init["names"])
        rows0 = [list(r) for r in init["rows"]]
    else:
        cols = None
        names = [k for k, _ in init["dicts"][0]] if init["dicts"] else []
        rows0 = [[dict((k, v) for k, v in d).get(n, 0) for n in names] for d in init["dicts"]]
    if init["how"] != "dicts" and rows0:
        return None  # a non-empty rows list is adopted as the store itself (shared): not generated, see notes (round 7)
    rows = [list(rows0), list(rows0)]
    for w in (0, 1):
        if obs["init"][w]["rows"] != rows0:
            return f"frame {w} created from {init['how']} must hold the rows {rows0}, holds {obs['init'][w]['rows']}"
        if obs["names"][w] != names:
            return f"frame {w}: column names must be {names}, are {obs['names'][w]}"
    n_arg = len(init["dicts"]) if init["how"] == "dicts" else 0
    for i, ((which, rec), st) in enumerate(zip(case["entries"], obs["steps"])):
        where = f"append {i} to frame {which} {rec}"
        mine = dict(st["frames"][which], out=st["out"], keys_after=st["keys_after"])
        why, rows[which] = _judge_append(where, rec, mine, rows[which], cols, names)
        if why:
            return why
        other = st["frames"][1 - which]
        if other["rows"] != rows[1 - which] or other["count"] != len(rows[1 - which]):
            return (f"{where}: frame {1 - which} (made from the same {init.get('rows_as', 'list') if init['how'] != 'dicts' else 'dictionaries'} argument) accepted "
                    f"{rows[1 - which]} and must hold exactly that; after this append to frame {which} it holds {other['rows']} (rowcount {other['count']})")
        if st["caller"] != [] or (st["arg_len"] is not None and st["arg_len"] != n_arg):
            return f"{where}: the caller's collection passed at creation must be left as it was, now has {st['arg_len']} element(s) {st['caller']}"
    return None


def _judge_append(where, rec, st, rows, cols, names, stale=False):
    """One append: cols = the schema's columns now (None: name-list frame), names = the frame's fields, rows = rows before.
    stale: the schema object was changed after the frame was made - then only the validation outcome, atomicity and 'one row
    added' are judged, not the row's contents.  Returns (why | None, rows afterwards)."""
    out = st["out"]
    d = {k: v for k, v in rec["items"]}
    if st["count"] != len(st["rows"]):
        return f"{where}: rowcount {st['count']} differs from the number of stored rows {len(st['rows'])}", rows
    if out["v"] != "ok":
        # raised: the frame's rows must be unchanged
        if st["rows"] != rows:
            return f"{where}: the append raised {out} but the rows changed from {rows} to {st['rows']}", rows
    must_accept = None
    if rec["k"] in RECORD_KINDS and st["keys_after"] != [k for k, _ in rec["items"]]:
        return f"{where}: append must not change the record: keys were {[k for k, _ in rec['items']]}, are {st['keys_after']}", rows
    if rec["k"] in RECORD_KINDS:
        new_row = [d.get(n, 0) for n in names]
        sizable = all(pool()[v][2] for v in new_row)
        if cols is not None:
            exp = _expected_validation(cols, rec)
            if exp is not None and exp[0] != "ok":
                return _check_outcome(exp, out, where, None), rows
            must_accept = exp is not None and sizable
        else:
            must_accept = sizable
    elif cols is not None:
        if out["v"] == "ok":
            return f"{where}: a non-mapping entry cannot validate against a schema; append must raise", rows
        return None, rows
    else:
        new_row = [v for _, v in rec["items"]] if rec["k"] == "tuple" else None
    if out["v"] == "ok":
        if stale:
            if len(st["rows"]) != len(rows) + 1 or st["rows"][:len(rows)] != rows:
                return f"{where}: accepted: exactly one row must be added to {rows}, frame holds {st['rows']}", rows
            return None, st["rows"]
        if new_row is None or st["rows"] != rows + [new_row]:
            return f"{where}: accepted: exactly one row {new_row} (values in column order) must be added to {rows}, frame holds {st['rows']}", rows
        rows = rows + [new_row]
    elif must_accept and not stale:
        return f"{where}: the record conforms and can be stored, so the append must add one row; it raised {out}", rows
    return None, rows


def _oracle_session(case, obs):
    """Every use of a schema object is judged against that object's columns AS THEY ARE at the time of the call (the
    case's mutations applied, in order, by apply_mut) - whatever was validated or appended before."""
    cols = []
    for sc in case["schemas"]:
        cols.append([list(c) for c in (cols[sc["copy_of"]] if isinstance(sc, dict) else sc)])
    frame = None
    for i, (op, ob) in enumerate(zip(case["ops"], obs)):
        k = op[0]
        where = f"op {i} {op} (object's columns now: {cols[op[1]] if k != 'append' else (cols[frame['o']] if frame else None)})"
        if ob["op"] == "raise":
            return None  # not a well-formed session (bad index, append without a frame): nothing to judge; Coq flags it
        if k == "validate":
            rec = op[2]
            if rec["k"] in ("tuple", "scalar"):
                if ob["out"]["v"] != "raise":
                    return f"{where}: validating a non-mapping must raise, got {ob['out']}"
                continue
            if ob["keys_after"] != [x for x, _ in rec["items"]]:
                return f"{where}: validate must not change the record: keys are {ob['keys_after']}"
            exp = _expected_validation(cols[op[1]], rec)
            if exp is not None:
                why = _check_outcome(exp, ob["out"], where, "True")
                if why:
                    return why
        elif k == "mutate":
            new = apply_mut(cols[op[1]], op[2])
            if new is None:
                return None
            cols[op[1]] = new
            if frame is not None and frame["o"] == op[1]:
                frame["stale"] = True
        elif k == "frame":
            frame = {"o": op[1], "names": [c[0] for c in cols[op[1]]], "rows": [], "stale": False}
        elif k == "append":
            if frame is None:
                return None
            why, frame["rows"] = _judge_append(where, op[1], ob, frame["rows"], cols[frame["o"]], frame["names"], stale=frame["stale"])
            if why:
                return why
    return None


# --------------------------------------------------------------------------------------
# Coq literals

def _coq_type(ty):
    from orso.types import OrsoTypes

    if ty in UNTYPED:
        return "None"
    names = list(OrsoTypes.__members__)
    return L.opt(L.N(names.index(ty)))


def _coq_schema(cols):
    return L.lst(_coq_col(c) for c in cols)


def _coq_val(c):
    if isinstance(c, int):
        return "(pv %s)" % L.N(c)
    if "key" in c:
        return "(key_value %s)" % L.N(KEY_ID[c["key"]])
    return "(VObj 999999%N (-1)%Z false)"


def _coq_items(items):
    return L.lst("(%s, %s)" % (L.N(KEY_ID[k]), _coq_val(v)) for k, v in items)


_KIND = {"dict": "KDict", "ordereddict": "KDictSub", "counter": "KDictSub", "defaultdict": "KDictSub", "dictsub": "KDictSub",
         "mapping": "KMapping", "tuple": "KTuple", "scalar": "KScalar"}


def _coq_entry(rec):
    return "(mkent %s %s)" % (_KIND[rec["k"]], _coq_items(rec["items"]))


def _coq_out(out, ok):
    from orso.types import OrsoTypes

    v = out["v"]
    if v == "ok":
        return ok
    if v == "excess":
        return "(OExcess %s)" % L.lst(L.N(KEY_ID[c]) for c in out["columns"])
    if v == "errors":
        names = list(OrsoTypes.__members__)
        if out["other"]:
            return "OOther"
        wrong = L.lst("(%s, %s, %s)" % (L.N(KEY_ID[n]), _coq_val(c), L.N(names.index(t)) if t in names else "999999%N") for n, c, t in out["wrong"])
        return "(OErrors %s %s %s)" % (L.lst(L.N(KEY_ID[c]) for c in out["missing"]), L.lst(L.N(KEY_ID[c]) for c in out["notnull"]), wrong)
    exc = out["exc"]
    return {"TypeError": "(ORaise TypeError)", "KeyError": "(ORaise KeyError)"}.get(exc, "OOther")


def _coq_rows(rows):
    return L.lst(L.lst(_coq_val(c) for c in r) for r in rows)


def _coq_col(col):
    n, t, nl = col[0], col[1], col[2]
    core = "(mkcol %s %s %s)" % (L.N(KEY_ID[n]), _coq_type(t), L.boolean(nl))
    if len(col) > 3 and col[3]:
        return "(fcore (mkfcol %s %s %s %s))" % ((core,) + _coq_attrs(col[3]))
    return core


def _coq_attrs(a):
    return (L.opt(None if a.get("default") is None else "(pv %s)" % L.N(a["default"])),
            L.lst(L.N(KEY_ID[x]) for x in a.get("aliases", [])), L.lst(L.N(i) for i in a.get("other", [])))


def _coq_mut(m):
    k = m[0]
    if k == "add":
        return "(MAdd %s)" % _coq_col(m[1])
    if k == "insert":
        return "(MInsert %s)" % _coq_col(m[1])
    if k == "pop":
        return "(MPop %s)" % L.N(KEY_ID[m[1]])
    if k == "reverse":
        return "MReverse"
    if k == "settype":
        return "(MSetType %s %s)" % (L.nat(m[1]), _coq_type(m[2]))
    if k == "setnull":
        return "(MSetNullable %s %s)" % (L.nat(m[1]), L.boolean(m[2]))
    if k == "rename":
        return "(MRename %s %s)" % (L.nat(m[1]), L.N(KEY_ID[m[2]]))
    if k == "setattrs":
        return "(MSetAttrs %s %s %s %s)" % ((L.nat(m[1]),) + _coq_attrs(m[2]))
    raise KeyError(k)


def _to_coq_session(case, obs):
    objs = []
    for sc in case["schemas"]:
        objs.append(objs[sc["copy_of"]] if isinstance(sc, dict) else _coq_schema(sc))
    ops, cobs = [], []
    for op, ob in zip(case["ops"], obs):
        k = op[0]
        if k == "validate":
            ops.append("(SValidate %s %s)" % (L.nat(op[1]), _coq_entry(op[2])))
        elif k == "mutate":
            ops.append("(SMutate %s %s)" % (L.nat(op[1]), _coq_mut(op[2])))
        elif k == "frame":
            ops.append("(SNewFrame %s)" % L.nat(op[1]))
        else:
            ops.append("(SAppend %s)" % _coq_entry(op[1]))
        if ob["op"] == "validate":
            cobs.append("(BValidate %s)" % _coq_out(ob["out"], "OOk" if ob["out"].get("ret") == "True" else "OOther"))
        elif ob["op"] == "unit":
            cobs.append("BUnit")
        elif ob["op"] == "append":
            cobs.append("(BAppend %s %s %s %s)" % (_coq_out(ob["out"], "OOk"), _coq_rows(ob["rows"]), L.boolean(ob["nb"]), L.boolean(ob["cur"])))
        else:
            cobs.append("(BValidate OOther)")  # the operation itself raised: never matches
    late = []
    for ob in obs[:len(case["ops"])]:
        if ob["op"] == "validate":
            late.append(L.opt(_coq_out(ob["late"], "OOk" if ob["late"].get("ret") == "True" else "OOther")))
        elif ob["op"] == "append":
            late.append(L.opt(_coq_out(ob["late"], "OOk")))
        elif ob["op"] == "unit":
            late.append("None")
        else:
            late.append("(Some OOther)")
    return ("session", "((((%s, %s, %s) : c05_session_case), %s) : c05_session_case2)" % (L.lst(objs), L.lst(ops), L.lst(cobs), L.lst(late)))


def to_coq(case, obs):
    if case["kind"] == "session":
        return _to_coq_session(case, obs)
    if case["kind"] == "validate":
        rec = case["rec"]
        ok = lambda o: "OOk" if o.get("ret") == "True" else "OOther"
        return ("validate", "((((%s, %s, %s) : c05_validate_case), %s) : c05_validate_case2)" % (
            _coq_schema(case["schema"]), _coq_entry(rec), _coq_out(obs, ok(obs)), _coq_out(obs["late"], ok(obs["late"]))))
    init = case["init"]
    if case["kind"] == "twin":
        return _to_coq_twin(case, obs)
    if init["how"] == "schema":
        i = "(IRows %s %s)" % (_coq_schema(init["schema"]), _coq_rows(init["rows"]))
    elif init["how"] == "names":
        i = "(INames %s %s)" % (L.lst(L.N(KEY_ID[n]) for n in init["names"]), _coq_rows(init["rows"]))
    else:
        i = "(IDicts %s)" % L.lst(_coq_items(d) for d in init["dicts"])
    steps = L.lst("(%s, %s, %s, %s)" % (_coq_out(s["out"], "OOk"), _coq_rows(s["rows"]), L.boolean(s["nb"]), L.boolean(s["cur"]))
                  for s in obs["steps"])
    first = "(%s, %s, %s)" % (_coq_rows(obs["init_rows"]), L.boolean(obs["init_nb"]), L.boolean(obs["init_cur"]))
    late = L.lst(_coq_out(s["late"], "OOk") for s in obs["steps"])
    return ("hist", "((((%s, %s, %s, %s) : c05_hist_case), %s) : c05_hist_case2)" % (
        i, L.lst(_coq_entry(e) for e in case["entries"]), first, steps, late))


def _coq_init(init):
    if init["how"] == "schema":
        return "(IRows %s %s)" % (_coq_schema(init["schema"]), _coq_rows(init["rows"]))
    if init["how"] == "names":
        return "(INames %s %s)" % (L.lst(L.N(KEY_ID[n]) for n in init["names"]), _coq_rows(init["rows"]))
    return "(IDicts %s)" % L.lst(_coq_items(d) for d in init["dicts"])


def _to_coq_twin(case, obs):
    st3 = lambda s: "(%s, %s, %s)" % (_coq_rows(s["rows"]), L.boolean(s["nb"]), L.boolean(s["cur"]))
    xs = L.lst("(%s, %s)" % (L.boolean(bool(w)), _coq_entry(r)) for w, r in case["entries"])
    steps = L.lst("(%s, %s, %s, %s)" % (_coq_out(s["out"], "OOk"), st3(s["frames"][0]), st3(s["frames"][1]), _coq_rows(s["caller"]))
                  for s in obs["steps"])
    late = L.lst(_coq_out(s["late"], "OOk") for s in obs["steps"])
    return ("twin", "((%s, %s, (%s, %s), %s, %s) : c05_twin_case)" % (
        _coq_init(case["init"]), xs, st3(obs["init"][0]), st3(obs["init"][1]), steps, late))


# --------------------------------------------------------------------------------------
# known findings

KNOWN_WITNESSES = {
    "F-C05-1": {"kind": "hist", "init": {"how": "schema", "schema": [["c0", "INTEGER", True]], "rows": []},
                "entries": [{"k": "dict", "items": [["c0", 2]]}, {"k": "dict", "items": [["c0", 28]]}, {"k": "dict", "items": [["c0", 3]]}]},
}


def known(case, obs):
    """No known (unfixed) finding for C05: F-C05-1 and F-C05-2 are fixed, their witnesses are regression cases in corpus()."""
    return None


def corpus():
    # F-C05-1 (fixed by 421aa6e): a failing size step after the store step left the row behind
    yield KNOWN_WITNESSES["F-C05-1"]
    # F-C05-2 (fixed by 4269430): a mapping that is not a dict validated but its KEYS were stored as the row
    yield {"kind": "hist", "init": {"how": "schema", "schema": [["c0", "INTEGER", True]], "rows": []},
           "entries": [{"k": "mapping", "items": [["c0", 2]]}]}
    yield {"kind": "hist", "init": {"how": "schema", "schema": [["c1", "VARCHAR", False], ["c0", "INTEGER", True]], "rows": [[5, 2]]},
           "entries": [{"k": "mapping", "items": [["c0", 3], ["c1", 6]]}, {"k": "mapping", "items": [["c0", 5], ["c1", 6]]},
                       {"k": "dict", "items": [["c1", 5]]}, {"k": "mapping", "items": [["c1", 24], ["c0", 0]]}]}
    yield {"kind": "hist", "init": {"how": "dicts", "dicts": [[["c0", 2], ["c1", 5]]]},
           "entries": [{"k": "mapping", "items": [["c1", 6], ["x0", 2]]}, {"k": "mapping", "items": [["c0", 28]]}]}
    yield {"kind": "hist", "init": {"how": "names", "names": ["c0", "c1"], "rows": []},
           "entries": [{"k": "mapping", "items": [["c1", 4], ["c0", 3]]}]}
    # F-C02-3 (fixed by 9637b46): a record given as a dict SUBCLASS validated, then Row() raised TypeError.  OrderedDict in both key
    # orders, Counter, defaultdict with a missing column (None in the row, no key gained), user subclass; empty / row-built / dictionary-built
    sub_entries = [
        {"k": "ordereddict", "items": [["c0", 2], ["c1", 5]]},
        {"k": "ordereddict", "items": [["c1", 6], ["c0", 3]]},
        {"k": "counter", "items": [["c0", 2], ["c1", 5]]},
        {"k": "defaultdict", "items": [["c1", 5]]},
        {"k": "dictsub", "items": [["c1", 6], ["c0", 1]]},
        {"k": "defaultdict", "items": [["c0", 28], ["c1", 5]]},
        {"k": "counter", "items": [["c1", 2], ["c0", 2]]},
        {"k": "ordereddict", "items": [["c1", 5], ["x0", 2], ["c0", 2]]},
    ]
    sch2 = [["c0", "INTEGER", True], ["c1", "VARCHAR", False]]
    yield {"kind": "hist", "init": {"how": "schema", "schema": sch2, "rows": []}, "entries": sub_entries}
    yield {"kind": "hist", "init": {"how": "schema", "schema": sch2, "rows": [[3, 5]]}, "entries": sub_entries}
    yield {"kind": "hist", "init": {"how": "schema", "schema": [["c0", "INTEGER", True]], "rows": []},
           "entries": [{"k": "ordereddict", "items": [["c0", 2]]}]}
    yield {"kind": "hist", "init": {"how": "names", "names": ["c0", "c1"], "rows": [[2, 5]]}, "entries": sub_entries}
    yield {"kind": "hist", "init": {"how": "dicts", "dicts": [[["c0", 2], ["c1", 5]]]}, "entries": sub_entries}
    yield {"kind": "hist", "init": {"how": "dicts", "dicts": []}, "entries": sub_entries[:5]}
    for kd in DICT_SUBCLASS_KINDS:
        yield {"kind": "validate", "schema": sch2, "rec": {"k": kd, "items": [["c1", 5], ["c0", 2]]}}
        yield {"kind": "validate", "schema": sch2, "rec": {"k": kd, "items": [["c0", 5]]}}
    yield {"kind": "hist", "init": {"how": "dicts", "dicts": [[["c0", 2], ["c1", 5]]]},
           "entries": [{"k": "dict", "items": [["c0", 3], ["c1", 6]]}, {"k": "dict", "items": [["c1", 2]]}]}
    yield {"kind": "hist", "init": {"how": "dicts", "dicts": []}, "entries": [{"k": "dict", "items": [["c0", 3]]}]}
    yield {"kind": "hist", "init": {"how": "names", "names": ["c0", "c1"], "rows": [[2, 5]]},
           "entries": [{"k": "dict", "items": [["c1", 31]]}, {"k": "dict", "items": [["c1", 7]]}, {"k": "tuple", "items": [["c0", 2], ["c1", 3]]}]}
    # round 3: the same schema object validated, changed in place, validated again (a memo of the per-column classes made
    # at first use must not survive the change); then a frame made from the changed object
    a = ["c0", "INTEGER", False]
    b = ["c1", "VARCHAR", False]
    R = lambda *items: {"k": "dict", "items": [list(x) for x in items]}
    yield {"kind": "session", "schemas": [[a]], "ops": [
        ["validate", 0, R(("c0", 2))], ["mutate", 0, ["add", b]],
        ["validate", 0, R(("c0", 2))], ["validate", 0, R(("c0", 2), ("c1", 0))], ["validate", 0, R(("c0", 2), ("c1", 2))],
        ["validate", 0, R(("c0", 2), ("c1", 5))],
        ["frame", 0], ["append", R(("c0", 2), ("c1", 5))], ["append", R(("c0", 2), ("c1", 2))], ["append", R(("c0", 3), ("c1", 0))],
        ["append", R(("c0", 3))], ["append", R(("c0", 3), ("c1", 6))]]}
    yield {"kind": "session", "schemas": [[a, b]], "ops": [
        ["validate", 0, R(("c0", 2), ("c1", 5))], ["mutate", 0, ["pop", "c0"]],
        ["validate", 0, R(("c1", 5))], ["validate", 0, R(("c1", 2))], ["validate", 0, R(("c0", 2), ("c1", 5))]]}
    yield {"kind": "session", "schemas": [[a, b], {"copy_of": 0}], "ops": [
        ["validate", 0, R(("c0", 2), ("c1", 5))], ["validate", 1, R(("c0", 2), ("c1", 5))], ["mutate", 1, ["settype", 0, "VARCHAR"]],
        ["validate", 1, R(("c0", 2), ("c1", 5))], ["validate", 1, R(("c0", 5), ("c1", 5))], ["validate", 0, R(("c0", 5), ("c1", 5))],
        ["validate", 0, R(("c0", 2), ("c1", 5))]]}
    # round 4: non-nullable columns that declare a default - a null is still rejected and named, nothing substitutes the default
    dsch = [["c0", "INTEGER", False], ["c1", "VARCHAR", False, {"default": 5}], ["c2", "INTEGER", False, {"default": 3}],
            ["c3", "VARCHAR", True, {"default": 6}]]
    drecs = [R(("c0", 2), ("c1", 5), ("c2", 2), ("c3", 0)), R(("c0", 0), ("c1", 5), ("c2", 2), ("c3", 5)), R(("c0", 2), ("c1", 0), ("c2", 2), ("c3", 5)),
             R(("c0", 2), ("c1", 5), ("c2", 0), ("c3", 5)), R(("c0", 0), ("c1", 0), ("c2", 0), ("c3", 0)), R(("c0", 2), ("c1", 5), ("c2", 3), ("c3", 5))]
    for r in drecs:
        yield {"kind": "validate", "schema": dsch, "rec": r}
    yield {"kind": "hist", "init": {"how": "schema", "schema": dsch, "rows": []}, "entries": drecs}
    yield {"kind": "session", "schemas": [[["c0", "INTEGER", False]]], "ops": [
        ["validate", 0, R(("c0", 0))], ["mutate", 0, ["setattrs", 0, {"default": 2}]], ["validate", 0, R(("c0", 0))],
        ["frame", 0], ["append", R(("c0", 0))], ["append", R(("c0", 2))]]}
    # round 7: two frames from ONE still-empty rows collection each hold exactly what THEY accepted (the reviewer's scenario),
    # a frame made from rows=() accepts appends; an error names ALL offending columns of a wide schema
    tsch = [["c0", "INTEGER", False], ["c1", "VARCHAR", True]]
    tent = [[0, R(("c0", 2), ("c1", 5))], [1, R(("c0", 5), ("c1", 5))], [1, R(("c1", 0), ("c0", 3))]]
    for form in ROWS_FORMS:
        yield {"kind": "twin", "init": {"how": "schema", "schema": tsch, "rows": [], "rows_as": form}, "entries": tent}
    yield {"kind": "hist", "init": {"how": "schema", "schema": tsch, "rows": [], "rows_as": "tuple"}, "entries": [R(("c0", 2), ("c1", 5))]}
    yield _wide_case(40, 0)
    yield _wide_case(99, 6)
    # several rules firing at once; excess checked first
    sch = [["c0", "INTEGER", False], ["c1", "VARCHAR", True], ["c2", "DATE", False], ["c3", "", False]]
    yield {"kind": "validate", "schema": sch, "rec": {"k": "dict", "items": [["c0", 0], ["c1", 2], ["c3", 0]]}}
    yield {"kind": "validate", "schema": sch, "rec": {"k": "dict", "items": [["c0", 0], ["c1", 2], ["x0", 2], ["x1", 0]]}}
    yield {"kind": "validate", "schema": sch, "rec": {"k": "dict", "items": [["c0", 1], ["c1", 0], ["c2", 9], ["c3", 19]]}}
    yield {"kind": "validate", "schema": sch, "rec": {"k": "mapping", "items": [["c0", 1], ["c1", 0], ["c2", 9], ["c3", 19]]}}
    yield {"kind": "validate", "schema": [["c0", "INTEGER", True], ["c0", "VARCHAR", True]], "rec": {"k": "dict", "items": []}}
    yield {"kind": "validate", "schema": [["c0", "NULL", True], ["c1", "INTEGER", True]], "rec": {"k": "dict", "items": [["c0", 2], ["c1", 5]]}}


# --------------------------------------------------------------------------------------
# generators

def _type_names():
    from orso.types import OrsoTypes

    return list(OrsoTypes.__members__)


def _fits(ty, vid):
    v = val(vid)
    if v is None or ty in UNTYPED:
        return True
    c = EXPECTED_CLASS.get(ty)
    return c is not None and isinstance(v, c)


def _is_exact(ty, vid):
    c = EXPECTED_CLASS.get(ty)
    return c is not None and type(val(vid)) is c


def exhaustive(tier):
    types = _type_names() + ["", "0"]
    n = len(pool())

    def it():
        for ty in types:
            for nullable in (True, False):
                for vid in range(n):
                    yield {"kind": "validate", "schema": [["c0", ty, nullable]], "rec": {"k": "dict", "items": [["c0", vid]]}}
        if tier == "thorough":
            # two columns, every pair of column states, with and without an excess key
            sub = ["INTEGER", "DATE", ""]
            for t0 in sub:
                for t1 in sub:
                    for n0 in (True, False):
                        for n1 in (True, False):
                            for s0 in range(5):
                                for s1 in range(5):
                                    for ex in (0, 1):
                                        items = []
                                        for name, ty, st in (("c0", t0, s0), ("c1", t1, s1)):
                                            v = _state_value(None, ty, st)
                                            if v is not None:
                                                items.append([name, v])
                                        if ex:
                                            items.append(["x0", 2])
                                        yield {"kind": "validate", "schema": [["c0", t0, n0], ["c1", t1, n1]], "rec": {"k": "dict", "items": items}}

        yield from _session_matrix()
        yield from _attribute_matrix()
        yield from _twin_matrix()
        yield from _wide_matrix()

    label = ("one-column schemas: every OrsoTypes member + both untyped forms (%d) x nullable/not x every pool value (%d, at least one per class of the "
             "regenerated class table, incl. subclass pairs)" % (len(types), n))
    label += ("; session matrix: a two-column schema object x {never used, validated (ok / rejected), appended through a frame, an equal copy "
              "validated} before x each in-place change {append/insert a column, pop first/last/absent, retype, untype, nullable flip, rename, reverse} "
              "x afterwards every probe record (conforming, each column missing / null / wrongly typed, conforming to the old columns) validated "
              "and appended through a frame made from the changed object")
    label += ("; attribute matrix: {INTEGER, VARCHAR, DATE, untyped} x nullable/not x 14 combinations of attributes validation must ignore "
              "(a default of the column's type / of another type / falsy, aliases naming an excess key / another column / the column itself, each "
              "descriptive attribute, all together) x {column missing, explicit None, right value, wrong value, key given under the alias only, "
              "column plus alias key} on a two-column schema; zero-column schema x {empty record, one key}")
    label += ("; round 7: twin matrix - {RelationSchema (own or one shared schema object), name list, zero-column schema} x an empty rows collection "
              "given as list / tuple / deque / not at all, or 0..2 dictionaries, TWO frames made from that one argument x a fixed interleaving of accepted, "
              "rejected and unserialisable appends (both addressings), plus the single-frame form; wide matrix - schemas of %s columns x {all columns "
              "missing, all null, all wrongly typed, as many excess keys, thirds missing/null/wrong, alternate nullable, mixed types and states, conforming}, "
              "the mixed ones also appended as a history up to width 129" % (", ".join(map(str, WIDE_WIDTHS)),))
    if tier == "thorough":
        label += "; two-column schemas over {INTEGER, DATE, untyped}^2 x nullable^2 x {missing,null,right,subclass,wrong}^2 x {no, one} excess key"
    return it(), label


def _probes(cols, old_cols):
    """Probe records against cols: conforming; per column missing / null / wrong; a record conforming to old_cols."""
    def conforming(cs):
        items, seen = [], set()
        for col in cs:
            n, t = col[0], col[1]
            if n not in seen:
                seen.add(n)
                items.append([n, _state_value(None, t, 2)])
        return items

    base = conforming(cols)
    out = [base]
    for j in range(len(base)):
        n, t = base[j][0], [c[1] for c in cols if c[0] == base[j][0]][0]
        out.append(base[:j] + base[j + 1:])
        out.append(base[:j] + [[n, 0]] + base[j + 1:])
        out.append(base[:j] + [[n, _state_value(None, t, 4)]] + base[j + 1:])
    out.append(conforming(old_cols))
    return [{"k": "dict", "items": it} for it in out]


def _attribute_matrix():
    """Columns carrying attributes validation must not read x every state of that column in the record."""
    for ty in ("INTEGER", "VARCHAR", "DATE", ""):
        right = _state_value(None, ty, 2)
        other_ty = "VARCHAR" if ty != "VARCHAR" else "INTEGER"
        combos = [
            {"default": right}, {"default": _state_value(None, other_ty, 2)}, {"default": 3 if ty != "VARCHAR" else 6},
            {"aliases": ["x0"]}, {"aliases": ["c1"]}, {"aliases": ["c0"]}, {"aliases": ["x0", "x1"], "default": right},
        ] + [{"other": [i]} for i in (0, 1, 4, 5, 8, 9)] + [{"default": right, "aliases": ["x0"], "other": list(range(len(OTHER_ATTRS)))}]
        for nullable in (True, False):
            for attrs in combos:
                cols = [["c0", ty, nullable, attrs], ["c1", "VARCHAR", True]]
                alias = (attrs.get("aliases") or ["x0"])[0]
                records = [
                    [["c1", 5]],                                  # column missing (its default must not stand in)
                    [["c0", 0], ["c1", 5]],                       # explicit None
                    [["c0", right], ["c1", 5]],                   # right value
                    [["c0", _state_value(None, ty, 4)], ["c1", 5]],   # wrong value (untyped: anything goes)
                    [[alias, right], ["c1", 5]] if alias != "c1" else [["c1", 5]],   # given under the alias only
                    [["c0", right], ["c1", 5]] + ([[alias, right]] if alias not in ("c0", "c1") else []),   # column and alias key
                ]
                for items in records:
                    yield {"kind": "validate", "schema": cols, "rec": {"k": "dict", "items": items}}
                yield {"kind": "hist", "init": {"how": "schema", "schema": cols, "rows": []},
                       "entries": [{"k": "dict", "items": it} for it in records]}
    for items in ([], [["c0", 2]]):
        yield {"kind": "validate", "schema": [], "rec": {"k": "dict", "items": items}}
    yield {"kind": "hist", "init": {"how": "schema", "schema": [], "rows": []},
           "entries": [{"k": "dict", "items": []}, {"k": "dict", "items": [["c0", 2]]}, {"k": "ordereddict", "items": []}]}


ROWS_FORMS = ("list", "tuple", "deque", "none")
# widths around the round numbers a cap / batch size / bitmap width would be written as (literal-1, literal, literal+1)
WIDE_WIDTHS = (15, 16, 17, 31, 32, 33, 64, 65, 100, 101, 128, 129, 256, 257, 512, 513, 1025)


def _wide_schema(width, mode):
    tys = ["INTEGER"] if mode < 6 else ["INTEGER", "VARCHAR", "DATE", ""]
    return [[WIDE_NAMES[i], tys[i % len(tys)], mode in (5,) and i % 2 == 0] for i in range(width)]


def _wide_case(width, mode):
    """A schema of `width` columns and a record in which MANY columns offend at once.
    mode 0: all missing; 1: all null (non-nullable); 2: all wrongly typed; 3: `width` excess keys beside a conforming record;
    4: thirds missing / null / wrong (the rules fire together); 5: alternate nullable columns, all null; 6: mixed types, per column
    missing / null / wrong / right in turn; 7: conforming (accepted).  Modes 4.. come as an append history as well."""
    cols = _wide_schema(width, mode)
    items = []
    for i, (n, ty, nullable) in enumerate(cols):
        right, wrong = _state_value(None, ty, 2), _state_value(None, ty, 4)
        if mode == 0:
            continue
        if mode in (1, 5):
            items.append([n, 0])
        elif mode == 2:
            items.append([n, wrong])
        elif mode in (3, 7):
            items.append([n, right])
        elif mode == 4:
            k = (3 * i) // width
            if k:
                items.append([n, 0 if k == 1 else wrong])
        else:
            k = i % 4
            if k:
                items.append([n, [0, wrong, right][k - 1]])
    if mode == 3:
        items = [[WIDE_NAMES[width + i], 2] for i in range(width)] + items
    return {"kind": "validate", "schema": cols, "rec": {"k": "dict", "items": items}}


def _wide_matrix():
    for width in WIDE_WIDTHS:
        for mode in range(8):
            if width > 260 and mode not in (0, 1, 2, 3):
                continue
            c = _wide_case(width, mode)
            yield c
            if mode >= 4 and width <= 130:
                good = _wide_case(width, 7)["rec"]
                yield {"kind": "hist", "init": {"how": "schema", "schema": c["schema"], "rows": [], "rows_as": ROWS_FORMS[width % 4]},
                       "entries": [c["rec"], good, dict(c["rec"], k="ordereddict"), good]}


def _twin_matrix():
    """Every creation form x every way to pass an empty rows collection x two frames from that ONE argument x a fixed interleaving
    (accepted by 0, rejected by 1, accepted by 1, unserialisable to 0, accepted by 0, excess key to 1, accepted by 1)."""
    R = lambda *items: {"k": "dict", "items": [list(x) for x in items]}
    sch = [["c0", "INTEGER", False], ["c1", "VARCHAR", True]]
    entries = [[0, R(("c0", 2), ("c1", 5))], [1, R(("c0", 5), ("c1", 5))], [1, R(("c1", 0), ("c0", 3))], [0, R(("c0", 28), ("c1", 6))],
               [0, R(("c1", 6), ("c0", 1))], [1, R(("c0", 2), ("x0", 2))], [1, {"k": "mapping", "items": [["c0", 45], ["c1", 5]]}]]
    for form in ROWS_FORMS:
        for share in (False, True):
            yield {"kind": "twin", "share_schema": share, "init": {"how": "schema", "schema": sch, "rows": [], "rows_as": form}, "entries": entries}
            yield {"kind": "twin", "share_schema": share, "init": {"how": "schema", "schema": sch, "rows": [], "rows_as": form},
                   "entries": [[1 - w, r] for w, r in entries]}
        yield {"kind": "twin", "init": {"how": "names", "names": ["c0", "c1"], "rows": [], "rows_as": form}, "entries": entries}
        yield {"kind": "twin", "init": {"how": "schema", "schema": [], "rows": [], "rows_as": form},
               "entries": [[0, R()], [1, R(("c0", 2))], [1, R()], [0, R()]]}
        # the single-frame form: created from an empty collection of every kind, then appended to
        yield {"kind": "hist", "init": {"how": "schema", "schema": sch, "rows": [], "rows_as": form}, "entries": [r for _, r in entries]}
        yield {"kind": "hist", "init": {"how": "names", "names": ["c0", "c1"], "rows": [], "rows_as": form}, "entries": [r for _, r in entries]}
    for dicts in ([], [[["c0", 2], ["c1", 5]]], [[["c0", 2], ["c1", 5]], [["c1", 6]]]):
        yield {"kind": "twin", "init": {"how": "dicts", "dicts": dicts}, "entries": entries}


def _rand_twin(rng):
    h = _rand_hist(rng)
    init = h["init"]
    if init["how"] != "dicts":
        init["rows"] = []
        init["rows_as"] = rng.choice(ROWS_FORMS)
    case = {"kind": "twin", "init": init, "entries": [[rng.randrange(2), e] for e in h["entries"]]}
    if init["how"] == "schema":
        case["share_schema"] = rng.random() < 0.5
    return case


def _session_matrix():
    a = ["c0", "INTEGER", False]
    b = ["c1", "VARCHAR", False]
    new = ["c2", "DATE", False]
    ok = {"k": "dict", "items": [["c0", 2], ["c1", 5]]}
    bad = {"k": "dict", "items": [["c0", 5], ["c1", 0]]}
    muts = [["add", new], ["insert", new], ["pop", "c0"], ["pop", "c1"], ["pop", "c7"], ["settype", 0, "VARCHAR"], ["settype", 1, "INTEGER"],
            ["settype", 1, ""], ["settype", 0, "0"], ["setnull", 0, True], ["rename", 1, "c3"], ["reverse"]]
    primes = [
        ("unused", [[a, b]], []),
        ("validated-ok", [[a, b]], [["validate", 0, ok]]),
        ("validated-rejected", [[a, b]], [["validate", 0, bad]]),
        ("appended", [[a, b]], [["frame", 0], ["append", ok]]),
        ("copy-validated", [[a, b], {"copy_of": 0}], [["validate", 0, ok], ["validate", 1, ok]]),
        ("pickle-copy-rejected", [[a, b], {"copy_of": 0, "how": "pickle"}], [["validate", 1, bad], ["validate", 0, ok]]),
    ]
    for m in muts:
        after = apply_mut([a, b], m)
        probes = _probes(after, [a, b])
        for _, schemas, pre in primes:
            ops = list(pre) + [["mutate", 0, m]] + [["validate", 0, pr] for pr in probes] + [["frame", 0]] + [["append", pr] for pr in probes]
            yield {"kind": "session", "schemas": schemas, "ops": ops}


def _state_value(rng, ty, st):
    """st: 0 missing, 1 null, 2 right (exact class), 3 right by subclass (or any fitting), 4 wrong.  Returns a vid or None (= leave out)."""
    n = len(pool())
    if st == 0:
        return None
    if st == 1:
        return 0
    cands = list(range(1, n))
    if st == 2:
        c = [v for v in cands if (_is_exact(ty, v) if ty in EXPECTED_CLASS else True)]
    elif st == 3:
        c = [v for v in cands if _fits(ty, v) and not _is_exact(ty, v)] or [v for v in cands if _fits(ty, v)]
    else:
        c = [v for v in cands if not _fits(ty, v)] or cands
    if not c:
        c = cands
    return c[0] if rng is None else rng.choice(c)


def _rand_schema(rng):
    ncols = rng.randint(1, 6)
    names = rng.sample(NAMES[:8], ncols)
    if ncols > 1 and rng.random() < 0.04:
        names[-1] = names[0]
    typed = [t for t in _type_names() if t in EXPECTED_CLASS]
    cols = []
    for nm in names:
        r = rng.random()
        if r < 0.80:
            ty = rng.choice(typed)
        elif r < 0.95:
            ty = rng.choice(UNTYPED)
        else:
            ty = "NULL"
        col = [nm, ty, rng.random() < 0.5]
        if rng.random() < 0.35:
            col.append(_rand_attrs(rng, ty))
        cols.append(col)
    return cols


def _rand_attrs(rng, ty):
    """Attributes validation must ignore: a non-null default (usually of the column's type), aliases (other columns' names and names
    that occur as excess keys), descriptive attributes."""
    a = {}
    if rng.random() < 0.7:
        a["default"] = _state_value(rng, ty, rng.choice([2, 2, 3])) or 2
    if rng.random() < 0.35:
        a["aliases"] = rng.sample(NAMES, rng.randint(1, 2))
    if rng.random() < 0.4:
        a["other"] = sorted(rng.sample(range(len(OTHER_ATTRS)), rng.randint(1, 3)))
    return a or {"default": 2}


def _rand_record(rng, cols, p_good, names=None, in_hist=True):
    """A record against cols (schema) or names (untyped frame)."""
    items = []
    seen = set()
    good = rng.random() < p_good
    for col in (cols if cols is not None else [[n, "", True] for n in names]):
        name, ty, nullable = col[0], col[1], col[2]
        if name in seen:
            continue
        seen.add(name)
        if good:
            st = rng.choice([2, 2, 2, 3, 3, 1] if nullable else [2, 2, 2, 3, 3])
        else:
            st = rng.choice([0, 1, 2, 2, 3, 4, 4])
        v = _state_value(rng, ty, st)
        if v is not None:
            if good and not pool()[v][2] and rng.random() < 0.8:
                v = _state_value(None, ty, 2) or v
            items.append([name, v])
    if not good or cols is None:
        for _ in range(rng.choice([0, 0, 0, 1, 2])):
            x = rng.choice(NAMES[8:] + NAMES[:8])
            if x not in seen:
                seen.add(x)
                items.append([x, rng.randrange(len(pool()))])
    rng.shuffle(items)
    r = rng.random()
    if r < 0.68:
        k = "dict"
    elif r < 0.84:
        k = rng.choice(DICT_SUBCLASS_KINDS)
    elif r < 0.94:
        k = "mapping"
    else:
        k = "tuple" if r < 0.98 else "scalar"
    return {"k": k, "items": items}


def _rand_validate(rng):
    cols = _rand_schema(rng)
    return {"kind": "validate", "schema": cols, "rec": _rand_record(rng, cols, 0.3, in_hist=False)}


def _rand_hist(rng):
    how = rng.choice(["schema", "schema", "schema-rows", "names", "dicts", "dicts"])
    n_entries = rng.randint(1, 8)
    if how in ("schema", "schema-rows"):
        cols = _rand_schema(rng)
        if rng.random() < 0.6:
            cols = [[c[0], ("INTEGER" if c[1] == "NULL" else c[1])] + c[2:] for c in cols]
        rows = []
        if how == "schema-rows":
            for _ in range(rng.randint(1, 3)):
                rows.append([_state_value(rng, c[1], rng.choice([1, 2, 2, 3])) or 0 for c in cols])
        init = {"how": "schema", "schema": cols, "rows": rows}
        entries = [_rand_record(rng, cols, 0.6) for _ in range(n_entries)]
    elif how == "names":
        names = rng.sample(NAMES[:8], rng.randint(1, 5))
        init = {"how": "names", "names": names, "rows": [[rng.randrange(len(pool())) for _ in names] for _ in range(rng.randint(0, 3))]}
        entries = [_rand_record(rng, None, 0.7, names) for _ in range(n_entries)]
    else:
        names = rng.sample(NAMES[:8], rng.randint(1, 5))
        dicts = []
        for j in range(rng.randint(0, 3)):
            ks = names if j == 0 else [n for n in names if rng.random() < 0.8] + ([rng.choice(NAMES[8:])] if rng.random() < 0.2 else [])
            dicts.append([[k, rng.randrange(len(pool()))] for k in ks])
        init = {"how": "dicts", "dicts": dicts}
        entries = [_rand_record(rng, None, 0.7, names if dicts else rng.sample(NAMES[:8], 2)) for _ in range(n_entries)]
    return {"kind": "hist", "init": init, "entries": entries}


def _rand_col(rng, used):
    free = [n for n in NAMES[:8] if n not in used] or NAMES[:8]
    typed = [t for t in _type_names() if t in EXPECTED_CLASS]
    r = rng.random()
    ty = rng.choice(typed) if r < 0.85 else rng.choice(UNTYPED)
    col = [rng.choice(free), ty, rng.random() < 0.4]
    if rng.random() < 0.3:
        col.append(_rand_attrs(rng, ty))
    return col


def _rand_mut(rng, cols):
    used = [c[0] for c in cols]
    typed = [t for t in _type_names() if t in EXPECTED_CLASS]
    kinds = ["add", "add", "insert", "reverse"]
    if cols:
        kinds += ["pop", "pop", "settype", "settype", "setnull", "rename", "setattrs"]
    k = rng.choice(kinds)
    if k in ("add", "insert"):
        return [k, _rand_col(rng, used)]
    if k == "pop":
        return ["pop", rng.choice(used) if rng.random() < 0.9 else rng.choice(NAMES[:8])]
    if k == "reverse":
        return ["reverse"]
    i = rng.randrange(len(cols))
    if k == "settype":
        return ["settype", i, rng.choice(typed) if rng.random() < 0.8 else rng.choice(UNTYPED)]
    if k == "setnull":
        return ["setnull", i, not cols[i][2]]
    if k == "setattrs":
        return ["setattrs", i, _rand_attrs(rng, cols[i][1])]
    free = [n for n in NAMES[:8] if n not in used] or NAMES[:8]
    return ["rename", i, rng.choice(free)]


def _rand_session(rng):
    """1-2 schema objects; uses (validate / append through a frame) interleaved with in-place changes.  Records are drawn
    against the object's current columns, or (stale record) against its columns before the last change."""
    first = [c for c in _rand_schema(rng)[:4] if c[1] != "NULL"] or [["c0", "INTEGER", False]]
    schemas = [first]
    cols = [[list(c) for c in first]]
    if rng.random() < 0.4:
        if rng.random() < 0.5:
            schemas.append({"copy_of": 0, "how": rng.choice(["deepcopy", "pickle"])})
            cols.append([list(c) for c in first])
        else:
            other = [c for c in _rand_schema(rng)[:3] if c[1] != "NULL"] or [["c1", "VARCHAR", True]]
            schemas.append(other)
            cols.append([list(c) for c in other])
    prev = [list(c) for c in cols]
    ops = []
    frame = None

    def record(o):
        cs = prev[o] if rng.random() < 0.2 else cols[o]
        r = _rand_record(rng, cs, 0.55)
        if r["k"] in ("tuple", "scalar") and rng.random() < 0.7:
            r["k"] = "dict"
        return r

    for _ in range(rng.randint(4, 12)):
        o = rng.randrange(len(schemas))
        r = rng.random()
        if r < 0.38:
            ops.append(["validate", o, record(o)])
        elif r < 0.62:
            m = _rand_mut(rng, cols[o])
            prev[o] = cols[o]
            cols[o] = apply_mut(cols[o], m)
            ops.append(["mutate", o, m])
        elif r < 0.72 or frame is None:
            frame = o
            ops.append(["frame", o])
        else:
            ops.append(["append", record(frame)])
    return {"kind": "session", "schemas": schemas, "ops": ops}


def generate(rng, tier):
    count = 900 if tier == "quick" else 18000
    for i in range(count):
        yield _rand_validate(rng) if i % 2 == 0 else _rand_hist(rng)
    for i in range(350 if tier == "quick" else 7000):
        yield _rand_session(rng)
    for i in range(150 if tier == "quick" else 3000):
        yield _rand_twin(rng)


def search(rng):
    while True:
        r = rng.random()
        yield _rand_hist(rng) if r < 0.35 else _rand_session(rng) if r < 0.65 else _rand_twin(rng) if r < 0.8 else _rand_validate(rng)


def _shrink_session(case):
    ops = case["ops"]
    for i in range(len(ops)):
        yield dict(case, ops=ops[:i] + ops[i + 1:])
    if len(case["schemas"]) > 1 and not any(op[0] in ("validate", "mutate", "frame") and op[1] == len(case["schemas"]) - 1 for op in ops) \
            and not any(isinstance(sc, dict) and sc["copy_of"] == len(case["schemas"]) - 1 for sc in case["schemas"]):
        yield dict(case, schemas=case["schemas"][:-1])
    for i, op in enumerate(ops):
        rec = op[2] if op[0] == "validate" else op[1] if op[0] == "append" else None
        if rec is None:
            continue
        for j in range(len(rec["items"])):
            r2 = dict(rec, items=rec["items"][:j] + rec["items"][j + 1:])
            yield dict(case, ops=ops[:i] + [op[:-1] + [r2]] + ops[i + 1:])
    for k, sc in enumerate(case["schemas"]):
        if isinstance(sc, list) and len(sc) > 1:
            for j in range(len(sc)):
                yield dict(case, schemas=case["schemas"][:k] + [sc[:j] + sc[j + 1:]] + case["schemas"][k + 1:])


def shrink(case):
    if case["kind"] == "session":
        yield from _shrink_session(case)
        return
    if case["kind"] == "validate":
        cols, rec = case["schema"], case["rec"]
        for i in range(len(cols)):
            if len(cols) > 1:
                yield dict(case, schema=cols[:i] + cols[i + 1:])
        for i, c in enumerate(cols):
            if len(c) > 3:
                yield dict(case, schema=cols[:i] + [c[:3]] + cols[i + 1:])
                for k in c[3]:
                    yield dict(case, schema=cols[:i] + [c[:3] + [{x: y for x, y in c[3].items() if x != k}]] + cols[i + 1:])
        for i in range(len(rec["items"])):
            yield dict(case, rec=dict(rec, items=rec["items"][:i] + rec["items"][i + 1:]))
        return
    if case["kind"] == "twin":
        es = case["entries"]
        for i in range(len(es)):
            if len(es) > 1:
                yield dict(case, entries=es[:i] + es[i + 1:])
        if case.get("share_schema"):
            yield dict(case, share_schema=False)
        for i, (w, e) in enumerate(es):
            for j in range(len(e["items"])):
                yield dict(case, entries=es[:i] + [[w, dict(e, items=e["items"][:j] + e["items"][j + 1:])]] + es[i + 1:])
        return
    es = case["entries"]
    for i in range(len(es)):
        if len(es) > 1:
            yield dict(case, entries=es[:i] + es[i + 1:])
    init = case["init"]
    if init.get("rows"):
        yield dict(case, init=dict(init, rows=init["rows"][:-1]))
    if init["how"] == "schema" and len(init["schema"]) > 1:
        for i in range(len(init["schema"])):
            yield dict(case, init=dict(init, schema=init["schema"][:i] + init["schema"][i + 1:],
                                       rows=[r[:i] + r[i + 1:] for r in init["rows"]]))
    if init["how"] == "dicts" and init["dicts"]:
        yield dict(case, init=dict(init, dicts=init["dicts"][:-1]))
    for i, e in enumerate(es):
        for j in range(len(e["items"])):
            yield dict(case, entries=es[:i] + [dict(e, items=e["items"][:j] + e["items"][j + 1:])] + es[i + 1:])


# --------------------------------------------------------------------------------------
# evidence bookkeeping

def nontrivial_key(case, obs):
    if case["kind"] == "session":
        if not any(op[0] in ("validate", "append") for op in case["ops"]):
            return None
        return repr((case["schemas"], case["ops"]))
    if case["kind"] == "validate":
        if not case["schema"]:
            return None
        return repr((case["schema"], case["rec"]))
    if not case["entries"]:
        return None
    return repr((case["kind"], case.get("share_schema"), case["init"], case["entries"]))


def _case_columns(case):
    if case["kind"] == "validate":
        return list(case["schema"])
    if case["kind"] in ("hist", "twin"):
        return list(case["init"].get("schema", []))
    out = [c for sc in case["schemas"] if isinstance(sc, list) for c in sc]
    for op in case["ops"]:
        if op[0] == "mutate" and op[2][0] in ("add", "insert"):
            out.append(op[2][1])
        elif op[0] == "mutate" and op[2][0] == "setattrs":
            out.append(["", "", True, op[2][2]])
    return out


def classify(case, obs):
    yield case["kind"]
    for c in _case_columns(case):
        if len(c) > 3 and c[3]:
            for k in sorted(c[3]):
                yield "column-attribute:" + k + ("-on-non-nullable" if not c[2] else "")
    if case["kind"] == "session":
        yield "session-objects=%d" % len(case["schemas"])
        used = set()
        changed_after_use = set()
        for op, ob in zip(case["ops"], obs):
            k = op[0]
            if k == "mutate":
                yield "session-mutate:" + op[2][0]
                if op[1] in used:
                    changed_after_use.add(op[1])
            elif k == "validate":
                yield "session-validate:" + ob["out"]["v"] + ("-after-change-of-used-object" if op[1] in changed_after_use else "")
                used.add(op[1])
            elif k == "frame":
                used.add(op[1])
            elif k == "append" and ob["op"] == "append":
                yield "session-append:" + ob["out"]["v"]
        return
    if case["kind"] == "validate":
        yield "cols=%d" % len(case["schema"]) if len(case["schema"]) <= 8 else "cols>32" if len(case["schema"]) > 32 else "cols=9..32"
        if obs["v"] == "errors" and max(len(obs["missing"]), len(obs["notnull"]), len(obs["wrong"])) > 32:
            yield "more-than-32-columns-named-by-one-rule"
        if obs["v"] == "excess" and obs["n"] > 32:
            yield "more-than-32-excess-keys"
        yield "verdict:" + obs["v"]
        yield "record:" + case["rec"]["k"]
        if obs["v"] == "errors":
            k = sum(1 for x in ("missing", "notnull", "wrong") if obs[x])
            yield "error-categories=%d" % k
        return
    yield "init:" + case["init"]["how"] + ("" if case["init"].get("rows") or case["init"].get("dicts") else "-empty")
    if case["init"].get("rows_as"):
        yield "empty-rows-given-as:" + case["init"]["rows_as"]
    if len(case["init"].get("schema", [])) > 32:
        yield "wide-schema-append-history"
    yield "appends=%d" % len(case["entries"])
    if case["kind"] == "twin":
        for (w, rec), st in zip(case["entries"], obs["steps"]):
            yield "twin-append:" + st["out"]["v"]
        return
    for rec, st in zip(case["entries"], obs["steps"]):
        yield "append:" + st["out"]["v"] + ("" if rec["k"] == "dict" else "-" + rec["k"])
        if st["out"]["v"] == "raise":
            yield "append-raised:" + st["out"]["exc"]
