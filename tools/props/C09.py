"""C09 - Compressed column encodings are lossless.

Case (JSON):
  {"col": "rle"|"dict",  "values": [V...], "fn": F}
  {"col": "sparse",      "values": [V...], "default": V, "fn": F}
  {"col": "const",       "value": V, "length": n, "fn": F}
  {"col": "func",        "binding": "first"|"last"|"null", "cfg": [V...], "length": n}
V = ["n"] | ["b", bool] | ["i", int] | ["f", float.hex()] | ["s", text];  F = null | "mul2" | "add1" | "upper" | "catxy" | "not"
(the element-wise function is applied to the STORED values the way tests/test_schema_columns.py does:
 col.values = col.values * 2, then materialize()).

Observed: {"values": [V], "values_dtype": str, "aux": [int] (lengths / indices / encoding), "mat": [V], "mat_dtype": str}
       or {"raise": exception class name, "stage": "init"|"fn"|"mat"}; .values / aux are read BEFORE the function is applied.

Multi-step cases carry "script": a list of steps run on ONE column object
  "mat" | "scribble" (overwrite the array the latest materialize() returned) | ["fn", F, "inplace"|"rebind"] | ["length", n]
Observed: {"steps": [{"mat": [V], "mat_dtype": str} | {"values": [V], "values_dtype": str} | {"scribbled": bool} | {}]}
          plus "raise"/"stage"/"at" if a step raised.  These cases are judged by the oracle only (not sent to Coq)."""
import itertools
import math
import zlib

from vlib import coqlit as L

ID = "C09"
READY = True
TECHNIQUE = ("Coq proofs by induction over sequences (abstract value type) + case analysis on a NumPy dtype/cast model, "
             "and model/implementation correspondence evaluated in Coq, exhaustive small scope")
LEVEL_TEXT = ("Machine-checked Coq theorems, for every sequence over an abstract value type: RLE / dictionary / sparse / constant "
              "expand to the encoded sequence, the stored forms are compressed (adjacent runs differ, run lengths >= 1 summing to the "
              "length, dictionary sorted without duplicates and codes in range, sparse storage free of the default, indices increasing), "
              "and an element-wise function commutes with expansion (for sparse: functions fixing the default); function column = repeat. "
              "A dtype layer models numpy.array's dtype inference, NumPy's lossy conversions and the dtype SparseColumn.materialize chooses, "
              "and proves that every stored value survives the conversion unchanged and the default survives it up to ==. The executable "
              "models (same definitions) are tied to orso/schema.py by running the real columns on all sequences of length <= 5 over "
              "{a, b, default} for several alphabets and on random sequences/defaults/functions, comparing .values, .lengths/.indices/.encoding, "
              "both dtypes and materialize() inside Coq; a literal property oracle on the implementation supplies replayable failing inputs.")
LEVEL_NOTE = ("Trusted: Coq kernel + vm_compute; the hand-written models of the five columns and of the NumPy fragment they use "
              "(array dtype inference for homogeneous Python lists and int/float/bool mixes, scalar conversions, ==/!= promotion, unique's order), "
              "validated by correspondence, not verified. Outside the model (generators stay inside): text mixed with numbers in one list WITHOUT a null "
              "(with a null it is an object array: modelled, proved to keep every element as it is - C09_np_array_keeps_objects, C09_sparse_object_null_exact - and generated), "
              "integers outside int64 in the data, NUL characters in text, lower-case non-ASCII letters under 'upper'. "
              "Partial: totality of the sparse constructor and exactness of its default test carry guards (known findings F-C09-3, F-C09-4, F-C09-5, each with a _refuted witness); "
              "'equal to the default' is Python/NumPy ==, so -0.0 stored under default 0.0 comes back as 0.0 and 1.0 under default 1 as the data's own kind. "
              "Scripts on one column object (expand / function on the stored values / copy / change length / read an earlier expansion again) are modelled with the stored form as "
              "explicit state (script_np, proved to generalise the single-step models and to be invariant under copy steps) and evaluated in Coq; what the model cannot express is the "
              "caller overwriting a returned array (scribble) and the in-place / rebinding distinction - both are steps of the implementation run only, judged by the oracle. "
              "Sessions over several constant / function column objects (explicit state: current fields of each object, declared size, call count of the one stateful binding) ARE "
              "modelled (sess_run) and evaluated in Coq; the declared type of run-length / dictionary / sparse columns is not a model parameter at all (independence by construction, "
              "checked by running them under every declaration). "
              "Scale: the theorems hold for every length, and the correspondence evaluates the model on dictionaries of up to ~700 entries, runs / lengths / sparse indices up to 2^16+1; "
              "dictionaries of >= 2^15 entries, sparse columns with >= 2^15 stored values and sequences of >= 2^15 runs are judged by the property oracle only "
              "(the list-based model needs n*k steps, the literal would be megabytes); sizes at 2^31 / 2^32 are not exercised at all. "
              "No axioms (Print Assumptions: closed).")
DESIGN_REF = "DESIGN.md section 8, C09"
COQ_IMPORTS = "From Orso Require Import Model.C09."
COQ_CHECKS = {"rle": "c09_check_rle", "dict": "c09_check_dict", "sparse": "c09_check_sparse",
              "const": "c09_check_const", "func": "c09_check_func"}
COQ_SHOW = {"rle": "c09_show_rle", "dict": "c09_show_dict", "sparse": "c09_show_sparse",
            "const": "c09_show_const", "func": "c09_show_func", "session": "c09_show_session"}
COQ_CHECKS["session"] = "c09_check_session"
COQ_CHECKS["script"] = "c09_check_script"
COQ_SHOW["script"] = "c09_show_script"
COQ_CHECKS["sparse_decl"] = "c09_check_sparse_decl"
COQ_SHOW["sparse_decl"] = "c09_show_sparse_decl"
# long cases (the boundary sweep) go to four extra shards per column, same check functions, so that they are
# type-checked in parallel instead of all landing in one cases file
_SPREAD = 4
for _k in ("rle", "dict", "sparse"):
    for _i in range(_SPREAD):
        COQ_CHECKS["%s_s%d" % (_k, _i)] = COQ_CHECKS[_k]
        COQ_SHOW["%s_s%d" % (_k, _i)] = COQ_SHOW[_k]
RULE = ("real RLEColumn / DictionaryColumn / SparseColumn / ConstantColumn / FunctionColumn objects built from Python lists; "
        "exhaustive: every sequence of length <= 5 (quick: <= 4) over {a, b, default} for integer, text (mixed width), float, boolean, "
        "null-default, other-kind-default and other-width-default alphabets; random: sequences of ints, floats (NaN, infinities, signed zero, "
        "subnormal), text of mixed width (non-ASCII, astral), booleans, each with or without nulls, int/float mixes; sparse defaults null / 0 / '' / "
        "pool value / other width / other numeric kind / out-of-range; element-wise functions *2, +1, upper, +'xy', not on the stored values; "
        "multi-step cases run a script on ONE column object (materialize / function on the stored values in place or by rebinding / overwrite "
        "a returned array / change length / materialize again) and are judged by the oracle only; "
        "every column is also built under every way of declaring its type (enum member, plain / lower-case name, VARCHAR[n], BLOB[n], DECIMAL(p,s), ARRAY<T>) and other "
        "descriptive constructor arguments; sessions create several constant / function column objects that share ONE binding function object per name, with configurations "
        "that compare equal but are of different kinds (1 / 1.0 / True, 0 / 0.0 / -0.0 / False, 2**53 / 2.0**53), a counter binding, lengths given or defaulted, and expand / "
        "rebind configuration or length / overwrite a returned array / expand again (evaluated in Coq by sess_run and judged by the oracle); "
        "columns also DECLARE a schema default (FlatColumn default=, parsed by the declared type) that mostly occurs in the data - exhaustively all sequences of length <= 3 "
        "(thorough 4) over {a, b, null} for 6 alphabets x declared default a / b x sparse default_value None / left out; values handed over as list, tuple or ndarray; "
        "multi-step scripts now also copy the object (copy.copy / copy.deepcopy / pickle round trip, going on with the copy or with the original) and read every "
        "earlier expansion again, and every script is evaluated in Coq (script_np) as well as judged by the oracle; "
        "object arrays of several kinds: all sequences of length <= 4 (thorough 5) holding a null over {a, b, null} for 12 pairs of different kinds (int/float, "
        "2**53+1/float, bool/int, 1/1.0, True/1, False/0.0, number/text) as sparse columns around null, run-length columns, sparse around a or b, copy / reread scripts and "
        "*2 / +1 on the stored values, judged type-strictly at every position (an object array unifies nothing); random mixed data has nulls 60 % of the time and text next to numbers; "
        "boundary sweep (fixed permutations + seeded sizes): number of dictionary entries, run length, number of runs, sparse index / total length / "
        "number of stored values, constant and function length just below, at and above 2^7, 2^8, 2^15, 2^16; "
        "a case is non-trivial when it expanded without raising and holds >= 2 elements (constant/function: length >= 1); distinct by canonical JSON")
TRUSTED = [
    "C09 model (coq/Model/C09.v): codecs over an abstract value type; Python values as None/bool/Z/exact binary64 (m*2^e)/code points; "
    "NumPy dtypes bool,int64,uint64,float64,<Uk,object with numpy.array inference, scalar conversion (truncating/rounding like NumPy), "
    "comparison after promotion, numpy.unique = sorted distinct values (NaNs collapsed, last) + index of each element",
    "modelled, not verified: NumPy itself (array construction, fancy-index assignment, numpy.full, numpy.unique, ufuncs); FlatColumn.__init__ attribute plumbing",
    "numpy.full / item assignment are modelled with the scalar conversion; array-to-array casts occur in the modelled code only where they are exact",
]
ASSUMPTIONS = [
    "exact round-trip theorems assume the comparison decides Leibniz equality (eqb x y = true <-> x = y); the hypothesis-free variants "
    "(each element is returned itself or replaced by something it compared equal to) hold for Python's == including NaN",
    "dictionary theorems assume a total, transitive, antisymmetric order (numpy's sort order inside one dtype; NaN excluded)",
    "function commutation for sparse assumes f default = default (a sparse encoding cannot know f default)",
]

I64 = (-(2 ** 63), 2 ** 63 - 1)
NAN, INF = float("nan"), float("inf")


# ----------------------------------------------------------------------------------------------
# value coding
# ----------------------------------------------------------------------------------------------
def enc(x):
    t = type(x)  # fast paths for what .tolist() returns (same answers as the general code below)
    if t is int:
        return ["i", x]
    if t is str:
        return ["s", x]
    if t is float:
        return ["f", x.hex()]
    try:
        import numpy
        if isinstance(x, numpy.generic):
            x = x.item()
    except ImportError:  # pragma: no cover
        pass
    if x is None:
        return ["n"]
    if isinstance(x, bool):
        return ["b", x]
    if isinstance(x, int):
        return ["i", x]
    if isinstance(x, float):
        return ["f", x.hex()]
    if isinstance(x, str):
        return ["s", x]
    return ["?", repr(x)]


def dec(v):
    t = v[0]
    if t == "n":
        return None
    if t in ("b", "i", "s"):
        return v[1]
    if t == "f":
        return float.fromhex(v[1])
    raise ValueError(v)


def _coq_float(x):
    if x != x:
        return "FNaN"
    if x in (INF, -INF):
        return "(FInf %s)" % L.boolean(x < 0)
    if x == 0:
        return "(FZero %s)" % L.boolean(math.copysign(1.0, x) < 0)
    p, q = x.as_integer_ratio()
    if q > 1:
        m, e = p, -(q.bit_length() - 1)
    else:
        e = (p & -p).bit_length() - 1
        m = p >> e
    return "(FFin %s %s)" % (L.Z(m), L.Z(e))


def coq_val(v):
    t = v[0]
    if t == "n":
        return "VNull"
    if t == "b":
        return "(VBool %s)" % L.boolean(v[1])
    if t == "i":
        return "(VInt %s)" % L.Z(v[1])
    if t == "f":
        return "(VFloat %s)" % _coq_float(float.fromhex(v[1]))
    if t == "s":
        return "(VStr %s)" % L.text(v[1])
    return "(VStr ([0]%N : list N))"  # something the model never produces


def coq_dtype(s):
    simple = {"bool": "DBool", "int64": "DInt", "uint64": "DUInt", "float64": "DFloat", "object": "DObj"}
    if s in simple:
        return simple[s]
    if s.startswith("<U") and s[2:].isdigit() and 0 < int(s[2:]) <= 5000:
        return "(DStr %s)" % L.nat(int(s[2:]))
    return "(DStr 0%nat)"  # unknown dtype: never equal to what the model computes


_EXN = {"ValueError": "ValueError", "OverflowError": "OverflowError", "TypeError": "TypeError", "IndexError": "IndexError"}
_FN = {None: "(None : option fn)", "mul2": "(Some Mul2)", "add1": "(Some Add1)", "upper": "(Some Upper)", "catxy": "(Some CatXY)", "not": "(Some Not)"}
_BIND = {"first": "BFirst", "last": "BLast", "null": "BConstNull"}


class _TooBig(Exception):
    """the Coq term of one case would exceed _TERM_LIMIT characters"""


_LONG = 64        # lists up to this length are printed as plain literals (the round-1 form, unchanged)
_RUN = 8          # in longer lists a run of >= _RUN identical items is printed as `repeat item count`


def _coq_nat(i):
    """a nat; beyond small values as N.to_nat of a binary numeral (unary literals cost a node per unit, and > 5000 are refused)"""
    i = int(i)
    if i < 0:
        raise ValueError("negative nat")
    return L.nat(i) if i <= 16 else "(N.to_nat %s)" % L.N(i)


def _compact(xs, render, ty, key=lambda v: tuple(v) if isinstance(v, list) else v):
    """Coq term of type `list ty` denoting exactly the list xs: literal segments joined by ++, runs of identical
    items as `repeat item n` (evaluated by vm_compute like everything else in the case)."""
    parts, lit, size = [], [], 0
    for _, grp in itertools.groupby(xs, key=key):
        g = list(grp)
        if len(g) >= _RUN:
            if lit:
                parts.append(L.lst(lit))
                lit = []
            parts.append("(repeat %s %s)" % (render(g[0]), _coq_nat(len(g))))
            size += len(parts[-1])
        else:
            for v in g:
                lit.append(render(v))
                size += len(lit[-1])
        if size > _TERM_LIMIT:
            raise _TooBig()
    if lit or not parts:
        parts.append(L.lst(lit))
    return "((%s)%%list : list %s)" % (" ++ ".join(parts), ty)


def coq_vals(xs):
    if len(xs) <= _LONG:
        return "(%s : list val)" % L.lst(coq_val(v) for v in xs)
    return _compact(xs, coq_val, "val")


def coq_nats(xs):
    if len(xs) <= _LONG and all(i <= 5000 for i in xs):
        return "(%s : list nat)" % L.lst(L.nat(i) for i in xs)
    return _compact(xs, _coq_nat, "nat")


def coq_obs(obs, with_aux=True, single=False):
    if "raise" in obs:
        return "(Raise %s : result obs)" % _EXN.get(obs["raise"], "OtherError")
    if with_aux and any(i < 0 for i in obs["aux"]):
        return "(Raise OtherError : result obs)"  # a negative code / index / length: nothing the model ever answers
    vals = coq_vals
    if single:
        vv = L.lst([vals(obs["mat"])])
        dd = L.lst([coq_dtype(obs["mat_dtype"])])
    else:
        vv = L.lst([vals(obs["values"]), vals(obs["mat"])])
        dd = L.lst([coq_dtype(obs["values_dtype"]), coq_dtype(obs["mat_dtype"])])
    nn = L.lst([coq_nats(obs["aux"])]) if with_aux else "[]"
    return "(Ok (mkobs (%s : list (list val)) (%s : list (list nat)) (%s : list dtype)))" % (vv, nn, dd)


# ----------------------------------------------------------------------------------------------
# implementation runner
# ----------------------------------------------------------------------------------------------
def _apply_fn(col, fn):
    import numpy
    if fn == "mul2":
        col.values = col.values * 2
    elif fn == "add1":
        col.values = col.values + 1
    elif fn == "upper":
        col.values = numpy.char.upper(col.values)
    elif fn == "catxy":
        col.values = numpy.char.add(col.values, "xy")
    elif fn == "not":
        col.values = numpy.logical_not(col.values)
    else:
        raise KeyError(fn)


def _binding(name):
    if name == "first":
        return lambda *a: a[0] if a else None
    if name == "last":
        return lambda *a: a[-1] if a else None
    if name == "null":
        return lambda *a: None
    raise KeyError(name)


def _apply_fn_inplace(col, fn):
    """the same element-wise functions, written INTO the stored array (col.values is not rebound)"""
    import numpy
    if fn == "mul2":
        col.values *= 2
    elif fn == "add1":
        col.values += 1
    elif fn == "upper":
        col.values[...] = numpy.char.upper(col.values)
    elif fn == "not":
        numpy.logical_not(col.values, out=col.values)
    else:
        raise KeyError(fn)


def _scribble(arr):
    """a caller overwrites an array materialize() handed out; True if something was written"""
    import numpy
    if arr is None or arr.size == 0:
        return False
    k = arr.dtype.kind
    if k == "b":
        numpy.logical_not(arr, out=arr)
    elif k in "iuf":
        arr[...] = 12345
    elif k == "U":
        arr[...] = "#"
    else:
        arr[...] = 12345
    return True


# how a column's type can be declared: ["enum", member name] | ["name", spelling]; everything the five columns expand to
# must be independent of it (and of the other descriptive constructor arguments in "extra")
_DECL_TYPES = ([["enum", n] for n in ("VARCHAR", "BLOB", "INTEGER", "DOUBLE", "DECIMAL", "ARRAY", "BOOLEAN", "TIMESTAMP", "JSONB", "NULL")] +
               [["name", n] for n in ("VARCHAR", "varchar", "VARCHAR[20]", "varchar[2]", "VARCHAR[0]", "VARCHAR[65537]", "BLOB", "BLOB[4]", "blob[3]",
                                      "DECIMAL(10,2)", "DECIMAL", "ARRAY<INTEGER>", "INTEGER", "double", "BOOLEAN", "TIMESTAMP", "STRUCT")])
_DECL_EXTRA = [{}, {}, {"nullable": False}, {"precision": 7, "scale": 2}, {"description": "d", "aliases": ["a", "b"]}, {"element_type": "INTEGER"},
               {"lowest_value": 0, "highest_value": 9, "null_count": 3}, {"origin": ["t"], "identity": "zz"},
               {"description": None, "precision": None, "scale": None, "element_type": None, "disposition": None},  # explicit None = left out
               {"aliases": [], "expectations": [], "nullable": True}]
# ways of declaring a type under which a declared default of that kind parses (FlatColumn.__init__ raises otherwise)
_DEFAULT_TYPES = {"i": [["enum", "INTEGER"], ["name", "INTEGER"], ["name", "integer"], ["enum", "DOUBLE"]],
                  "f": [["enum", "DOUBLE"], ["name", "DOUBLE"], ["name", "double"]],
                  "s": [["enum", "VARCHAR"], ["name", "VARCHAR"], ["name", "VARCHAR[20]"], ["name", "varchar[2]"]],
                  "b": [["enum", "BOOLEAN"], ["name", "BOOLEAN"]]}


def _declared_default(v, k=0, extra=0):
    """a declaration whose schema default is the value v (None if v cannot be declared: null, NaN / infinity, beyond int64)"""
    if v is None or (isinstance(v, float) and (v != v or abs(v) == INF)) or (_is_int(v) and not I64[0] <= v <= I64[1]):
        return None
    ts = _DEFAULT_TYPES[enc(v)[0]]
    d = {"type": ts[k % len(ts)], "default": enc(v)}
    if _DECL_EXTRA[extra % len(_DECL_EXTRA)]:
        d["extra"] = _DECL_EXTRA[extra % len(_DECL_EXTRA)]
    return d


def _one_kind(vs):
    """non-empty, one kind among bool / int64 / float / text, no nulls: numpy.array leaves such a list as it is
    (theorem C09_np_array_identity_on_one_kind), so handing the column an ndarray is handing it the same sequence"""
    kinds = {v[0] for v in vs}
    return len(vs) > 0 and len(kinds) == 1 and kinds <= {"b", "i", "f", "s"} and all(v[0] != "i" or I64[0] <= v[1] <= I64[1] for v in vs)


def _decl_kwargs(decl):
    from orso.types import OrsoTypes
    if not decl:
        return {"type": OrsoTypes.VARCHAR}
    how, name = decl["type"]
    kw = dict(decl.get("extra") or {})
    kw["type"] = OrsoTypes[name] if how == "enum" else name
    if decl.get("default") is not None:
        kw["default"] = dec(decl["default"])  # the schema-level default (FlatColumn.default), not the sparse default_value
    return kw


def _decl_size(decl):
    """the size written into the declared type name (VARCHAR[20] -> 20), else None"""
    import re
    if not decl or decl["type"][0] != "name":
        return None
    m = re.search(r"\[(\d+)\]", decl["type"][1])
    return int(m.group(1)) if m else None


def _build(case):
    from orso.schema import ConstantColumn, DictionaryColumn, FunctionColumn, RLEColumn, SparseColumn

    kind = case["col"]
    kw = _decl_kwargs(case.get("decl"))
    if kind == "func":
        return FunctionColumn(name="c", binding=_binding(case["binding"]),
                              configuration=tuple(dec(v) for v in case["cfg"]), length=case["length"], **kw)
    if kind == "const":
        return ConstantColumn(name="c", value=dec(case["value"]), length=case["length"], **kw)
    values = [dec(v) for v in case["values"]]
    if case.get("container") == "tuple":
        values = tuple(values)
    elif case.get("container") == "ndarray":
        import numpy
        if not _one_kind(case["values"]):
            raise KeyError("ndarray container for data numpy.array would change")
        values = numpy.array(values)
    if kind == "rle":
        return RLEColumn(name="c", values=values, **kw)
    if kind == "dict":
        return DictionaryColumn(name="c", values=values, **kw)
    if kind == "sparse":
        if case.get("default_omitted"):  # only with a null sparse default: the argument is left out instead of passed as None
            if case["default"] != ["n"]:
                raise KeyError("default_omitted with a default")
            return SparseColumn(name="c", values=values, **kw)
        return SparseColumn(name="c", values=values, default_value=dec(case["default"]), **kw)
    raise KeyError(kind)


def _observe_script(case):
    import warnings

    steps = []
    stage, at = "init", -1
    with warnings.catch_warnings():
        warnings.simplefilter("ignore")
        try:
            col = _build(case)
            last = None
            rets = []  # every array materialize() handed out: [array, overwritten by the caller since]
            for at, st in enumerate(case["script"]):
                if st == "mat":
                    stage = "mat"
                    last = col.materialize()
                    rets.append([last, False])
                    steps.append({"mat": [enc(x) for x in last.tolist()], "mat_dtype": str(last.dtype)})
                elif st == "scribble":
                    stage = "scribble"
                    try:
                        did = _scribble(last)
                        steps.append({"scribbled": did})
                    except (ValueError, TypeError) as e:  # read-only or unassignable: nothing was written
                        did = False
                        steps.append({"scribbled": False, "refused": type(e).__name__})
                    if did and rets:
                        rets[-1][1] = True
                elif st == "reread":
                    # the caller looks again at every expansion it still holds (and has not overwritten itself)
                    stage = "reread"
                    steps.append({"reread": [None if w else {"mat": [enc(x) for x in a.tolist()], "mat_dtype": str(a.dtype)} for a, w in rets]})
                elif st[0] == "copy":
                    stage = "copy"
                    import copy as _copy
                    import pickle as _pickle
                    dup = {"copy": _copy.copy, "deepcopy": _copy.deepcopy, "pickle": lambda c: _pickle.loads(_pickle.dumps(c))}[st[1]](col)
                    if st[2] == "copy":
                        col = dup  # go on with the copy; with "original" the copy is made and dropped
                    steps.append({})
                elif st[0] == "fn":
                    stage = "fn"
                    if st[2] == "inplace":
                        _apply_fn_inplace(col, st[1])
                    else:
                        _apply_fn(col, st[1])
                    steps.append({"values": [enc(x) for x in col.values.tolist()], "values_dtype": str(col.values.dtype)})
                elif st[0] == "length":
                    stage = "length"
                    col.length = st[1]
                    steps.append({})
                else:
                    raise KeyError(st)
            return {"steps": steps}
        except KeyError:
            raise
        except Exception as e:
            return {"steps": steps, "raise": type(e).__name__, "stage": stage, "at": at}


# ---- sessions: several constant / function column OBJECTS that share their binding FUNCTION objects -----------------
#   {"col": "session", "steps": [["new", {"kind": "func", "binding": B, "cfg": [V..], "length": n|null, "decl": D|null}]
#                                | ["new", {"kind": "const", "value": V, "length": n|null, "decl": D|null}]
#                                | ["mat", i] | ["cfg", i, [V..]] | ["length", i, n] | ["scribble", i]]}
#   B = "first" | "last" | "null" | "counter" (one itertools.count per session, shared by its columns); length null = not passed
#   Observed: {"steps": [{"mat": [V], "mat_dtype": str} | {}]} plus "raise"/"stage"/"at" if a step raised.
def _session_bindings():
    """ONE function object per binding name for the whole session (a memo keyed on the function would be hit)"""
    counter = itertools.count()
    return {"first": _binding("first"), "last": _binding("last"), "null": _binding("null"), "counter": counter.__next__}


def _observe_session(case):
    import warnings
    from orso.schema import ConstantColumn, FunctionColumn

    steps, cols, last = [], [], {}
    stage, at = "new", -1
    binds = _session_bindings()
    with warnings.catch_warnings():
        warnings.simplefilter("ignore")
        try:
            for at, st in enumerate(case["steps"]):
                op = st[0]
                stage = op
                if op == "new":
                    c = st[1]
                    kw = _decl_kwargs(c.get("decl"))
                    if c.get("length") is not None:
                        kw["length"] = c["length"]
                    if c["kind"] == "func":
                        cols.append(FunctionColumn(name="c%d" % len(cols), binding=binds[c["binding"]],
                                                   configuration=tuple(dec(v) for v in c["cfg"]), **kw))
                    else:
                        cols.append(ConstantColumn(name="c%d" % len(cols), value=dec(c["value"]), **kw))
                    steps.append({})
                elif op == "mat":
                    m = cols[st[1]].materialize()
                    last[st[1]] = m
                    steps.append({"mat": [enc(x) for x in m.tolist()], "mat_dtype": str(m.dtype)})
                elif op == "cfg":
                    cols[st[1]].configuration = tuple(dec(v) for v in st[2])
                    steps.append({})
                elif op == "length":
                    cols[st[1]].length = st[2]
                    steps.append({})
                elif op == "scribble":
                    try:
                        _scribble(last.get(st[1]))
                    except (ValueError, TypeError):
                        pass
                    steps.append({})
                else:
                    raise KeyError(op)
            return {"steps": steps}
        except KeyError:
            raise
        except Exception as e:
            return {"steps": steps, "raise": type(e).__name__, "stage": stage, "at": at}


def _session_state(case, upto=None):
    """the oracle's own bookkeeping: yields (step index, step, expected expansion or None)"""
    cols, ticks = [], 0
    for i, st in enumerate(case["steps"]):
        op, want = st[0], None
        if op == "new":
            c = st[1]
            cols.append({"kind": c["kind"], "binding": c.get("binding"), "cfg": [dec(v) for v in c.get("cfg", [])],
                         "value": dec(c["value"]) if c["kind"] == "const" else None,
                         "length": 1 if c.get("length") is None else c["length"]})
        elif op == "mat":
            c = cols[st[1]]
            if c["kind"] == "const":
                v = c["value"]
            elif c["binding"] == "counter":
                v, ticks = ticks, ticks + 1
            else:
                v = _binding(c["binding"])(*c["cfg"])
            want = [v] * c["length"]
        elif op == "cfg":
            cols[st[1]]["cfg"] = [dec(v) for v in st[2]]
        elif op == "length":
            cols[st[1]]["length"] = st[2]
        yield i, st, want


def _oracle_session(case, obs):
    """every expansion is the column's own current value (its binding applied to its own current configuration, now)
    repeated to its own current length - whatever was declared, created, expanded or overwritten before"""
    steps = obs["steps"]
    failed_at = obs.get("at") if "raise" in obs else None
    for i, st, want in _session_state(case):
        if failed_at is not None and i == failed_at:
            return f"step {i} {st!r} of the session raised {obs['raise']}"
        if want is not None:
            why = _seq_same([dec(x) for x in steps[i]["mat"]], want, f"step {i} (expand column {st[1]}) of session {case['steps']!r}")
            if why:
                return why
    return None


def _coq_session(case, obs):
    bind = {"first": "(SPure BFirst)", "last": "(SPure BLast)", "null": "(SPure BConstNull)", "counter": "SCounter"}
    terms, outs = [], []
    failed_at = obs.get("at") if "raise" in obs else None
    for i, st in enumerate(case["steps"]):
        op = st[0]
        if failed_at is not None and i == failed_at:
            # a raising expansion is an answer the model can give; anything else raising is not
            if op == "mat":
                terms.append("(SMat %s)" % L.nat(st[1]))
            outs.append("(Raise %s : result (list val * dtype))" % (_EXN.get(obs["raise"], "OtherError") if op == "mat" else "OtherError"))
            break
        if op == "new":
            c = st[1]
            size = _decl_size(c.get("decl"))
            k = ("(KFunc %s %s)" % (bind[c["binding"]], coq_vals([v for v in c["cfg"]]))) if c["kind"] == "func" else "(KConst %s)" % coq_val(c["value"])
            terms.append("(SNew (mkscol %s %s %s))" % (k, L.Z(1 if c.get("length") is None else c["length"]),
                                                      "None" if size is None else "(Some %s)" % L.N(size)))
        elif op == "mat":
            terms.append("(SMat %s)" % L.nat(st[1]))
            o = obs["steps"][i]
            outs.append("(Ok (%s, %s) : result (list val * dtype))" % (coq_vals(o["mat"]), coq_dtype(o["mat_dtype"])))
        elif op == "cfg":
            terms.append("(SSetCfg %s %s)" % (L.nat(st[1]), coq_vals(st[2])))
        elif op == "length":
            terms.append("(SSetLen %s %s)" % (L.nat(st[1]), L.Z(st[2])))
        # "scribble": the caller writes into an array it was handed; the model has no such array, nothing to say
    return ("session", "((%s : list sstep), (%s : list (result (list val * dtype))))" % (L.lst(terms), L.lst(outs)))


def observe(case):
    import warnings
    if case["col"] == "session":
        return _observe_session(case)
    from orso.schema import ConstantColumn, DictionaryColumn, FunctionColumn, RLEColumn, SparseColumn
    from orso.types import OrsoTypes

    if "script" in case:
        return _observe_script(case)
    kind = case["col"]
    stage = "init"
    out = {}
    with warnings.catch_warnings():
        warnings.simplefilter("ignore")
        try:
            col = _build(case)
            if kind != "func":
                aux = ([] if kind == "const" else [int(x) for x in col.lengths] if kind == "rle"
                       else [int(x) for x in col.encoding.tolist()] if kind == "dict" else [int(x) for x in col.indices.tolist()])
                out["values"] = [enc(x) for x in col.values.tolist()]
                out["values_dtype"] = str(col.values.dtype)
                out["aux"] = aux
                if case.get("fn"):
                    stage = "fn"
                    _apply_fn(col, case["fn"])
            stage = "mat"
            m = col.materialize()
            out["mat"] = [enc(x) for x in m.tolist()]
            out["mat_dtype"] = str(m.dtype)
            return out
        except KeyError:
            raise
        except Exception as e:  # the implementation (or NumPy under it) raised
            return {"raise": type(e).__name__, "stage": stage}


# ----------------------------------------------------------------------------------------------
# the property, literally, on what the implementation returned
# ----------------------------------------------------------------------------------------------
def _pyf(fn, x):
    if x is None or fn is None:
        return x
    if fn == "mul2":
        return x * 2
    if fn == "add1":
        return x + 1
    if fn == "upper":
        return x.upper()
    if fn == "catxy":
        return x + "xy"
    if fn == "not":
        return not x
    raise KeyError(fn)


def _isnan(x):
    return isinstance(x, float) and x != x


def _py_eq(a, b):
    """Python's == with None by identity and NaN never equal."""
    if a is None or b is None:
        return a is None and b is None
    if isinstance(a, str) != isinstance(b, str):
        return False
    return a == b


def _mixed(seq):
    ts = {type(x) for x in seq if x is not None}
    return len(ts) > 1


def _same(o, e, relaxed):
    """o reproduces e: equal value and - in a sequence of one type - the same type."""
    if _isnan(e):
        return _isnan(o)
    if e is None or o is None:
        return e is None and o is None
    if isinstance(e, str) or isinstance(o, str):
        return isinstance(e, str) and isinstance(o, str) and o == e
    if not relaxed and type(o) is not type(e):
        return False
    return o == e


def _strict_positions(kind, values, default=None):
    """Round 7.  A list holding a null becomes an OBJECT array: NumPy unifies nothing there, every element stays the
    Python object it was, so "neither truncated nor narrowed to another type" is judged type-strictly even when the
    list mixes kinds (1 next to 2.5 next to True next to 'a').  Returns one flag per position (True = the type must
    come back as well), or None where the old rule applies (no null in the input: numpy.array unifies the kinds on
    input, equal by == only).  Positions that stay under the old rule inside an object array: a sparse element that
    is == the default but of another type (NumPy's != calls it the default - the F-C09-5 situation), and a run-length
    run whose members are == but of different types (the run is stored as its head)."""
    if kind not in ("sparse", "rle") or not any(v is None for v in values):
        return None
    old = not _mixed(values)
    if kind == "sparse":
        d = default
        def collides(v):
            if v is None or d is None or isinstance(v, str) or isinstance(d, str):
                return False
            return v == d and type(v) is not type(d)
        return [old if collides(v) else True for v in values]
    flags = []
    i = 0
    while i < len(values):
        j = i + 1
        while j < len(values) and _py_eq(values[j], values[j - 1]):
            j += 1
        one_type = len({type(v) for v in values[i:j]}) == 1
        flags.extend([True if one_type else old] * (j - i))
        i = j
    return flags


def _seq_same(got, want, what, strict=None):
    if len(got) != len(want):
        return f"{what}: length {len(got)}, required {len(want)}"
    relaxed = _mixed(want)
    if strict is not None and len(strict) != len(want):
        strict = None
    for i, (o, e) in enumerate(zip(got, want)):
        if not _same(o, e, relaxed and not (strict is not None and strict[i])):
            return f"{what}: position {i} holds {o!r} ({type(o).__name__}), required {e!r} ({type(e).__name__})"
    return None


def _oracle_script(case, obs):
    """Every expansion of the one column object equals the functions applied so far to every element of the
    original; overwriting an array handed out earlier changes nothing."""
    kind = case["col"]
    script = case["script"]
    steps = obs["steps"]
    failed_at = obs.get("at") if "raise" in obs else None
    if kind == "func":
        cur = [_binding(case["binding"])(*[dec(v) for v in case["cfg"]])]
        n = case["length"]
    elif kind == "const":
        cur = [dec(case["value"])]
        n = case["length"]
    else:
        cur = [dec(v) for v in case["values"]]
        n = None
        if kind == "dict" and any(v is None for v in cur):
            return None  # the dictionary encoding does not support nulls
        strict = _strict_positions(kind, cur, dec(case["default"]) if kind == "sparse" else None)
    if failed_at == -1:
        if n is not None and n < 0:
            return None
        return f"{kind} column must build, raised {obs['raise']} in init"
    done = []
    scribbled = False
    if n is not None:
        strict = None
    for i, st in enumerate(script):
        if failed_at is not None and i == failed_at:
            if obs["stage"] == "mat" and not (n is not None and n < 0):
                return f"step {i} of {script}: materialize() after {done} raised {obs['raise']}"
            return None  # the harness's own NumPy operation does not apply here: nothing further to judge
        if i >= len(steps):
            return None
        if st == "mat":
            if n is not None and n < 0:
                return None
            want = cur * n if n is not None else cur
            why = _seq_same([dec(x) for x in steps[i]["mat"]], want,
                            f"step {i} of {script}: expansion after {done or 'nothing'}" +
                            (" and after a caller overwrote an earlier expansion" if scribbled else ""), strict)
            if why:
                return why
        elif st == "scribble":
            scribbled = scribbled or steps[i].get("scribbled", False)
        elif st == "reread":
            mats = [j for j in range(i) if script[j] == "mat"]
            for k, (j, now) in enumerate(zip(mats, steps[i]["reread"])):
                if now is not None and (now["mat"] != steps[j]["mat"] or now["mat_dtype"] != steps[j]["mat_dtype"]):
                    return (f"step {i} of {script}: the expansion returned at step {j} was {[dec(x) for x in steps[j]['mat']]!r} and now reads "
                            f"{[dec(x) for x in now['mat']]!r} (after {done}): an expansion is the sequence at the time it was expanded")
        elif st[0] == "fn":
            if kind == "sparse":
                d = dec(case["default"])
                try:
                    fixed = d is None or _same(_pyf(st[1], d), d, False)
                except Exception:
                    fixed = False
                if not fixed:
                    return None  # from here on the property does not speak (f default != default)
            cur = [_pyf(st[1], v) for v in cur]
            done.append(st[1] + ("(in place)" if st[2] == "inplace" else ""))
        elif st[0] == "length":
            n = st[1]
    return None


def oracle(case, obs):
    if case["col"] == "session":
        return _oracle_session(case, obs)
    if "script" in case:
        return _oracle_script(case, obs)
    kind = case["col"]
    fn = case.get("fn")
    if obs.get("stage") == "fn":
        return None  # the harness's own NumPy operation does not apply to these stored values
    if kind == "func":
        n = case["length"]
        if n < 0:
            return None  # not a length
        if "raise" in obs:
            return f"function column of length {n} must expand, raised {obs['raise']}"
        cfg = [dec(v) for v in case["cfg"]]
        want = [_binding(case["binding"])(*cfg)] * n
        return _seq_same([dec(v) for v in obs["mat"]], want, "function column")
    if kind == "const":
        n = case["length"]
        if n < 0:
            return None
        if "raise" in obs:
            return f"constant column of length {n} must expand, raised {obs['raise']}"
        v = dec(case["value"])
        stored = [dec(x) for x in obs["values"]]
        why = _seq_same(stored, [v], "constant column stored form")
        if why:
            return why
        return _seq_same([dec(x) for x in obs["mat"]], [_pyf(fn, v)] * n, "constant column")
    values = [dec(v) for v in case["values"]]
    if "raise" in obs:
        if kind == "dict" and any(v is None for v in values):
            return None  # the dictionary encoding does not support nulls
        shown = repr(values) if len(values) <= 40 else f"{values[:8]!r}... ({len(values)} elements)"
        return f"{kind} column over {shown} must build and expand, raised {obs['raise']} in {obs['stage']}"
    stored = [dec(x) for x in obs["values"]]
    aux = obs["aux"]
    mat = [dec(x) for x in obs["mat"]]
    n = len(values)
    # --- the stored form is genuinely compressed
    if kind == "rle":
        if len(stored) != len(aux):
            return f"rle: {len(stored)} run values but {len(aux)} run lengths"
        if any(k < 1 for k in aux):
            return f"rle: run lengths {aux} must all be >= 1"
        if sum(aux) != n:
            return f"rle: run lengths {aux} sum to {sum(aux)}, required {n}"
        for i in range(1, len(stored)):
            if _py_eq(stored[i], stored[i - 1]):
                return f"rle: adjacent runs {i-1} and {i} hold the same value {stored[i]!r}"
    elif kind == "dict":
        if len(stored) <= 64:
            for i in range(len(stored)):
                for j in range(i):
                    if _py_eq(stored[i], stored[j]) or (_isnan(stored[i]) and _isnan(stored[j])):
                        return f"dictionary: entries {j} and {i} are both {stored[i]!r}"
        else:
            # the same pairwise test, by hashing (x == y implies hash(x) == hash(y) for None / bool / int / float / str)
            seen = {}
            for i, x in enumerate(stored):
                key = ("nan",) if _isnan(x) else ("null",) if x is None else ("s", x) if isinstance(x, str) else ("v", x)
                if key in seen:
                    return f"dictionary: entries {seen[key]} and {i} are both {x!r}"
                seen[key] = i
        if len(aux) != n:
            return f"dictionary: {len(aux)} codes for {n} elements"
        bad = [(i, c) for i, c in enumerate(aux) if c < 0 or c >= len(stored)]
        if bad:
            return (f"dictionary: codes must index the {len(stored)} entries; code {bad[0][1]} at position {bad[0][0]} does not "
                    f"({len(bad)} such codes)" + (f", codes {aux}" if len(aux) <= 40 else ""))
    elif kind == "sparse":
        d = dec(case["default"])
        if len(stored) != len(aux):
            return f"sparse: {len(stored)} stored values but {len(aux)} indices"
        if any(_py_eq(s, d) for s in stored):
            return f"sparse: storage {stored!r} contains the default {d!r}"
        if any(i < 0 or i >= n for i in aux) or any(aux[i] >= aux[i + 1] for i in range(len(aux) - 1)):
            return f"sparse: indices {aux} must be increasing positions below {n}"
    # --- expansion reproduces the sequence (with the function applied to every element)
    if fn is not None and kind == "sparse":
        d = dec(case["default"])
        try:
            fixed = d is None or _same(_pyf(fn, d), d, False)
        except Exception:
            fixed = False
        if not fixed:
            return None  # a sparse encoding cannot know f(default); the property needs f default = default
    want = [_pyf(fn, v) for v in values]
    strict = _strict_positions(kind, values, dec(case["default"]) if kind == "sparse" else None)
    return _seq_same(mat, want, f"{kind} column" + (f" after {fn}" if fn else ""), strict)


# ----------------------------------------------------------------------------------------------
# known findings (guards are predicates on the INPUT)
# ----------------------------------------------------------------------------------------------
def _np_kind(values, fn=None):
    """dtype kind numpy.array gives the list (our reading of it, not NumPy's)."""
    if not values:
        return "f"
    if any(v is None for v in values):
        return "O"
    if all(isinstance(v, str) for v in values):
        return "U"
    if any(isinstance(v, str) for v in values):
        return "?"
    if all(isinstance(v, bool) for v in values):
        return "i" if fn in ("mul2", "add1") else "b"
    if any(isinstance(v, float) for v in values):
        return "f"
    return "i"


def _is_int(x):
    return isinstance(x, int) and not isinstance(x, bool)


def _finding_class(case):
    """(finding id, predicate hit(element)) when the INPUT lies in the class of a known finding, else (None, None).
    hit(v): NumPy's `values != default` calls v equal to the default although v is not the default (other value or type)."""
    if case["col"] != "sparse":
        return None, None
    values = [dec(v) for v in case["values"]]
    d = dec(case["default"])
    k0 = _np_kind(values)
    # F-C09-3: the constructor's `numpy.array(values) != default` raises (Python int not convertible to the array's C type)
    if k0 == "b" and _is_int(d) and not (I64[0] <= d <= I64[1]):
        return "F-C09-3", None
    if k0 == "f" and _is_int(d):
        try:
            float(d)
        except OverflowError:
            return "F-C09-3", None
    hit = fid = None
    if k0 == "i" and isinstance(d, float) and d == d and abs(d) != INF:
        # F-C09-4: int64 data against a float default is compared in binary64
        fid, hit = "F-C09-4", (lambda v: v != d and float(v) == d)
    elif k0 == "f" and _is_int(d) and not (I64[0] <= d < 2 ** 64):
        # F-C09-4, other side: float data against an int default beyond 64 bits (object default, compared after rounding)
        fid, hit = "F-C09-4", (lambda v: isinstance(v, float) and v == v and abs(v) != INF and v == float(d))
    elif k0 == "O" and d is not None and not isinstance(d, str) and not _mixed(values):
        # F-C09-5: nullable (object) data, default of another numeric kind (0 == False, 1 == 1.0)
        fid, hit = "F-C09-5", (lambda v: v is not None and not isinstance(v, str) and v == d and type(v) is not type(d))
    if fid is None or not any(hit(v) for v in values):
        return None, None
    return fid, hit


def known(case, obs):
    """A case is excused only if its input is in the class of a known finding AND the implementation misbehaves in
    exactly the known way; anything else it does on such an input is judged (and sent to Coq) like any other case."""
    fid, hit = _finding_class(case)
    if fid is None:
        return None
    if fid == "F-C09-3":
        return fid if obs.get("raise") == "OverflowError" and obs.get("stage") == "init" else None
    if oracle(case, obs) is None:
        return None
    # the known misbehaviour: the colliding elements are treated as the default, nothing else is wrong
    d = dec(case["default"])
    # ... the default itself, or (int64 data against a float default: the array stays int64) the default as an int
    repl = [d] + ([int(d)] if fid == "F-C09-4" and isinstance(d, float) else [])
    fn = case.get("fn")
    for r in repl:
        patched = dict(case, values=[enc(r) if hit(dec(v)) else v for v in case["values"]])
        if oracle(patched, obs) is None:
            return fid
        # the function is applied to the stored values only, so a colliding element comes back as the (converted) default
        # itself; that differs from f(converted default) only where f fixes the float default by rounding (2.0**53 + 1)
        if fn and "mat" in obs:
            want = [r if hit(dec(v)) else _pyf(fn, dec(v)) for v in case["values"]]
            stored_ok = oracle(dict(patched, fn=None), dict(obs, mat=patched["values"])) is None
            if stored_ok and _seq_same([dec(x) for x in obs["mat"]], want, "") is None:
                return fid
    return None


def known_still_fails(fid, witness):
    obs = observe(witness)
    if known(witness, obs) != fid:
        return None
    if fid == "F-C09-3":
        return "constructor raised OverflowError"
    return oracle(witness, obs)


def _sparse(values, default, fn=None):
    return {"col": "sparse", "values": [enc(v) for v in values], "default": enc(default), "fn": fn}


KNOWN_WITNESSES = {
    "F-C09-3": _sparse([True, False], 2 ** 70),
    "F-C09-4": _sparse([2 ** 53 + 1, 7], 2.0 ** 53),
    "F-C09-5": _sparse([None, 0, None], False),
}


# ----------------------------------------------------------------------------------------------
# Coq terms
# ----------------------------------------------------------------------------------------------
_TERM_LIMIT = 400_000       # characters of one Coq case term (type-checking a literal costs ~15 us per node)
_MODEL_STEPS = 3_000_000    # estimated steps of the (list-based, quadratic) model on one case


def _model_too_slow(case, obs):
    """The model is executable but list-based: dict_encode is insertion sort + linear index_of (n * k steps for n elements
    with k distinct values), scatter walks to each stored index (sum of the indices).  Cases beyond the step budget are not
    evaluated in Coq (the theorems cover every length; only the evaluation of this one case is skipped)."""
    vs = case.get("values")
    if vs is None:
        return False
    n = len(vs)
    if case["col"] == "dict":
        return n * len({tuple(v) for v in vs}) > _MODEL_STEPS
    if case["col"] == "sparse":
        d = tuple(case["default"])
        return sum(i for i, v in enumerate(vs) if tuple(v) != d) > _MODEL_STEPS
    return False


_last_term = [None, None, None]


def to_coq(case, obs):
    if _last_term[0] is case and _last_term[1] is obs:  # classify() asks too
        return _last_term[2]
    try:
        t = _to_coq(case, obs)
    except _TooBig:
        t = None  # judged by the oracle only (classify() says so in the evidence)
    _last_term[:] = [case, obs, t]
    return t


_KFN = {"mul2": "Mul2", "add1": "Add1", "upper": "Upper", "catxy": "CatXY", "not": "Not"}


def _coq_script(case, obs):
    kind = case["col"]
    ty = "result (list val * dtype)"
    if kind == "func":
        spec = "(CFunc %s %s %s)" % (_BIND[case["binding"]], coq_vals(case["cfg"]), L.Z(case["length"]))
    elif kind == "const":
        spec = "(CConst %s %s)" % (coq_val(case["value"]), L.Z(case["length"]))
    elif kind == "sparse":
        if _model_too_slow(case, obs):
            return None
        spec = "(CSparse %s %s)" % (coq_vals(case["values"]), coq_val(case["default"]))
    else:
        if _model_too_slow(case, obs):
            return None
        spec = "(%s %s)" % ("CRle" if kind == "rle" else "CDict", coq_vals(case["values"]))
    one = lambda o: "(Ok (%s, %s) : %s)" % (coq_vals(o["mat"]), coq_dtype(o["mat_dtype"]), ty)
    failed_at = obs.get("at") if "raise" in obs else None
    terms, outs = [], []
    if failed_at == -1:
        outs.append("(Raise %s : %s)" % (_EXN.get(obs["raise"], "OtherError"), ty))
    else:
        for i, st in enumerate(case["script"]):
            if failed_at is not None and i == failed_at:
                if obs["stage"] == "fn":
                    break  # the harness's own NumPy operation does not apply: the script ends before it
                if obs["stage"] == "mat":
                    terms.append("KMat")
                outs.append("(Raise %s : %s)" % (_EXN.get(obs["raise"], "OtherError") if obs["stage"] == "mat" else "OtherError", ty))
                break
            if st == "mat":
                terms.append("KMat")
                outs.append(one(obs["steps"][i]))
            elif st == "reread":
                for k, now in enumerate(obs["steps"][i]["reread"]):
                    if now is not None:
                        terms.append("(KReread %s)" % _coq_nat(k))
                        outs.append(one(now))
            elif st == "scribble":
                pass  # the caller writes into its own array: not a step of the column
            elif st[0] == "fn":
                terms.append("(KFn %s)" % _KFN[st[1]])
            elif st[0] == "copy":
                terms.append("KCopy")
            elif st[0] == "length":
                terms.append("(KLen %s)" % L.Z(st[1]))
    term = "(%s, (%s : list kstep), (%s : list (%s)))" % (spec, L.lst(terms), L.lst(outs), ty)
    return ("script", term) if len(term) <= _TERM_LIMIT else None


def _to_coq(case, obs):
    kind = case["col"]
    if kind == "session":
        return _coq_session(case, obs)
    if "script" in case:
        return _coq_script(case, obs)
    if "script" in case:
        return None  # multi-step cases: judged by the oracle only (the pure model has no object identity to get stale)
    if obs.get("stage") == "fn":
        return None
    if kind == "func":
        term = "(%s, (%s : list val), %s, %s)" % (_BIND[case["binding"]], L.lst(coq_val(v) for v in case["cfg"]),
                                                    L.Z(case["length"]), coq_obs(obs, with_aux=False, single=True))
        return ("func", term) if len(term) <= _TERM_LIMIT else None
    fn = _FN[case.get("fn")]
    if kind == "const":
        term = "(%s, %s, %s, %s)" % (coq_val(case["value"]), L.Z(case["length"]), fn, coq_obs(obs, with_aux=False))
        return ("const", term) if len(term) <= _TERM_LIMIT else None
    if _model_too_slow(case, obs):
        return None
    vals = coq_vals(case["values"])
    if kind == "sparse" and (case.get("decl") or case.get("default_omitted")):
        dc = case.get("decl") or {}
        size = _decl_size(dc)
        dcl = "(mkdecl %s %s)" % ("None" if size is None else "(Some %s)" % L.N(size),
                                  "None" if dc.get("default") is None else "(Some %s)" % coq_val(dc["default"]))
        arg = "(None : option val)" if case.get("default_omitted") else "(Some %s)" % coq_val(case["default"])
        term = "(%s, %s, %s, %s, %s)" % (dcl, arg, vals, fn, coq_obs(obs))
        return ("sparse_decl", term) if len(term) <= _TERM_LIMIT else None
    if kind == "sparse":
        term = "(%s, %s, %s, %s)" % (vals, coq_val(case["default"]), fn, coq_obs(obs))
    else:
        term = "(%s, %s, %s)" % (vals, fn, coq_obs(obs))
    if len(term) > _TERM_LIMIT:
        return None  # judged by the oracle only (classify() says so in the evidence)
    if len(term) > 4000:
        return ("%s_s%d" % (kind, zlib.crc32(term.encode()) % _SPREAD), term)
    return (kind, term)


def nontrivial_key(case, obs):
    if "raise" in obs:
        return None
    if case["col"] == "session":
        return repr(case["steps"]) if sum(1 for st in case["steps"] if st[0] == "mat") >= 2 else None
    if case["col"] in ("const", "func"):
        if case["length"] < 1:
            return None
    elif len(case["values"]) < 2:
        return None
    return repr(sorted(case.items()))


def _vkind(v):
    return {"n": "null", "b": "bool", "i": "int", "f": "float", "s": "text", "?": "other"}[v[0]]


def _band(x):
    return ">=2^16" if x >= 65536 else ">=2^15" if x >= 32768 else ">=2^8" if x >= 256 else ">=2^7" if x >= 128 else None


def _scale_labels(case, obs):
    """which of the integers an encoding keeps reached the 8- / 16-bit capacities (read off the observation)"""
    kind = case["col"]
    if kind in ("const", "func"):
        q = {"length": case["length"]}
    elif "script" in case:
        q = {"dict-entries" if kind == "dict" else "elements": len({tuple(v) for v in case["values"]}) if kind == "dict" else len(case["values"])}
    elif "raise" in obs:
        q = {}
    elif kind == "dict":
        q = {"dict-entries": len(obs["values"])}
    elif kind == "rle":
        q = {"rle-run-length": max(obs["aux"], default=0), "rle-runs": len(obs["aux"])}
    else:
        q = {"sparse-index": max(obs["aux"], default=0), "sparse-stored": len(obs["aux"]), "sparse-length": len(case["values"])}
    for name, x in q.items():
        if _band(x):
            yield "scale:%s%s" % (name, _band(x))
    if obs.get("stage") != "fn" and to_coq(case, obs) is None:
        yield "scale:oracle-only(not evaluated in Coq: model steps or term size over budget)"


def classify(case, obs):
    kind = case["col"]
    yield "col:" + kind
    if case.get("decl"):
        yield "declared-type:" + case["decl"]["type"][0] + ("[size]" if _decl_size(case["decl"]) is not None else "")
        for k in (case["decl"].get("extra") or {}):
            yield "declared-extra:" + k
        if case["decl"].get("default") is not None:
            yield "declared-default:" + _vkind(case["decl"]["default"])
            if case["decl"]["default"] in case.get("values", []) or case["decl"]["default"] == case.get("value"):
                yield "declared-default-occurs-in-data"
    if case.get("default_omitted"):
        yield "sparse-default_value-omitted"
    if case.get("container"):
        yield "values-given-as:" + case["container"]
    if kind == "session":
        news = [st[1] for st in case["steps"] if st[0] == "new"]
        yield "session:columns=%d" % len(news)
        for c in news:
            yield "session:" + c["kind"] + (":" + c["binding"] if c["kind"] == "func" else "")
            if _decl_size(c.get("decl")) is not None:
                yield "session:declared-size"
            if c.get("length") is None:
                yield "session:length-defaulted"
        for st in case["steps"]:
            if st[0] != "new":
                yield "session-step:" + st[0]
        cfgs = [tuple(dec(v) for v in c["cfg"]) for c in news if c["kind"] == "func"] + [tuple(dec(v) for v in st[2]) for st in case["steps"] if st[0] == "cfg"]
        if any(a == b and [type(x) for x in a] != [type(x) for x in b] for a in cfgs for b in cfgs):
            yield "session:equal-configurations-of-different-kinds"
        if "raise" in obs:
            yield "raised:" + obs["raise"] + "@" + obs["stage"]
        return
    if "script" in case:
        yield "multi-step"
        yield "multi-step:" + kind
        for st in case["script"]:
            yield "step:" + (st if isinstance(st, str) else st[0] + (":" + st[2] if st[0] == "fn" else ":" + st[1] + "->" + st[2] if st[0] == "copy" else ""))
    if "raise" in obs:
        yield "raised:" + obs["raise"] + "@" + obs["stage"]
    if kind in ("const", "func"):
        yield "length=%s" % ("neg" if case["length"] < 0 else min(case["length"], 4))
        if case["length"] >= 100:
            for lab in _scale_labels(case, obs):
                yield lab
        return
    vs = case["values"]
    kinds = sorted({_vkind(v) for v in vs})
    if len(vs) >= 100:
        for lab in _scale_labels(case, obs):
            yield lab
    yield "data:" + ("+".join(kinds) if kinds else "empty")
    yield "len=%d" % min(len(vs), 6) + ("+" if len(vs) > 6 else "")
    if case.get("fn"):
        yield "fn:" + case["fn"]
    if any(v[0] == "f" and float.fromhex(v[1]) != float.fromhex(v[1]) for v in vs):
        yield "has-nan"
    if len({len(v[1]) for v in vs if v[0] == "s"}) > 1:
        yield "text-mixed-width"
    if kind == "sparse":
        d = case["default"]
        yield "default:" + _vkind(d)
        if "mat_dtype" in obs:
            yield "sparse-result-dtype:" + ("U" if obs["mat_dtype"].startswith("<U") else obs["mat_dtype"])
        if d[0] != "n" and kinds and _vkind(d) not in kinds:
            yield "default-other-kind"
        if d[0] == "s" and any(v[0] == "s" and len(v[1]) > len(d[1]) for v in vs):
            yield "default-narrower-than-data"
        if "values" in obs and len(obs["values"]) == 0 and vs:
            yield "all-default"


# ----------------------------------------------------------------------------------------------
# generators
# ----------------------------------------------------------------------------------------------
def corpus():
    # F-C09-1 (fixed by 4881b1e): default 0 over floats narrowed them to ints; '' over wider text truncated it
    yield _sparse([0, 1.5, 0, 2.5], 0)
    yield _sparse(["", "abc", ""], "")
    yield _sparse([0.0, 1.5, 0.0, 2.5], 0)
    yield _sparse(["a", "abc", "a", "abcdef"], "a")
    yield _sparse([1.5, 2.5], False)
    # the first prototype of the repair turned int data into floats under a float default
    yield _sparse([1, 2, 0], 0.0)
    yield _sparse([1, 2, 3], 0.5)
    # F-C09-2 (fixed by cf4ef68): a default without a counterpart in the values' type made materialize raise
    for d in (NAN, INF, -INF, 1e30, -1e30, 2.0 ** 63, 2 ** 63, 2 ** 64 - 1):
        yield _sparse([1, 2, 3], d)
    yield _sparse([True, False, True], NAN, "mul2")
    yield _sparse([1, 2], 2.0 ** 63, "add1")
    # witnesses of the known findings and their other-side variants (judged normally if they stop misbehaving as known)
    for w in KNOWN_WITNESSES.values():
        yield w
    yield _sparse([1.5], 2 ** 1024)
    yield _sparse([1e30, 2.5], 10 ** 30)
    yield _sparse([None, -(2 ** 63)], -(2.0 ** 63))
    # one column object, several expansions (a cached / aliased expansion shows here)
    yield {"col": "dict", "values": [enc(v) for v in [3, 1, 2, 2, 3, 1, 1]], "fn": None,
           "script": ["mat", ["fn", "mul2", "inplace"], "mat", ["fn", "add1", "inplace"], "mat"]}
    yield {"col": "dict", "values": [enc(v) for v in ["aa", "b", "aa", "ccc"]], "fn": None, "script": ["mat", "scribble", "mat"]}
    yield {"col": "rle", "values": [enc(v) for v in [1, 1, 2, 2, 3, 3]], "fn": None,
           "script": ["mat", ["fn", "mul2", "inplace"], "mat", "scribble", "mat"]}
    yield dict(_sparse([1, None, 2, None, None, 3], None), script=["mat", ["fn", "mul2", "rebind"], "mat", "scribble", "mat"])
    yield {"col": "const", "value": enc(3), "length": 5, "fn": None, "script": ["mat", ["fn", "mul2", "inplace"], "mat", "scribble", "mat"]}
    yield {"col": "func", "binding": "first", "cfg": [enc(10)], "length": 1, "script": ["mat", "scribble", "mat", ["length", 10], "mat"]}
    # a copied / pickled column is an equal column; an earlier expansion stays what it was
    yield dict(_sparse([0], 0), script=[["copy", "deepcopy", "copy"], "mat"])
    yield {"col": "rle", "values": [enc(v) for v in [1, 1, 2, 2, 2]], "fn": None, "script": [["copy", "pickle", "copy"], "mat", ["copy", "copy", "copy"], "mat"]}
    yield {"col": "dict", "values": [enc(v) for v in ["b", "a", "b"]], "fn": None, "script": ["mat", ["copy", "pickle", "copy"], "mat", "reread"]}
    yield {"col": "const", "value": enc(3), "length": 1, "fn": None, "script": ["mat", ["fn", "mul2", "inplace"], "reread"]}
    yield {"col": "const", "value": enc(3), "length": 2, "fn": None, "script": [["fn", "mul2", "rebind"], ["copy", "deepcopy", "copy"], "mat"]}
    # the shipped tests
    yield _sparse(["31", None, "31", None, None, "31", "30", "31", None], None)
    yield _sparse([1, None, 2, None, None, 3, 4, 5, None], None, "mul2")
    yield {"col": "rle", "values": [enc(v) for v in ["31", "30", "31", "31", "30", "31", "31", "31", "31"]], "fn": None}
    yield {"col": "rle", "values": [enc(v) for v in [1, 1, 2, 2, 3, 3]], "fn": "mul2"}
    yield {"col": "dict", "values": [enc(v) for v in ["31", "28", "31", "30", "31", "30", "31", "31", "30", "31", "30", "31"]], "fn": None}
    yield {"col": "dict", "values": [enc(v) for v in [1, 3, 2, 2, 3, 1]], "fn": "mul2"}
    yield {"col": "const", "value": enc(3), "length": 5, "fn": "mul2"}
    yield {"col": "const", "value": enc("The god of merchants, shepherds and messengers."), "length": 10, "fn": None}
    yield {"col": "func", "binding": "first", "cfg": [enc(10)], "length": 10}
    # NaN: each NaN its own run; unique collapses them; both expand to NaN everywhere
    yield {"col": "rle", "values": [enc(v) for v in [NAN, NAN, 1.0, 1.0]], "fn": None}
    yield {"col": "dict", "values": [enc(v) for v in [NAN, 1.0, NAN, 0.5]], "fn": None}
    yield _sparse([NAN, 1.5, NAN], NAN)
    yield _sparse([0.0, -0.0, 1.0], 0.0)
    # empty / single / all default
    for col in ("rle", "dict"):
        yield {"col": col, "values": [], "fn": None}
        yield {"col": col, "values": [enc(None)], "fn": None}
    yield _sparse([], None)
    yield _sparse([], "")
    yield _sparse(["", ""], "")
    yield _sparse([None, None], None)


_ALPHABETS_SPARSE = [(1, 2, 0), ("x", "yyy", ""), (1.5, 2.5, None), (True, False, None), (1.5, 2.5, 0), ("ab", "c", "zzzz"), (3, 7, 0.0)]
_ALPHABETS_RLE = [(1, 2, 0), ("x", "yyy", ""), (1.5, 2.5, 0.5), (1, 2, None), (True, False, True)]
_ALPHABETS_DICT = [(1, 2, 0), ("x", "yyy", ""), (1.5, 2.5, 0.5)]


# (alphabet a, b, default; f fixing the default; g; may g be applied in place)
_SCRIPT_ALPHABETS = [((1, 2, 0), "mul2", "add1", True), (("x", "yyy", ""), "upper", "catxy", False), ((1.5, 2.5, 0.0), "mul2", "add1", True)]


def _scripts(f, g, g_inplace):
    gi = "inplace" if g_inplace else "rebind"
    return [
        ["mat", ["fn", f, "inplace"], "mat", "scribble", "mat"],
        ["mat", ["fn", f, "rebind"], "mat", "scribble", "mat", ["fn", g, "rebind"], "mat"],
        ["mat", "scribble", "mat", ["fn", f, "inplace"], "mat", ["fn", g, gi], "mat"],
        [["fn", f, "inplace"], "mat", "mat"],
        # an earlier expansion read again after the stored values changed; the object copied and the COPY expanded
        ["mat", ["fn", f, "inplace"], "reread", ["copy", "deepcopy", "copy"], "mat", "reread"],
        [["fn", f, "rebind"], ["copy", "pickle", "copy"], "mat", ["copy", "copy", "original"], ["fn", g, gi], "mat", "reread"],
        [["copy", "copy", "copy"], "mat", ["fn", f, "inplace"], ["copy", "pickle", "original"], "mat", "scribble", "reread", "mat"],
    ]


# ---- scale: sizes around the capacities of 8- and 16-bit integers -----------------------------------
# Every encoding keeps integers next to the values: dictionary codes (< number of distinct values), sparse indices
# (< length) and the total length, run lengths and the number of runs, constant / function lengths.  The small-scope
# sequences keep all of them below 6; these cases put each of them just below, at and just above 2^7, 2^8, 2^15, 2^16
# (the capacities of signed / unsigned 8- and 16-bit integers).  2^31 / 2^32 are out of reach of a per-run check.
_B8 = (127, 128, 129, 255, 256, 257)
_B16 = (32767, 32768, 32769, 65535, 65536, 65537)


def _pool(kind, k, rng):
    """k distinct values of one kind (pairwise != and told apart by numpy.unique)"""
    if kind == "int":
        start, step = rng.choice([0, -50, 1000, -(2 ** 40), 2 ** 53]), rng.choice([1, 3, 7])
        return [start + step * i for i in range(k)]
    if kind == "float":
        start = rng.choice([0.5, -100.25, 1048576.0])
        return [start + 0.5 * i for i in range(k)]
    if kind == "text":
        pre = rng.choice(["", "v", "Kx"])
        return [pre + str(i) for i in range(k)]  # widths 1..5: mixed-width text, sorted by code point not by number
    raise KeyError(kind)


_SCALE_FN = {"int": ["mul2", "add1"], "float": ["mul2"], "text": ["upper", "catxy"]}


def _dict_scale(kind, k, rng, fn=None, script=None):
    """a dictionary column over exactly k distinct values: every code 0..k-1 occurs, some repeat, order scrambled"""
    pool = _pool(kind, k, rng)
    seq = pool + [rng.choice(pool) for _ in range(min(k // 4 + 3, 400))]
    rng.shuffle(seq)
    c = {"col": "dict", "values": [enc(v) for v in seq], "fn": fn}
    if script:
        c["script"] = script
    return c


_RUN_ALPHABETS = [(1, 2), ("x", "yyy"), (1.5, 2.5), (True, False), (None, 7), ("", "ab")]


def _rle_long_run(r, ab, rng, fn=None):
    """runs of length r-1 / r / r+1 and short ones"""
    a, b = ab
    seq = [a] * r + [b] * rng.choice([1, 2, 3]) + ([a] * (r + 1) + [b] * max(r - 1, 1) if r < 1000 else []) + [a]
    return {"col": "rle", "values": [enc(v) for v in seq], "fn": fn}


def _rle_many_runs(m, ab, rng, fn=None):
    """exactly m runs, most of length 1"""
    a, b = ab
    seq = []
    for i in range(m):
        seq.extend([a if i % 2 == 0 else b] * (1 if rng.random() < 0.9 else rng.choice([2, 3])))
    return {"col": "rle", "values": [enc(v) for v in seq], "fn": fn}


def _sparse_far(b, abd, rng, fn=None):
    """length b+2, all default except the ends and the positions around b (indices b-2 .. b+1)"""
    x, y, d = abd
    n = b + 2
    seq = [d] * n
    for j, i in enumerate(sorted({0, b - 2, b - 1, b, b + 1, rng.randrange(n)})):
        seq[i] = (x, y)[j % 2]
    return _sparse(seq, d, fn)


def _sparse_dense(n, kind, d, rng, fn=None):
    """n stored values (nothing equals the default), so indices 0..n-1 and n values are kept"""
    pool = [v for v in _pool(kind, n + 1, rng) if v != d][:n]
    rng.shuffle(pool)
    return _sparse(pool, d, fn)


def _scale_fixed(tier):
    import random
    rs = lambda *k: random.Random(repr(k))  # fixed permutations: this part does not depend on VERIF_SEED
    # dictionary: number of distinct values around 2^7, 2^8 (evaluated in Coq) ...
    ks = list(_B8) if tier == "quick" else sorted(set(range(120, 137)) | set(range(248, 265)) | {511, 512, 513})
    for k in ks:
        for kind in ("int", "text", "float"):
            if tier != "quick" or kind != "float" or k in (129, 257):  # quick: float only just above the two boundaries
                yield _dict_scale(kind, k, rs("d", k, kind))
    for k in (129, 257):
        yield _dict_scale("int", k, rs("df", k), fn="mul2")
        yield _dict_scale("text", k, rs("dt", k), fn="catxy")
        yield _dict_scale("float", k, rs("ds", k), script=["mat", ["fn", "mul2", "inplace"], "mat", "scribble", "mat"])
        yield _dict_scale("int", k, rs("ds2", k), script=[["fn", "add1", "rebind"], "mat", "mat"])
    # ... and around 2^15, 2^16 (oracle only: the list-based model needs n * k steps)
    for k in _B16:
        yield _dict_scale("int", k, rs("D", k))
    yield _dict_scale("text", 32769, rs("Dt"))
    yield _dict_scale("float", 65537, rs("Df"), fn="mul2")
    # run-length: one run of that length; that many runs
    for i, r in enumerate(_B8 + _B16):
        yield _rle_long_run(r, _RUN_ALPHABETS[i % len(_RUN_ALPHABETS)], rs("r", r))
    yield _rle_long_run(129, (1, 2), rs("rf", 129), fn="mul2")
    yield _rle_long_run(32769, ("x", "yyy"), rs("rf", 32769), fn="upper")
    for i, m in enumerate(_B8 + (32769, 65537)):
        yield _rle_many_runs(m, _RUN_ALPHABETS[(i + 1) % 3], rs("m", m))
    # sparse: indices and total length around the boundary; that many stored values
    for i, b in enumerate(_B8 + _B16):
        yield _sparse_far(b, _ALPHABETS_SPARSE[i % 4], rs("s", b))
    yield _sparse_far(129, (1, 2, 0), rs("sf", 129), fn="mul2")
    yield _sparse_far(65537, ("x", "yyy", ""), rs("sf", 65537), fn="upper")
    for n in (_B8 if tier != "quick" else (128, 129, 256, 257)):
        yield _sparse_dense(n, "int", 0, rs("sd", n))
    yield _sparse_dense(257, "text", "", rs("sdt"))
    yield _sparse_dense(32769, "int", 0, rs("sD"))
    yield _sparse_dense(65537, "int", None, rs("sDn"))
    # constant / function columns of that length
    vals = (3, "abc", 1.5, True, None, 2 ** 40)
    for i, n in enumerate(_B8 + _B16):
        if tier != "quick" or n < 1000 or i % 2 == 0:  # quick: the 16-bit sizes alternate between the two columns
            yield {"col": "const", "value": enc(vals[i % 6]), "length": n, "fn": None}
        if tier != "quick" or n < 1000 or i % 2 == 1:
            yield {"col": "func", "binding": "first", "cfg": [enc(vals[(i + 1) % 6])], "length": n}
    yield {"col": "const", "value": enc(3), "length": 129, "fn": "mul2"}
    yield {"col": "const", "value": enc("abc"), "length": 32769, "fn": "catxy"}


def _scale_random(rng):
    """one seeded case of the same family: sizes drawn from the neighbourhoods of the boundaries and from between them"""
    def size(top16=True):
        r = rng.random()
        if r < 0.45:
            return rng.choice(_B8) + rng.choice([-2, -1, 0, 0, 1, 2, 5])
        if r < 0.8 or not top16:
            return rng.randint(100, 700)
        if r < 0.9:
            return rng.choice(_B16) + rng.choice([-1, 0, 1, 3])
        return rng.randint(30000, 70000)
    r = rng.random()
    if r < 0.4:
        kind = rng.choice(["int", "text", "float"])
        k = size(top16=rng.random() < 0.15)
        fn = rng.choice(_SCALE_FN[kind]) if rng.random() < 0.35 else None
        if rng.random() < 0.2:
            f = rng.choice(_SCALE_FN[kind])
            how = "rebind" if f == "catxy" else rng.choice(["inplace", "rebind"])
            return _dict_scale(kind, k, rng, script=rng.choice([["mat", ["fn", f, how], "mat"], [["fn", f, how], "mat", "scribble", "mat"]]))
        return _dict_scale(kind, k, rng, fn=fn)
    if r < 0.6:
        ab = rng.choice(_RUN_ALPHABETS)
        fn = {int: "mul2", float: "mul2", str: "upper"}.get(type(ab[0])) if rng.random() < 0.3 and None not in ab else None
        if rng.random() < 0.6:
            return _rle_long_run(size(), ab, rng, fn)
        return _rle_many_runs(size(top16=rng.random() < 0.2), ab, rng, fn)
    if r < 0.85:
        if rng.random() < 0.6:
            abd = rng.choice(_ALPHABETS_SPARSE[:4])
            fn = {int: "mul2", str: "upper"}.get(type(abd[0])) if rng.random() < 0.3 and abd[2] is not None else None
            return _sparse_far(size(), abd, rng, fn)
        kind = rng.choice(["int", "text", "float"])
        d = rng.choice([None, {"int": 0, "text": "", "float": 0.5}[kind]])
        return _sparse_dense(min(size(top16=rng.random() < 0.1), rng.choice([300, 300, 70000])), kind, d, rng)
    v = rng.choice([3, "abc", 1.5, True, None, -(2 ** 40), "É"])
    if rng.random() < 0.5:
        return {"col": "const", "value": enc(v), "length": size(), "fn": None}
    return {"col": "func", "binding": rng.choice(["first", "last"]), "cfg": [enc(v)], "length": size()}


# ---- sessions and declared types -------------------------------------------------------------------------------
# values that compare (and hash) equal but are of different kinds: what a memo keyed on the arguments confuses
_EQ_GROUPS = [(1, 1.0, True), (0, 0.0, -0.0, False), (2 ** 53, 2.0 ** 53), (3, 3.0), (-7, -7.0)]


def _decl(i, extra=0):
    d = {"type": _DECL_TYPES[i % len(_DECL_TYPES)]}
    if _DECL_EXTRA[extra % len(_DECL_EXTRA)]:
        d["extra"] = _DECL_EXTRA[extra % len(_DECL_EXTRA)]
    return d


def _fcol(binding, cfg, length=None, decl=None):
    return ["new", {"kind": "func", "binding": binding, "cfg": [enc(v) for v in cfg], "length": length, "decl": decl}]


def _ccol(value, length=None, decl=None):
    return ["new", {"kind": "const", "value": enc(value), "length": length, "decl": decl}]


def _sessions_fixed(tier):
    sized = [{"type": ["name", "VARCHAR[20]"]}, {"type": ["name", "BLOB[4]"]}, None]
    k = 0
    for g in _EQ_GROUPS:
        for x, y in itertools.permutations(g, 2):
            if type(x) is type(y) and x == y and math.copysign(1, x) == math.copysign(1, y):
                continue
            k += 1
            # two column objects, one binding function, arguments equal but of another kind
            yield {"col": "session", "steps": [_fcol("first", [x], 2), _fcol("first", [y], 3, sized[k % 3]), ["mat", 0], ["mat", 1], ["mat", 0]]}
            # one column object, its configuration replaced between two expansions
            yield {"col": "session", "steps": [_fcol("first", [x], 2, sized[(k + 1) % 3]), ["mat", 0], ["cfg", 0, [enc(y)]], ["mat", 0], ["scribble", 0], ["mat", 0]]}
            yield {"col": "session", "steps": [_fcol("last", ["s", x], 1), ["mat", 0], _fcol("last", ["s", y]), ["mat", 1], ["length", 1, 2], ["mat", 1], ["mat", 0]]}
    # a binding with state: every expansion takes the function's value at that time
    for n in (0, 1, 2):
        yield {"col": "session", "steps": [_fcol("counter", [], 2), _fcol("counter", [], n, sized[n]), ["mat", 0], ["mat", 0], ["mat", 1],
                                           ["length", 0, 0], ["mat", 0], ["scribble", 1], ["mat", 1], _fcol("first", [0], 2), ["mat", 2], ["mat", 1]]}
    # every way of declaring the type x length given / left at its default, constant and function column side by side
    for i in range(len(_DECL_TYPES)):
        for j, n in enumerate((None, 0, 1, 3) if tier == "quick" else (None, 0, 1, 2, 3, 7, 21)):
            v = ("abc", 3, 1.5, True, None)[(i + j) % 5]
            yield {"col": "session", "steps": [_ccol(v, n, _decl(i, j)), _fcol("first", [v], n, _decl(i, i + j)), ["mat", 0], ["mat", 1],
                                               ["length", 0, (n or 0) + 1], ["mat", 0], ["mat", 1]]}


def _random_session(rng):
    g = rng.choice(_EQ_GROUPS)
    pool = list(g) + [rng.choice(["a", "abc", "", None, 1.5, NAN, 2 ** 40])]
    steps, ncols = [], 0
    for _ in range(rng.randint(4, 11)):
        r = rng.random()
        if ncols == 0 or (r < 0.25 and ncols < 4):
            decl = _decl(rng.randrange(len(_DECL_TYPES)), rng.randrange(len(_DECL_EXTRA))) if rng.random() < 0.6 else None
            n = rng.choice([None, 0, 1, 2, 3, 5])
            if rng.random() < 0.25:
                steps.append(_ccol(rng.choice(pool), n, decl))
            else:
                b = rng.choice(["first", "first", "first", "last", "null", "counter"])
                cfg = [] if b == "counter" else [rng.choice(pool) for _ in range(rng.choice([1, 1, 2]))]
                steps.append(_fcol(b, cfg, n, decl))
            ncols += 1
        else:
            i = rng.randrange(ncols)
            c = [st for st in steps if st[0] == "new"][i][1]
            if r < 0.65:
                steps.append(["mat", i])
            elif r < 0.8 and c["kind"] == "func" and c["binding"] != "counter":
                steps.append(["cfg", i, [enc(rng.choice(pool)) for _ in range(len(c["cfg"]) or 1)]])
            elif r < 0.9:
                steps.append(["length", i, rng.choice([0, 1, 2, 4])])
            else:
                steps.append(["scribble", i])
    steps += [["mat", i] for i in range(ncols)]
    return {"col": "session", "steps": steps}


def _declared_fixed(tier):
    """single-step cases of all five columns under every way of declaring the type"""
    for i in range(len(_DECL_TYPES)):
        for j, n in enumerate((0, 1, 3)):
            v = (3, "abc", 1.5, True, None)[(i + j) % 5]
            yield {"col": "const", "value": enc(v), "length": n, "fn": None, "decl": _decl(i, j)}
            yield {"col": "func", "binding": "first", "cfg": [enc(v)], "length": n, "decl": _decl(i, j + 1)}
        a = _ALPHABETS_DICT[i % 3]
        seq = [a[t] for t in (0, 1, 2, 2, 0, 0, 1)]
        yield {"col": "rle", "values": [enc(v) for v in seq], "fn": None, "decl": _decl(i, i)}
        yield {"col": "dict", "values": [enc(v) for v in seq], "fn": None, "decl": _decl(i, i + 1)}
        yield dict(_sparse(seq, a[2]), decl=_decl(i, i + 2))
        for cont in ("tuple", "ndarray"):  # the same sequences handed over as a tuple / as an ndarray
            yield {"col": "rle", "values": [enc(v) for v in seq], "fn": None, "container": cont}
            yield {"col": "dict", "values": [enc(v) for v in seq], "fn": None, "container": cont, "decl": _decl(i, i)}
            yield dict(_sparse(seq, a[2]), container=cont)
            yield dict(_sparse(seq, a[0]), container=cont, script=["mat", "scribble", "mat"])


def _with_random_decl(rng, case, p):
    r = rng.random()
    if r < p:
        case = dict(case, decl=_decl(rng.randrange(len(_DECL_TYPES)), rng.randrange(len(_DECL_EXTRA))))
    elif r < 2 * p:
        # a declared schema default, mostly one that occurs in the data
        pool = [dec(v) for v in case.get("values", []) + case.get("cfg", []) + ([case["value"]] if "value" in case else [])]
        pool = [v for v in pool if v is not None]
        v = rng.choice(pool) if pool and rng.random() < 0.8 else rng.choice([0, 1, "", "a", 1.5, 0.0, True, False])
        d = _declared_default(v, rng.randrange(4), rng.randrange(len(_DECL_EXTRA)))
        if d is not None:
            case = dict(case, decl=d)
    if case["col"] == "sparse" and case["default"] == ["n"] and rng.random() < 0.5:
        case = dict(case, default_omitted=True)
    if "values" in case and rng.random() < 0.3:
        case = dict(case, container="ndarray" if _one_kind(case["values"]) and rng.random() < 0.6 else "tuple")
    return case


# sparse around null (given as None or left out) while the column DECLARES a schema default that occurs in the data
_ALPHABETS_DECLARED = [(1, 0, None), ("a", "", None), (1.5, 2.5, None), (True, False, None), ("abc", "x", None), (0, 2 ** 53 + 1, None)]


def _declared_default_fixed(tier):
    top = 3 if tier == "quick" else 4
    n = 0
    for k in range(0, top + 1):
        for seq in itertools.product(range(3), repeat=k):
            for a in _ALPHABETS_DECLARED:
                for which in (0, 1):
                    for omitted in (False, True):
                        n += 1
                        c = dict(_sparse([a[i] for i in seq], None), decl=_declared_default(a[which], n, n // 4))
                        if omitted:
                            c["default_omitted"] = True
                        yield c
    # ... and the other columns / a non-null sparse default under a declared default
    for i, a in enumerate(_ALPHABETS_DECLARED):
        seq = [a[t] for t in (0, 1, 1, 0, 0, 1)]
        for which in (0, 1):
            d = _declared_default(a[which], i, i + which)
            yield dict(_sparse(seq, a[1 - which]), decl=d)
            yield dict(_sparse(seq, a[which]), decl=d)
            yield {"col": "rle", "values": [enc(v) for v in seq], "fn": None, "decl": d}
            yield {"col": "dict", "values": [enc(v) for v in seq], "fn": None, "decl": d}
            yield {"col": "const", "value": enc(a[which]), "length": 3, "fn": None, "decl": d}
            yield {"col": "func", "binding": "first", "cfg": [enc(a[which])], "length": 2, "decl": d}
            yield dict(_sparse(seq + [None], None), decl=d, script=["mat", "scribble", "mat"])
            yield dict(_sparse(seq + [None], None), decl=d, default_omitted=True, script=["mat", "scribble", "mat"])


# ---- round 7: object arrays holding several kinds --------------------------------------------------------------
# A list with a null in it becomes an object array: nothing is unified, so an int next to a float, a bool next to an
# int, a number next to text must each come back as the object it was (2**53+1 exactly, True as True, 1 not '1').
# Pairs of two different kinds (some equal by ==, some beyond 2**53, some text), always together with null.
_ALPHABETS_OBJECT = [(1, 2.5), (2 ** 53 + 1, 0.5), (1, 1.0), (True, 2), (True, 1), (False, 0.0), (-7, -7.5),
                     (1, "a"), ("1", 1), (1.5, "abc"), (True, "x"), (0, "")]


def _object_mixed_fixed(tier):
    top = 4 if tier == "quick" else 5
    n = 0
    for k in range(1, top + 1):
        for seq in itertools.product(range(3), repeat=k):
            if 2 not in seq:
                continue  # no null: not an object array (NumPy unifies the kinds / stringifies) - the random "mixed" data
            for ab in _ALPHABETS_OBJECT:
                a = (ab[0], ab[1], None)
                vals = [a[i] for i in seq]
                n += 1
                c = _sparse(vals, None)
                if n % 3 == 0:
                    c["default_omitted"] = True
                yield c
                if k < top:
                    yield {"col": "rle", "values": [enc(v) for v in vals], "fn": None}
                    yield _sparse(vals, ab[n % 2])            # one of the two kinds is the default: the nulls are stored
                    yield dict(_sparse(vals, None), script=["mat", ["copy", ("pickle", "deepcopy", "copy")[n % 3], "copy"], "mat", "scribble", "reread", "mat"])
                    numeric = not any(isinstance(x, str) for x in ab) and all(abs(x) < 2 ** 53 for x in ab)
                    if numeric:
                        # element-wise function on the stored values of an object array = Python's own * and + per element
                        yield _sparse(vals, None, ("mul2", "add1")[n % 2])
                        yield dict(_sparse(vals, None), script=["mat", ["fn", "mul2", ("inplace", "rebind")[n % 2]], "mat", "reread", ["fn", "add1", "rebind"], "mat"])


def exhaustive(tier):
    top = 4 if tier == "quick" else 5

    def it():
        for k in range(0, top + 1):
            for seq in itertools.product(range(3), repeat=k):
                for a in _ALPHABETS_SPARSE:
                    yield _sparse([a[i] for i in seq], a[2])
                for a in _ALPHABETS_RLE:
                    yield {"col": "rle", "values": [enc(a[i]) for i in seq], "fn": None}
                for a in _ALPHABETS_DICT:
                    yield {"col": "dict", "values": [enc(a[i]) for i in seq], "fn": None}
        for k in range(0, top):
            for seq in itertools.product(range(3), repeat=k):
                for a, f, g, g_inplace in _SCRIPT_ALPHABETS:
                    for script in _scripts(f, g, g_inplace):
                        vals = [enc(a[i]) for i in seq]
                        yield {"col": "rle", "values": vals, "fn": None, "script": script}
                        yield {"col": "dict", "values": vals, "fn": None, "script": script}
                        yield dict(_sparse([a[i] for i in seq], a[2]), script=script)
        for n in range(0, top):
            for v, f, g, g_inplace in ((3, "mul2", "add1", True), ("abc", "upper", "catxy", False), (1.5, "mul2", "add1", True), (True, "not", "not", True)):
                for script in _scripts(f, g, g_inplace):
                    yield {"col": "const", "value": enc(v), "length": n, "fn": None, "script": script + [["length", n + 1], "mat"]}
            for v in (3, "abc", None, 1.5, True):
                yield {"col": "func", "binding": "first", "cfg": [enc(v)], "length": n,
                       "script": ["mat", "scribble", "mat", ["length", n + 2], "mat", "scribble", "mat"]}
                yield {"col": "func", "binding": "last", "cfg": [enc(0), enc(v)], "length": n,
                       "script": ["mat", ["copy", "deepcopy", "copy"], "mat", ["length", n + 1], ["copy", "copy", "copy"], "mat", "reread"]}
        for n in range(0, top + 1):
            for v in (3, "abc", None, 1.5, True):
                yield {"col": "const", "value": enc(v), "length": n, "fn": None}
                yield {"col": "func", "binding": "first", "cfg": [enc(v)], "length": n}
        for c in _declared_fixed(tier):
            yield c
        for c in _declared_default_fixed(tier):
            yield c
        for c in _sessions_fixed(tier):
            yield c
        for c in _scale_fixed(tier):
            yield c
        for c in _object_mixed_fixed(tier):
            yield c

    return it(), (f"object arrays of two kinds: all sequences of length <= {top} holding a null over {{a, b, null}} for {len(_ALPHABETS_OBJECT)} pairs a, b of "
                  f"different kinds (int/float, int beyond 2^53/float, bool/int, equal-but-different 1/1.0 True/1 False/0.0, number/text) as sparse columns around null "
                  f"(length < {top}: also run-length, sparse around a or b, copy / reread scripts, *2 and +1 on the stored values); "
                  f"all sequences of length <= {top} over {{a, b, default}} for {len(_ALPHABETS_SPARSE)} sparse, "
                  f"{len(_ALPHABETS_RLE)} run-length and {len(_ALPHABETS_DICT)} dictionary alphabets; constant/function lengths 0..{top}; "
                  f"multi-step: all sequences of length < {top} over 3 alphabets x 4 scripts (expand / function in place and by rebinding / "
                  f"overwrite an earlier expansion / expand) on one run-length, dictionary and sparse column object, constant and function columns with a length change; "
                  f"boundary sweep: number of dictionary entries, run length, number of runs, sparse index / total length / number of stored values, "
                  f"constant and function length each at 2^7, 2^8, 2^15, 2^16 and one below / above (dictionary entries: "
                  + ("those six 8-bit sizes" if tier == "quick" else "every size 120..136, 248..264, 511..513") + " for int, text and float)")


_INTS = [0, 1, -1, 2, 3, 7, 100, -100, 2 ** 31, -(2 ** 31) - 1, 2 ** 53 + 1, -(2 ** 53) - 1, 2 ** 62, 2 ** 63 - 1, -(2 ** 63)]
_SMALL_INTS = [0, 1, -1, 2, 3, 7, 100, -100, 2 ** 31, 2 ** 53, -(2 ** 53)]
_FLOATS = [0.0, -0.0, 1.5, -2.25, 0.1, 3.0, 1.0, 1e300, -1e300, 5e-324, 2.0 ** 53, 2.0 ** 63, -(2.0 ** 63), 1e30, NAN, INF, -INF, 2.5, 0.5]
_TEXTS = ["", "a", "b", "ab", "abc", "a b", " ", "a ", "É", "日本", "\U0001F600", "x" * 12, "Az09", "zz", "abcdef"]
_BOOLS = [True, False]
_DEFAULTS = {
    "int": [None, 0, 0, 1, 0.0, 1.0, -0.0, 3.0, 0.5, True, False, "", 2 ** 63, 2 ** 64, 2 ** 70, -(2 ** 63), -(2 ** 63) - 1, NAN, INF, -INF,
            1e30, 2.0 ** 53, 2.0 ** 63, -(2.0 ** 63), 2.0 ** 62],
    "float": [None, 0, 0.0, -0.0, 1, 1.5, 3, True, "", 2 ** 53 + 1, 2 ** 63, 2 ** 70, 2 ** 1024, -(2 ** 1024), NAN, INF, 10 ** 30],
    "text": [None, "", "", "a", "zzzzzzzz", "É", 0, 1.5, False],
    "bool": [None, False, True, 0, 1, 2, 0.0, 1.0, 0.5, NAN, "", 2 ** 31, 2 ** 63, 2 ** 70, -(2 ** 63) - 1],
}


def _sequence(rng, pool, n):
    """n draws from a small sub-pool, biased towards runs."""
    sub = [rng.choice(pool) for _ in range(rng.choice([1, 2, 2, 3, 3, 4, 6]))]
    out = []
    for _ in range(n):
        if out and rng.random() < 0.45:
            out.append(out[-1])
        else:
            out.append(rng.choice(sub))
    return out


def _data(rng, allow_null=True, allow_mixed=True, allow_text_mix=False):
    """(kind, python list)"""
    n = rng.choice([0, 1, 2, 3, 3, 4, 5, 6, 8, 12, 12, 20, 40])
    r = rng.random()
    if r < 0.28:
        kind, pool = "int", _INTS
    elif r < 0.52:
        kind, pool = "float", _FLOATS
    elif r < 0.78:
        kind, pool = "text", _TEXTS
    elif r < 0.90:
        kind, pool = "bool", _BOOLS
    elif allow_mixed:
        kind, pool = "mixed", _SMALL_INTS + [1.5, 0.5, 2.0, 1.0, 0.0, True, False]
    else:
        kind, pool = "int", _INTS
    text_mix = False
    if kind == "mixed" and allow_text_mix and allow_null and n and rng.random() < 0.4:
        # numbers next to text: only as an object array (with a null; without one NumPy stringifies - not modelled)
        kind, text_mix = "mixedtext", True
        pool = pool + ["a", "1", "", "1.5", "True", "abc", "É"]
    seq = _sequence(rng, pool, n)
    nulls = False
    if allow_null and (text_mix or rng.random() < (0.6 if kind == "mixed" else 0.3)) and n:
        nulls = True
        seq = [None if rng.random() < 0.35 else v for v in seq]
        if not any(v is None for v in seq):
            seq[rng.randrange(n)] = None
    return kind, seq, nulls


def _fn_for(rng, kind, seq, nulls_stored):
    """a function NumPy can apply to the stored values of this data, or None."""
    if nulls_stored or rng.random() < 0.6:
        return None
    if not seq and kind in ("text", "bool"):
        return None  # numpy.array([]) is a float array
    nn = [v for v in seq if v is not None]
    if kind == "int" or kind == "bool":
        if all(abs(int(v)) < 2 ** 61 for v in nn):
            if kind == "bool" and not any(v is None for v in seq):
                return rng.choice(["mul2", "add1", "not"])
            return rng.choice(["mul2", "add1"])
        return None
    if kind == "float":
        if all(v != v or abs(v) == INF or abs(v) < 8e307 for v in nn):
            return "mul2"
        return None
    if kind == "text":
        if any(v is None for v in seq):
            return None  # an object array: numpy.char does not apply
        return rng.choice(["upper", "catxy"])
    return None


def _random_case(rng, weights=(0.4, 0.6, 0.8, 0.9)):
    r = rng.random()
    if r < weights[0]:
        kind, seq, nulls = _data(rng, allow_text_mix=True)
        dk = kind if kind not in ("mixed", "mixedtext") else rng.choice(["int", "float"] + (["text"] if kind == "mixedtext" else []))
        rr = rng.random()
        if rr < 0.25 and seq:
            d = rng.choice(seq)
        elif rr < 0.4:
            d = None
        else:
            d = rng.choice(_DEFAULTS[dk])
        stored_null = nulls and d is not None
        fn = _fn_for(rng, kind, seq, stored_null)
        if fn in ("upper", "catxy", "not") and nulls:
            fn = None
        return _sparse(seq, d, fn)
    if r < weights[1]:
        kind, seq, nulls = _data(rng, allow_text_mix=True)
        return {"col": "rle", "values": [enc(v) for v in seq], "fn": _fn_for(rng, kind, seq, nulls)}
    if r < weights[2]:
        kind, seq, nulls = _data(rng, allow_null=rng.random() < 0.08)
        if kind == "float":
            seq = [0.0 if (v == 0) else v for v in seq]  # unique picks either zero of -0.0/0.0: not generated
        return {"col": "dict", "values": [enc(v) for v in seq], "fn": _fn_for(rng, kind, seq, nulls)}
    pool = rng.choice([_INTS, _FLOATS, _TEXTS, _BOOLS, [None]])
    v = rng.choice(pool)
    n = rng.choice([0, 1, 2, 3, 5, 9]) if rng.random() < 0.93 else -rng.randint(1, 3)
    if r < weights[3]:
        kind = {int: "int", float: "float", str: "text", bool: "bool", type(None): "null"}[type(v)]
        fn = None if v is None else _fn_for(rng, kind, [v], False)
        return {"col": "const", "value": enc(v), "length": n, "fn": fn}
    cfg = [enc(rng.choice(rng.choice([_INTS, _FLOATS, _TEXTS, _BOOLS, [None]]))) for _ in range(rng.randint(1, 3))]
    return {"col": "func", "binding": rng.choice(["first", "last", "null"]), "cfg": cfg, "length": n}


def _fns_available(kind, seq, nulls_stored):
    """[(fn, may be applied in place)]: functions NumPy can apply, twice over, to the stored values of this data"""
    if nulls_stored:
        return []
    nn = [v for v in seq if v is not None]
    has_null = len(nn) != len(seq)
    if kind == "int":
        return [("mul2", True), ("add1", True)] if all(abs(v) < 2 ** 59 for v in nn) else []
    if kind == "float":
        return [("mul2", True), ("add1", True)] if all(v != v or abs(v) == INF or abs(v) < 2e307 for v in nn) else []
    if kind == "bool":
        return [("not", True)] if seq and not has_null else []
    if kind == "text":
        return [("upper", True), ("catxy", False)] if seq and not has_null else []
    return []


def _random_script(rng, fns, extra=(), pickle_ok=True):
    steps = []
    nfn = 0
    for _ in range(rng.randint(3, 7)):
        r = rng.random()
        if rng.random() < 0.2:
            steps.append(rng.choice(["reread", ["copy", rng.choice(["copy", "deepcopy"] + (["pickle"] if pickle_ok else [])), rng.choice(["copy", "copy", "original"])]]))
        elif r < 0.3 and fns and nfn < 2:
            f, inplace_ok = rng.choice(fns)
            steps.append(["fn", f, rng.choice(["inplace", "rebind"]) if inplace_ok else "rebind"])
            nfn += 1
        elif r < 0.5:
            steps.append("scribble")
        elif r < 0.58 and extra:
            steps.append(list(rng.choice(extra)))
        else:
            steps.append("mat")
    if steps.count("mat") < 2:
        steps = ["mat"] + steps + ["mat"]
    if rng.random() < 0.5:
        steps.append("reread")
    return steps


def _random_script_case(rng):
    r = rng.random()
    if r < 0.75:
        kind, seq, nulls = _data(rng, allow_mixed=False)
        col = rng.choice(["rle", "dict", "sparse", "sparse"])
        if col == "dict":
            seq = [v for v in seq if v is not None]
            nulls = False
            if kind == "float":
                seq = [0.0 if (v == 0) else v for v in seq]
        if col == "sparse":
            rr = rng.random()
            d = None if rr < 0.4 else (rng.choice(seq) if rr < 0.6 and seq else rng.choice({"int": [0, 1, 0.0], "float": [0.0, 0, 1.5], "text": ["", "a", "zzzzzzzz"], "bool": [False, True, 0]}[kind]))
            fns = _fns_available(kind, seq, nulls and d is not None)
            if nulls and kind in ("bool", "text"):
                fns = []
            return dict(_sparse(seq, d), script=_random_script(rng, fns))
        return {"col": col, "values": [enc(v) for v in seq], "fn": None, "script": _random_script(rng, _fns_available(kind, seq, nulls))}
    pool = rng.choice([_INTS, _FLOATS, _TEXTS, _BOOLS, [None]])
    v = rng.choice(pool)
    n = rng.choice([0, 1, 2, 3, 5])
    lengths = [["length", k] for k in (0, 1, 4)]
    if r < 0.9:
        kind = {int: "int", float: "float", str: "text", bool: "bool", type(None): "null"}[type(v)]
        fns = [] if v is None else _fns_available(kind, [v], False)
        return {"col": "const", "value": enc(v), "length": n, "fn": None, "script": _random_script(rng, fns, lengths)}
    cfg = [enc(rng.choice(rng.choice([_INTS, _FLOATS, _TEXTS, _BOOLS, [None]]))) for _ in range(rng.randint(1, 3))]
    return {"col": "func", "binding": rng.choice(["first", "last", "null"]), "cfg": cfg, "length": n, "script": _random_script(rng, [], lengths, pickle_ok=False)}


def generate(rng, tier):
    count = 1500 if tier == "quick" else 30000
    for _ in range(count):
        yield _with_random_decl(rng, _random_case(rng), 0.3)
    for _ in range(count // 3):
        yield _with_random_decl(rng, _random_script_case(rng), 0.25)
    for _ in range(count // 5):
        yield _random_session(rng)
    for _ in range(24 if tier == "quick" else 300):
        yield _scale_random(rng)


def search(rng):
    while True:
        if rng.random() < 0.08:
            yield _scale_random(rng)
        elif rng.random() < 0.25:
            yield _random_session(rng)
        elif rng.random() < 0.4:
            yield _random_script_case(rng)
        else:
            yield _with_random_decl(rng, _random_case(rng, weights=(0.7, 0.8, 0.9, 0.95)), 0.3)


def shrink(case):
    """candidates of one pass; the framework restarts after each improvement and checks its 20 s budget only then,
    so one pass over a long sequence is bounded here (observing a 65 000-element column costs ~0.3 s)"""
    import time
    t_end = time.time() + 8
    for k, cand in enumerate(_shrink(case)):
        if k >= 40 and time.time() > t_end:
            return
        yield cand


def _shrink_session(case):
    steps = case["steps"]
    for i, st in enumerate(steps):
        if st[0] != "new":
            yield dict(case, steps=steps[:i] + steps[i + 1:])
    news = [i for i, st in enumerate(steps) if st[0] == "new"]
    for j, pos in enumerate(news):  # drop column j with everything that uses it, renumber the later ones
        out = []
        for i, st in enumerate(steps):
            if i == pos or (st[0] != "new" and st[1] == j):
                continue
            out.append(st if st[0] == "new" or st[1] < j else [st[0], st[1] - 1] + list(st[2:]))
        if out:
            yield dict(case, steps=out)
    for i, st in enumerate(steps):
        if st[0] == "new" and (st[1].get("decl") or (st[1].get("length") or 0) > 1):
            c = dict(st[1], decl=None) if st[1].get("decl") else dict(st[1], length=st[1]["length"] - 1)
            yield dict(case, steps=steps[:i] + [["new", c]] + steps[i + 1:])


def _shrink(case):
    if case["col"] == "session":
        yield from _shrink_session(case)
        return
    if case.get("decl"):
        yield dict(case, decl=None)
        if case["decl"].get("extra"):
            yield dict(case, decl={k: v for k, v in case["decl"].items() if k != "extra"})
    if case.get("default_omitted"):
        yield {k: v for k, v in case.items() if k != "default_omitted"}
    if case.get("container"):
        yield {k: v for k, v in case.items() if k != "container"}
    if "script" in case:
        sc = case["script"]
        for i in range(len(sc)):
            if sc[:i] + sc[i + 1:]:
                yield dict(case, script=sc[:i] + sc[i + 1:])
    if "values" in case:
        vs = case["values"]
        size = len(vs) // 2
        while size >= 2:  # long sequences: drop halves, quarters, ... before single elements
            for i in range(0, len(vs), size):
                yield dict(case, values=vs[:i] + vs[i + size:])
            size //= 2
        for i in range(len(vs)):
            yield dict(case, values=vs[:i] + vs[i + 1:])
        if case.get("fn"):
            yield dict(case, fn=None)
    elif case["length"] > 0:
        if case["length"] > 3:
            yield dict(case, length=case["length"] // 2)
            yield dict(case, length=case["length"] * 9 // 10)
        yield dict(case, length=case["length"] - 1)
