"""C19 - Memoised functions return only results computed for the same arguments.

Cases (JSON):
  {"k": "sic", "valid": v|None, "h": [ev, ...]}                       sequential, single_item_cache
  {"k": "lru", "max": m, "valid": v|None, "h": [ev, ...]}             sequential, lru_cache_with_expiry
  {"k": "conc", "w": "sic"|"lru", "max": m, "valid": v|None, "pre": [ev, ...],
   "thr": [argspec, ...], "sched": [tid | ["t", d], ...]}             threads under the line scheduler
  {"k": "df", "attr": "column_names"|"columncount", "pre": frame, "thr": [frame, ...], "sched": [...]}
  {"k": "sicx", "valid": v|None, "h": [xev, ...]}                     sequential, single_item_cache, acting wrapped function
  {"k": "lrx", "max": m, "valid": v|None, "h": [xev, ...]}            sequential, lru_cache_with_expiry, acting wrapped function
  {"k": "multi", "w": "sic"|"lru", "max": m, "valid": v|None, "mk": [maker, ...], "h": [["c", j, argspec] | ["t", d], ...]}
      several decorated functions, function j made by mk[j]: "bare" (deco(f)), "direct" (deco(f, **options)) or
      ["factory", g] (configured decorator object number g = deco(**options), made once per case, applied to every function naming g)
  {"k": "dfs", "ops": [op, ...]}   DataFrame session over objects: ["s", "list"|"tuple"|"rel", [value idx, ...]] new schema object,
      ["f", s] frame built ON schema object s, ["app", s, v] / ["set0", s, v] / ["pop", s] change schema object s in place,
      ["g", f, "column_names"|"columncount"] lookup on frame f (indices into DFVALS; objects are numbered in order of creation)
  any sequential/conc case may carry "via": "direct" (default) | "factory": how its single wrapper is made
xev = ["c", argspec, [xev, ...], raises] | ["t", d]: IF the call invokes the wrapped function, that invocation first performs the
  nested events (clock advances, further calls of the same wrapper whose exceptions it catches) and then raises (raises = true)
  or returns its value; a call served from the cache performs nothing.
ev = ["c", argspec] | ["t", d];  argspec = {"p": [value index, ...], "kw": [[name index, value index], ...]}
(indices into VALUES / NAMES below).  The clock is a fake `time` object patched into orso.tools
for the duration of one case; it starts at T0 and moves only on ["t", d].

A schedule entry `tid` lets thread tid execute ONE source line of the wrapper that touches shared
state (reads the clock, reads or writes the cache object, calls the wrapped function) together with
the thread-local lines that follow it; which lines those are is derived from the AST of the live
source (analyse()), never from fixed line numbers.  Entries naming a finished thread are skipped;
when the schedule is used up the remaining threads run to completion in index order.  The schedule
actually executed (with the kind of every step) is part of the observation.

The wrapped function of the harness is injective: it returns ("result-for", args, kwargs, n) with n
the number of invocations made before, and records the clock value at which it ran."""
import ast
import copy
import inspect
import itertools
import math
import sys
import textwrap
import threading

from vlib import coqlit as L

ID = "C19"
READY = True
TECHNIQUE = ("Coq proof by induction over call histories (sequential refinement of both caches) and by an inductive invariant over "
             "all line-level interleavings (concurrent), + model/implementation correspondence evaluated in Coq, with the real wrapper "
             "driven one source line at a time by a deterministic sys.settrace scheduler")
LEVEL_TEXT = ("Machine-checked Coq theorems over executable models of single_item_cache and lru_cache_with_expiry: for every history of calls "
              "and clock advances the single-item cache equals the history-only specification 'entry of the last call, if unexpired' and the "
              "LRU cache returns only values invoked for an equal key within the validity period, invokes f exactly on misses, never exceeds "
              "max_size, keeps distinct keys ordered by last use (so the evicted key is the least recently used) and always hits on an unexpired "
              "key among the max_size most recently used; for every schedule of any number of threads at source-line granularity the current "
              "one-entry single_item_cache and the current lru_cache_with_expiry return only values f produced for the caller's own arguments, "
              "within the validity period of the caller's clock reading when served from the cache (the four-slot wrapper of F-C19-1 and the "
              "LRU hit path of F-C19-2 are kept as refuted models). The models are tied to orso/tools.py by running real wrappers on exhaustive small-scope and random histories with a "
              "fake clock - including histories in which the wrapped function itself acts while the wrapper is inside it (raises, calls the wrapper "
              "again to any depth, lets time pass; forest models with proved size bound, soundness, hit-iff-held and 'a failing call forgets nothing') - "
              "and under a deterministic line-level scheduler on all two-thread interleavings of the shared-access lines, and "
              "evaluating the models on the same histories/schedules inside Coq; a literal property oracle supplies replayable failing "
              "histories and schedules. DataFrame.column_names/columncount are exercised across frames under the same scheduler. For the LRU "
              "wrapper under interleaving the model is also proved to be back within max_size once every caller has returned, and the oracle checks "
              "that on the real cache after every scheduled run.")
LEVEL_NOTE = ("Trusted: Coq kernel + vm_compute; the granularity assumption (one atomic step per source line under the GIL; bytecode-level "
              "interleavings inside a line are not modelled); the AST classification of wrapper lines into clock / cache read / call / cache "
              "write (its result is regenerated into Gen/C19_Shape.v and checked against the model's step list); CPython tuple/dict/frozenset "
              "equality behind the abstract key function. The LRU interleaving theorem (returned values were produced for the "
              "caller's own key and are within the validity period, exceptions allowed) is proved for a model of OrderedDict iteration/KeyError "
              "behaviour which is exercised on the implementation only through the oracle on scheduled runs, not replayed in Coq. The wrappers "
              "before the fixes of F-C19-1 and F-C19-2 are kept as refuted models. Forests: the order of the LRU entries (which key is evicted) in "
              "re-entrant histories is judged by the oracle and by the correspondence with the model, not by a history-only theorem (the flat-history "
              "theorems _evicts_least_recently_used / _recently_used_unexpired_key_hits carry over to forests without bodies only; the order itself is "
              "C19_lrx_ordered_by_last_use, proved for all forests since the fix of F-C19-3). LRU callers under the scheduler may raise "
              "RuntimeError/KeyError only before the wrapped function was invoked, or at popitem on an emptied cache (oracle rule; the step model "
              "has exactly these exceptions). No axioms (Print Assumptions: closed).")
DESIGN_REF = "DESIGN.md section 8, C19"
COQ_IMPORTS = "From Orso Require Import Model.C19."
COQ_CHECKS = {"sic": "c19_sic_check", "lru": "c19_lru_check", "conc": "c19_conc_check", "sicx": "c19_sicx_check", "lrx": "c19_lrx_check",
              "msic": "c19_msic_check", "mlru": "c19_mlru_check", "dfs": "c19_dfs_check"}
COQ_SHOW = {"sic": "c19_sic_show", "lru": "c19_lru_show", "conc": "c19_conc_show", "sicx": "c19_sicx_show", "lrx": "c19_lrx_show",
            "msic": "c19_msic_show", "mlru": "c19_mlru_show", "dfs": "c19_dfs_show"}
RULE = ("sequential: histories of calls over an argument alphabet (positional, keyword, mixed, reordered keywords, ==-equal values of "
        "different type, unhashable values for the single-item cache) interleaved with clock advances below/at/above the validity period, "
        "max_size 1..4, exhaustive to a stated depth then random; concurrent: the real wrapper under the line scheduler, all interleavings "
        "of the shared-access lines of two calls for a list of initial cache states and argument pairs, random 2/3-thread schedules with "
        "clock advances, LRU wrapper (also: full cache, callers missing on further keys) and DataFrame.column_names/columncount across frames; "
        "forests (sicx/lrx): calls whose wrapped function raises and/or first performs nested calls of the same wrapper and clock advances, "
        "exhaustive small scope then random to nesting depth 3, non-trivial when a wrapped function raised or re-entered; "
        "otherwise a case is non-trivial when at least one call was "
        "served from the cache or (concurrent) two threads were interleaved; distinct by canonical JSON of case + executed schedule")
TRUSTED = [
    "C19 models (coq/Model/C19.v): single_item_cache and lru_cache_with_expiry as state machines over (cache, clock, invocation counter); "
    "argument equality is equality of an abstract key (instance: positional values + keyword pairs sorted by name, values as ==-classes)",
    "granularity: one atomic step per source line (GIL); interleavings inside one line are not modelled",
    "tools/props/C19.py analyse(): AST classification of the wrapper's lines (clock / cache read / call / cache write), fails closed on an "
    "unrecognised access to the cache object; the scheduler parks threads on exactly those lines",
    "modelled, not verified: OrderedDict iteration raising RuntimeError on concurrent mutation and KeyError on missing keys (LRU interleaving model)",
]
ASSUMPTIONS = [
    "interleaving theorems: inside a concurrent caller the wrapped function does not call the wrapper re-entrantly, does not raise and does not "
    "move the clock (the sequential forest models sicx/lrx cover all three: raising, re-entrant calls, clock advances inside the wrapped function)",
    "forests: an exception raised by a nested call is caught by the wrapped function that made it (a wrapped function that lets it propagate is "
    "the same forest with raises=true on the outer call)",
    "argument equality is an equivalence decided by key equality (hypothesis keqb_spec of the theorems); NaN-like values are outside the alphabet",
    "the clock does not go backwards (ticks are naturals); the LRU 'most recently used' theorems use it, the single-item ones do not",
]
KNOWN_WITNESSES = {}

T0 = 1000
TIMEOUT = 20.0

# ---------------------------------------------------------------- argument alphabet
VALUES = [0, 1, 1.0, True, "a", None, (1, 2), [1, 2], {"k": 1}]
NAMES = ["x", "y"]
UNHASHABLE = {7, 8}


def _class_ids():
    ids = []
    for i, v in enumerate(VALUES):
        j = next(j for j in range(i + 1) if VALUES[j] == v and (isinstance(VALUES[j], (list, dict)) == isinstance(v, (list, dict))))
        ids.append(j)
    return ids


CLASS = _class_ids()  # value index -> identifier of its ==-class (1, 1.0 and True share one)


def A(p=(), kw=()):
    return {"p": list(p), "kw": [list(x) for x in kw]}


# positional / keyword / mixed / reordered keywords / equal values of other types / unhashable
ALPHA_HASHABLE = [A([1]), A([0]), A([2]), A([3]), A([], [[0, 1]]), A([1], [[0, 0]]), A([], [[0, 1], [1, 0]]),
                  A([], [[1, 0], [0, 1]]), A(), A([1, 0]), A([0, 1]), A([6]), A([4]), A([5]), A([1], [[1, 4]])]
ALPHA_UNHASHABLE = [A([7]), A([], [[0, 8]]), A([1], [[0, 7]]), A([8])]
ALPHA_SIC = ALPHA_HASHABLE + ALPHA_UNHASHABLE


def build_args(spec):
    return (tuple(copy.deepcopy(VALUES[i]) for i in spec["p"]),
            {NAMES[n]: copy.deepcopy(VALUES[i]) for n, i in spec["kw"]})


def enc_value(v):
    for i, V in enumerate(VALUES):
        if type(V) is type(v) and V == v:
            return i
    raise ValueError("value outside the alphabet: %r" % (v,))


def enc_args(args, kwargs):
    return {"p": [enc_value(v) for v in args], "kw": [[NAMES.index(k), enc_value(v)] for k, v in kwargs.items()]}


def canon(spec):
    """==-class of an argument pack: equal positional tuples and equal keyword dicts."""
    return (tuple(CLASS[i] for i in spec["p"]), tuple(sorted((n, CLASS[i]) for n, i in spec["kw"])))


def hashable(spec):
    return not any(i in UNHASHABLE for i in spec["p"]) and not any(i in UNHASHABLE for _, i in spec["kw"])


# ---------------------------------------------------------------- AST shape of the live wrappers
CLOCK, READ, CALL, WRITE = 0, 1, 2, 3
_READ_ATTRS = {"items", "keys", "values", "get"}
_WRITE_ATTRS = {"move_to_end", "popitem", "pop", "clear", "update", "setdefault"}


class ShapeError(Exception):
    pass


def analyse(deco):
    """Classify the source lines of `wrapper` inside decorator `deco` by what they do to shared
    state.  Returns (code object of wrapper, {absolute line number: kind}, [kinds in source order])."""
    src, first = inspect.getsourcelines(deco)
    tree = ast.parse(textwrap.dedent("".join(src)))
    outer = tree.body[0]
    ws = [n for n in ast.walk(outer) if isinstance(n, ast.FunctionDef) and n.name == "wrapper"]
    if len(ws) != 1:
        raise ShapeError("expected exactly one inner function 'wrapper' in %s" % deco.__name__)
    w = ws[0]
    parent = {}
    for n in ast.walk(w):
        for c in ast.iter_child_nodes(n):
            parent[c] = n
    lines = {}
    ops = {}

    def mark(node, kind, op):
        lines.setdefault(node.lineno, set()).add(kind)
        ops[node.lineno] = op

    for n in ast.walk(w):
        if isinstance(n, (ast.Nonlocal, ast.Global)):
            if n.names != ["cache"] or isinstance(n, ast.Global):
                raise ShapeError("wrapper declares shared names %r" % (n.names,))
        if isinstance(n, ast.Call):
            fn = n.func
            if isinstance(fn, ast.Attribute) and isinstance(fn.value, ast.Name) and fn.value.id == "time":
                if fn.attr != "time":
                    raise ShapeError("clock read through time.%s" % fn.attr)
                mark(fn, CLOCK, "time")
            if isinstance(fn, ast.Name) and fn.id == "func":
                mark(fn, CALL, "func")
        if isinstance(n, ast.Name) and n.id == "cache":
            p = parent.get(n)
            if isinstance(p, ast.Subscript) and p.value is n:
                mark(n, READ if isinstance(p.ctx, ast.Load) else WRITE, {"Load": "getitem", "Store": "setitem", "Del": "delitem"}[type(p.ctx).__name__])
            elif isinstance(p, ast.Attribute) and p.value is n and p.attr in _READ_ATTRS:
                mark(n, READ, p.attr)
            elif isinstance(p, ast.Attribute) and p.value is n and p.attr in _WRITE_ATTRS:
                mark(n, WRITE, p.attr)
            elif isinstance(p, ast.Compare) and n in p.comparators and all(isinstance(o, (ast.In, ast.NotIn)) for o in p.ops):
                mark(n, READ, "contains")
            elif isinstance(p, ast.Call) and isinstance(p.func, ast.Name) and p.func.id == "len" and n in p.args:
                mark(n, READ, "len")
            else:
                raise ShapeError("unrecognised use of the cache object at line %d of %s" % (n.lineno, deco.__name__))
        if isinstance(n, ast.Name) and n.id in ("func", "time") and not isinstance(parent.get(n), (ast.Call, ast.Attribute)):
            raise ShapeError("unrecognised use of %s at line %d" % (n.id, n.lineno))
    if not lines:
        raise ShapeError("no shared access found in wrapper of %s" % deco.__name__)
    table = {}
    for ln, kinds in lines.items():
        if len(kinds) != 1:
            raise ShapeError("line %d of %s mixes shared accesses %r" % (ln, deco.__name__, sorted(kinds)))
        table[ln + first - 1] = next(iter(kinds))
    code = deco(lambda *a, **k: None).__code__
    ok_first = {w.lineno + first - 1} | {d.lineno + first - 1 for d in w.decorator_list}
    if code.co_name != "wrapper" or code.co_firstlineno not in ok_first or "cache" not in code.co_freevars:
        raise ShapeError("the callable returned by %s is not the analysed wrapper" % deco.__name__)
    _OPS[deco.__name__] = {ln + first - 1: op for ln, op in ops.items()}
    return code, table, [table[k] for k in sorted(table)]


_OPS = {}  # decorator name -> {absolute line number: operation on the shared object ("popitem", "move_to_end", "setitem", ...)}


_SHAPES = {}
_SHAPE_ERR = []


def shapes():
    """AST analysis of both wrappers, done once; an unrecognised shape raises ShapeError on every use."""
    if _SHAPE_ERR:
        raise ShapeError(_SHAPE_ERR[0])
    if not _SHAPES:
        import orso.tools as T
        from orso.dataframe import DataFrame

        try:
            sh = {"sic": analyse(T.single_item_cache), "lru": analyse(T.lru_cache_with_expiry)}
            for attr in ("column_names", "columncount"):
                prop = DataFrame.__dict__.get(attr)
                if not isinstance(prop, property) or prop.fget.__code__ is not sh["sic"][0] or not hasattr(prop.fget, "__wrapped__"):
                    raise ShapeError("DataFrame.%s is not a property wrapped by single_item_cache" % attr)
            if DataFrame.column_names.fget is DataFrame.columncount.fget:
                raise ShapeError("column_names and columncount are one wrapper")
        except ShapeError as e:
            _SHAPE_ERR.append(str(e))
            raise
        _SHAPES.update(sh)
    return _SHAPES


def n_lines(w, default):
    """Number of shared-access lines of a wrapper (for sizing schedules); the default is used when the
    shape is unrecognised - observe() then fails closed on every scheduler case."""
    try:
        return len(shapes()[w][2])
    except ShapeError:
        return default


def gen(repo):
    sh = shapes()
    if CLOCK not in sh["sic"][2] or CALL not in sh["sic"][2] or WRITE not in sh["sic"][2] or READ not in sh["sic"][2]:
        raise ShapeError("single_item_cache wrapper lacks one of clock read / cache read / call / cache write: %r" % (sh["sic"][2],))
    body = ("(* generated by tools/props/C19.py from the AST of the live orso/tools.py: kinds of the source lines of\n"
            "   each wrapper that touch shared state, in source order (0 clock, 1 cache read, 2 call of the wrapped\n"
            "   function, 3 cache write) *)\n"
            "From Coq Require Import List NArith.\nImport ListNotations.\n"
            "Definition sic_shape : list N := %s.\nDefinition lru_shape : list N := %s.\n"
            % ("(" + L.lst(L.N(k) for k in sh["sic"][2]) + " : list N)", "(" + L.lst(L.N(k) for k in sh["lru"][2]) + " : list N)"))
    return {"C19_Shape": body}


# ---------------------------------------------------------------- fake clock, wrapped function
class FakeTime:
    """Stands in for the `time` module inside orso.tools."""

    def __init__(self, real, now):
        self._real = real
        self.now = now
        self.reads = {}

    def time(self):
        self.reads[threading.get_ident()] = self.now
        return float(self.now)

    def __getattr__(self, name):
        return getattr(self._real, name)


class Patched:
    def __enter__(self):
        import orso.tools as T

        self.T = T
        self.real = T.time
        self.clock = FakeTime(self.real, T0)
        T.time = self.clock
        return self.clock

    def __exit__(self, *a):
        self.T.time = self.real


class Fn:
    """The wrapped function: injective in (arguments, invocation number)."""

    def __init__(self, clock):
        self.clock = clock
        self.inv = []  # per invocation: [argspec, clock value when the function ran, thread ident]

    def __call__(self, *args, **kwargs):
        ident = threading.get_ident()
        n = len(self.inv)
        self.inv.append([enc_args(args, kwargs), self.clock.now, ident])
        return ("result-for", args, kwargs, n)


def enc_result(r):
    if isinstance(r, tuple) and len(r) == 4 and r[0] == "result-for" and isinstance(r[1], tuple) and isinstance(r[2], dict) and isinstance(r[3], int):
        return [enc_args(r[1], r[2]), r[3]]
    return {"bad": repr(r)[:200]}


def _deco_kw(kind, valid, mx):
    import orso.tools as T

    kw = {} if valid is None else {"valid_for_seconds": valid}
    if kind == "sic":
        return T.single_item_cache, kw
    return T.lru_cache_with_expiry, dict(kw, max_size=mx)


def make_wrapper(kind, valid, mx, fn, via="direct"):
    """direct: deco(fn, **options); factory: deco(**options)(fn) - the two ways of applying the decorator must agree."""
    deco, kw = _deco_kw(kind, valid, mx)
    if via == "factory":
        return deco(**kw)(fn)
    return deco(fn, **kw)


def lru_default_max():
    import orso.tools as T

    d = inspect.signature(T.lru_cache_with_expiry).parameters["max_size"].default
    if not isinstance(d, int):
        raise ShapeError("lru_cache_with_expiry has no integer default max_size")
    return d


class MFn(Fn):
    """Wrapped function number fid of a case with several decorated functions; its values name it."""

    def __init__(self, clock, fid):
        Fn.__init__(self, clock)
        self.fid = fid

    def __call__(self, *args, **kwargs):
        r = Fn.__call__(self, *args, **kwargs)
        return r + (self.fid,)


def make_wrappers(kind, valid, mx, makers, fns):
    deco, kw = _deco_kw(kind, valid, mx)
    factories = {}
    ws = []
    for m, fn in zip(makers, fns):
        if m == "bare":
            if valid is not None or (kind == "lru" and mx != lru_default_max()):
                raise ValueError("bare decoration has the default options")
            ws.append(deco(fn))
        elif m == "direct":
            ws.append(deco(fn, **kw))
        else:
            if m[1] not in factories:
                factories[m[1]] = deco(**kw)
            ws.append(factories[m[1]](fn))
    return ws


def run_multi(case, clock):
    kind = case["w"]
    fns = [MFn(clock, j) for j in range(len(case["mk"]))]
    ws = make_wrappers(kind, case["valid"], case.get("max", 0), case["mk"], fns)
    outs = []
    for ev in case["h"]:
        if ev[0] == "t":
            clock.now += ev[1]
            continue
        j = ev[1]
        args, kwargs = build_args(ev[2])
        before = len(fns[j].inv)
        others = [len(f.inv) for f in fns]
        try:
            r = ws[j](*args, **kwargs)
            if isinstance(r, tuple) and len(r) == 5 and isinstance(r[4], int):
                o = {"res": enc_result(r[:4]), "fn": r[4]}
            else:
                o = {"res": {"bad": repr(r)[:200]}, "fn": -1}
        except Exception as e:
            o = {"exc": type(e).__name__}
        o["hit"] = len(fns[j].inv) == before
        o["now"] = clock.now
        o["other_invoked"] = [i for i, f in enumerate(fns) if i != j and len(f.inv) != others[i]]
        if kind == "lru":
            o["keys"] = lru_keys(ws[j])
        outs.append(o)
    return {"calls": outs}


def closure_cache(w):
    cells = dict(zip(w.__code__.co_freevars, w.__closure__ or ()))
    if "cache" not in cells:
        raise ShapeError("wrapper has no closure variable 'cache'")
    return cells["cache"].cell_contents


def lru_keys(w):
    from collections import OrderedDict

    c = closure_cache(w)
    if not isinstance(c, OrderedDict):
        raise ShapeError("LRU cache object is %s" % type(c).__name__)
    out = []
    for k, v in c.items():
        try:
            args, fs = k
            spec = {"p": [enc_value(x) for x in args], "kw": sorted([NAMES.index(n), enc_value(x)] for n, x in fs)}
        except Exception:  # not (args, frozenset(kwargs.items())): reported by the oracle as foreign content
            spec = {"p": [], "kw": [], "bad": repr(k)[:120]}
        ts = v[0]
        if ts != int(ts):
            raise ValueError("non-integral timestamp in cache")
        out.append([spec, int(ts)])
    return out


def run_seq(w, fn, clock, h, with_keys):
    outs = []
    for ev in h:
        if ev[0] == "t":
            clock.now += ev[1]
            continue
        args, kwargs = build_args(ev[1])
        before = len(fn.inv)
        try:
            r = w(*args, **kwargs)
            o = {"hit": len(fn.inv) == before, "res": enc_result(r), "now": clock.now}
        except Exception as e:
            o = {"exc": type(e).__name__, "hit": len(fn.inv) == before, "now": clock.now}
        if with_keys:
            o["keys"] = lru_keys(w)
        outs.append(o)
    return outs


class Boom(Exception):
    """Raised by the harness's wrapped function when the case says this invocation fails."""


class XFn:
    """Wrapped function that acts while the wrapper is inside it: the invocation made by call node
    ["c", argspec, body, raises] first performs `body` (clock advances and further calls THROUGH THE
    WRAPPER, catching their exceptions) and then raises Boom or returns ("result-for", args, kwargs, n),
    n = number of invocations begun before this one."""

    def __init__(self, clock, with_keys):
        self.clock = clock
        self.with_keys = with_keys
        self.inv = []  # per invocation begun: [argspec, clock value]
        self.stack = []
        self.w = None

    def __call__(self, *args, **kwargs):
        n = len(self.inv)
        self.inv.append([enc_args(args, kwargs), self.clock.now])
        node, rec = self.stack[-1]
        rec["invoked"] += 1
        if rec["invoked"] == 1:
            rec["sub"] = self.run(node[2])
        if node[3]:
            raise Boom()
        return ("result-for", args, kwargs, n)

    def run(self, events):
        outs = []
        for ev in events:
            if ev[0] == "t":
                self.clock.now += ev[1]
                continue
            args, kwargs = build_args(ev[1])
            rec = {"invoked": 0, "sub": [], "now": self.clock.now}
            self.stack.append((ev, rec))
            try:
                rec["res"] = enc_result(self.w(*args, **kwargs))
            except Exception as e:
                rec["exc"] = type(e).__name__
            finally:
                self.stack.pop()
            if self.with_keys:
                rec["keys"] = lru_keys(self.w)
            outs.append(rec)
        return outs


# ---------------------------------------------------------------- the line scheduler
class Deadlock(Exception):
    pass


class Sched:
    def __init__(self):
        self.cv = threading.Condition()
        self.parked = {}
        self.done = set()
        self.grant = None

    def _wait(self, pred):
        while not pred():
            if not self.cv.wait(TIMEOUT):
                raise Deadlock("scheduler timed out")

    def arrive(self, tid, kind):  # thread side: about to execute a shared-access line
        with self.cv:
            self.parked[tid] = kind
            self.cv.notify_all()
            self._wait(lambda: self.grant == tid)
            self.grant = None
            del self.parked[tid]
            self.cv.notify_all()

    def finish(self, tid):
        with self.cv:
            self.done.add(tid)
            self.cv.notify_all()

    def step(self, tid):  # driver side: returns the kind of the line executed, None if finished
        with self.cv:
            self._wait(lambda: tid in self.parked or tid in self.done)
            if tid in self.done:
                return None
            kind = self.parked[tid]
            self.grant = tid
            self.cv.notify_all()
            self._wait(lambda: self.grant is None and (tid in self.parked or tid in self.done))
            return kind


def run_threads(calls, code, table, sched_spec, clock, watch=None):
    """calls: one zero-argument callable per thread.  Returns (results, executed schedule, per-thread
    clock reads, set of threads in which a frame of code `watch` was entered)."""
    S = Sched()
    n = len(calls)
    results = [None] * n
    idents = [None] * n
    entered = set()
    errors = []
    exc_line = [None] * n  # line of the wrapper at which a caller's exception was raised

    def tracer_for(tid):
        def local(frame, event, arg):
            if event == "line":
                kind = table.get(frame.f_lineno)
                if kind is not None:
                    S.arrive(tid, kind)
            return local

        def glob(frame, event, arg):
            if event == "call":
                if frame.f_code is code:
                    return local
                if watch is not None and frame.f_code is watch:
                    entered.add(tid)
            return None

        return glob

    def body(tid):
        idents[tid] = threading.get_ident()
        sys.settrace(tracer_for(tid))
        try:
            results[tid] = ("ok", calls[tid]())
        except Deadlock as e:
            errors.append(repr(e))
            results[tid] = ("exc", e)
        except Exception as e:
            tb = e.__traceback__
            while tb is not None:
                if tb.tb_frame.f_code is code:
                    exc_line[tid] = tb.tb_lineno
                tb = tb.tb_next
            results[tid] = ("exc", e)
        finally:
            sys.settrace(None)
            S.finish(tid)

    ts = [threading.Thread(target=body, args=(i,), daemon=True) for i in range(n)]
    for t in ts:
        t.start()
    executed = []
    for e in sched_spec:
        if isinstance(e, list):
            clock.now += e[1]
            executed.append(["t", e[1]])
        elif 0 <= e < n:
            k = S.step(e)
            if k is not None:
                executed.append([e, k])
    for tid in range(n):
        while True:
            k = S.step(tid)
            if k is None:
                break
            executed.append([tid, k])
    for t in ts:
        t.join(TIMEOUT)
    if errors or any(t.is_alive() for t in ts):
        raise Deadlock("; ".join(errors) or "thread did not finish")
    reads = [clock.reads.get(i) for i in idents]
    return results, executed, reads, entered, idents, exc_line


SCHEMAS = [["a", "b"], ["c"], ["a", "d", "e"], ["z", "y", "x", "w"]]


# column entries of the DataFrame sessions: distinguishable values, several of them ==-equal (1 == 1.0 == True, 0 == False,
# 2 == 2.0); their str() are pairwise different, so an answer decodes to exactly one list of indices
DFVALS = ["k", "v", "x", 1, 1.0, True, 0, False, 2, 2.0, "extra"]
DF_STR = {str(v): i for i, v in enumerate(DFVALS)}
DF_STRINGS = [i for i, v in enumerate(DFVALS) if isinstance(v, str)]
assert len(DF_STR) == len(DFVALS)


def _rel_col(i):
    from orso.schema import FlatColumn
    from orso.types import OrsoTypes

    return FlatColumn(name=DFVALS[i], type=OrsoTypes.VARCHAR)


def run_dfs(case):
    from orso.dataframe import DataFrame
    from orso.schema import RelationSchema

    schemas, frames, outs = [], [], []
    for op in case["ops"]:
        t = op[0]
        if t == "s":
            if op[1] == "rel":
                schemas.append(RelationSchema(name="t", columns=[_rel_col(i) for i in op[2]]))
            else:
                vals = [DFVALS[i] for i in op[2]]
                schemas.append(vals if op[1] == "list" else tuple(vals))
        elif t == "f":
            frames.append(DataFrame(rows=[], schema=schemas[op[1]]))
        elif t in ("app", "set0", "pop"):
            obj = schemas[op[1]]
            rel = not isinstance(obj, (list, tuple))
            target = obj.columns if rel else obj
            if not isinstance(target, list):
                raise ValueError("in-place change of an immutable schema object")
            if t == "app":
                target.append(_rel_col(op[2]) if rel else DFVALS[op[2]])
            elif t == "set0":
                if target:
                    target[0] = _rel_col(op[2]) if rel else DFVALS[op[2]]
            elif target:
                target.pop()
        elif t == "g":
            try:
                r = getattr(frames[op[1]], op[2])
                if op[2] == "column_names":
                    ok = isinstance(r, tuple) and all(isinstance(x, str) for x in r)
                    outs.append({"names": [DF_STR.get(x, -1) for x in r] if ok else None, "raw": repr(r)[:120]})
                else:
                    outs.append({"count": r if isinstance(r, int) and not isinstance(r, bool) else None, "raw": repr(r)[:120]})
            except Exception as e:
                outs.append({"exc": type(e).__name__})
        else:
            raise KeyError(t)
    return {"outs": outs}


def observe(case):
    k = case["k"]
    if k == "dfs":
        return run_dfs(case)
    sh = shapes() if k in ("conc", "df") else None
    with Patched() as clock:
        if k in ("sic", "lru"):
            fn = Fn(clock)
            w = make_wrapper(k, case["valid"], case.get("max", 0), fn, case.get("via", "direct"))
            return {"calls": run_seq(w, fn, clock, case["h"], k == "lru")}
        if k == "multi":
            return run_multi(case, clock)
        if k in ("sicx", "lrx"):
            fn = XFn(clock, k == "lrx")
            fn.w = make_wrapper("sic" if k == "sicx" else "lru", case["valid"], case.get("max", 0), fn, case.get("via", "direct"))
            return {"calls": fn.run(case["h"])}
        if k == "conc":
            fn = Fn(clock)
            w = make_wrapper(case["w"], case["valid"], case.get("max", 0), fn, case.get("via", "direct"))
            pre = run_seq(w, fn, clock, case["pre"], False)
            n_pre = len(fn.inv)
            code, table, _ = sh[case["w"]]
            if w.__code__ is not code:
                raise ShapeError("wrapper code object changed")
            packs = [build_args(s) for s in case["thr"]]
            calls = [(lambda a=a, kw=kw: w(*a, **kw)) for a, kw in packs]
            results, executed, reads, _, idents, exc_line = run_threads(calls, code, table, case["sched"], clock)
            ops = _OPS.get("single_item_cache" if case["w"] == "sic" else "lru_cache_with_expiry", {})
            thr = []
            for tid, (tag, r) in enumerate(results):
                invoked = any(i[2] == idents[tid] for i in fn.inv[n_pre:])
                if tag == "ok":
                    thr.append({"res": enc_result(r), "invoked": invoked, "now": reads[tid]})
                else:
                    thr.append({"exc": type(r).__name__, "invoked": invoked, "now": reads[tid], "at": ops.get(exc_line[tid])})
            out = {"pre": pre, "thr": thr, "sched": executed, "inv": [[i[0], i[1]] for i in fn.inv]}
            if case["w"] == "lru":
                out["final"] = lru_keys(w)  # content of the cache once every caller has returned
            return out
        if k == "df":
            from orso.dataframe import DataFrame

            attr = case["attr"]
            prop = DataFrame.__dict__[attr]
            code, table, _ = sh["sic"]
            want = (lambda s: tuple(s)) if attr == "column_names" else (lambda s: len(s))
            frames = {}

            def frame(i):  # one fresh frame object per index and case
                if i not in frames:
                    frames[i] = DataFrame(rows=[], schema=list(SCHEMAS[i]))
                return frames[i]

            pre_frame = frame(case["pre"])
            pre_val = getattr(pre_frame, attr)
            calls = [(lambda f=frame(i): getattr(f, attr)) for i in case["thr"]]
            results, executed, reads, entered, _, _ = run_threads(calls, code, table, case["sched"], clock, watch=prop.fget.__wrapped__.__code__)
            values = {want(s): i for i, s in enumerate(SCHEMAS)}
            thr = []
            for tid, (tag, r) in enumerate(results):
                if tag == "ok":
                    thr.append({"frame": values.get(r, -1), "value": list(r) if isinstance(r, tuple) else r, "invoked": tid in entered})
                else:
                    thr.append({"exc": type(r).__name__, "invoked": tid in entered})
            return {"pre": values.get(pre_val, -1), "thr": thr, "sched": executed}
    raise KeyError(k)


# ---------------------------------------------------------------- the property, read literally
def _fresh(valid, now, ts):
    return True if valid is None else now - ts <= valid


def _check_value(where, spec, o, inv_specs, inv_times, valid, now):
    """The value returned must be one the wrapped function produced for equal arguments no longer ago
    than the validity period."""
    if "exc" in o:
        return f"{where}: the call raised {o['exc']}"
    res = o["res"]
    if isinstance(res, dict):
        return f"{where}: returned {res['bad']}, not a value of the wrapped function"
    rspec, n = res
    if canon(rspec) != canon(spec):
        return (f"{where}: called with {spec} but received the result computed for {rspec} (invocation {n}); "
                "a call must return a value the wrapped function produced for equal arguments")
    if not (0 <= n < len(inv_specs)) or canon(inv_specs[n]) != canon(spec):
        return f"{where}: returned invocation number {n} which was not an invocation for these arguments"
    if now is not None and inv_times[n] is not None and not _fresh(valid, now, inv_times[n]):
        return f"{where}: returned a value computed at {inv_times[n]}, older than the validity period {valid} at {now}"
    return None


def oracle_sic(case, obs):
    valid = case["valid"]
    now = T0
    held = None  # entry of the last call: (argument class, time of the invocation that produced it, invocation number)
    inv_specs, inv_times = [], []
    calls = iter(obs["calls"])
    for i, ev in enumerate(case["h"]):
        if ev[0] == "t":
            now += ev[1]
            continue
        o = next(calls)
        spec = ev[1]
        where = f"event {i} call {spec} at {now}"
        expect_hit = held is not None and held[0] == canon(spec) and _fresh(valid, now, held[1])
        if "exc" in o:
            return f"{where}: raised {o['exc']}"
        if o["hit"] != expect_hit:
            return (f"{where}: the wrapped function was {'not ' if o['hit'] else ''}invoked, but an unexpired entry of the last call "
                    f"for equal arguments is {'held' if expect_hit else 'not held'}")
        if not o["hit"]:
            inv_specs.append(spec)
            inv_times.append(now)
            held = (canon(spec), now, len(inv_specs) - 1)
            if isinstance(o["res"], list) and o["res"][1] != held[2]:
                return f"{where}: a miss must return the value of the invocation it made"
        why = _check_value(where, spec, o, inv_specs, inv_times, valid, now)
        if why:
            return why
        if o["hit"] and o["res"][1] != held[2]:
            return f"{where}: a hit must return the value of the last call's entry (invocation {held[2]}), got invocation {o['res'][1]}"
    return None


def oracle_lru(case, obs):
    valid, mx = case["valid"], case["max"]
    now = T0
    held = []  # unordered: dicts key / ts / n / used
    inv_specs, inv_times = [], []
    calls = iter(obs["calls"])
    for i, ev in enumerate(case["h"]):
        if ev[0] == "t":
            now += ev[1]
            continue
        o = next(calls)
        spec = ev[1]
        where = f"event {i} call {spec} at {now}"
        held = [e for e in held if _fresh(valid, now, e["ts"])]
        mine = [e for e in held if e["key"] == canon(spec)]
        if "exc" in o:
            return f"{where}: raised {o['exc']}"
        if o["hit"] != bool(mine):
            return (f"{where}: the wrapped function was {'not ' if o['hit'] else ''}invoked, but an unexpired entry for equal arguments "
                    f"is {'held' if mine else 'not held'} among the {mx} most recently used keys")
        if mine:
            mine[0]["used"] = i
            want_n = mine[0]["n"]
        else:
            inv_specs.append(spec)
            inv_times.append(now)
            want_n = len(inv_specs) - 1
            held.append({"key": canon(spec), "ts": now, "n": want_n, "used": i})
            if len(held) > mx:
                held.remove(min(held, key=lambda e: e["used"]))  # the least recently used key goes
        why = _check_value(where, spec, o, inv_specs, inv_times, valid, now)
        if why:
            return why
        if o["res"][1] != want_n:
            return f"{where}: expected the value of invocation {want_n}, got invocation {o['res'][1]}"
        keys = [((kk["bad"],) if "bad" in kk else canon(kk), ts) for kk, ts in o["keys"]]
        if len(keys) > mx:
            return f"{where}: the cache holds {len(keys)} keys, more than max_size {mx}"
        if keys != [(e["key"], e["ts"]) for e in sorted(held, key=lambda e: e["used"])]:
            return f"{where}: the cache holds {keys}, expected the {mx} most recently used unexpired keys {[(e['key'], e['ts']) for e in sorted(held, key=lambda e: e['used'])]}"
    return None


def oracle_conc(case, obs, check_fresh=True):
    valid = case["valid"]
    inv_specs = [i[0] for i in obs["inv"]]
    inv_times = [i[1] for i in obs["inv"]]
    for tid, (spec, o) in enumerate(zip(case["thr"], obs["thr"])):
        where = f"thread {tid} calling {spec} under schedule {obs['sched']}"
        if "exc" in o:
            if case["w"] == "lru" and o["exc"] in ("RuntimeError", "KeyError"):
                # allowed outcomes of the LRU wrapper under interleaving: the lookup (sweep, del, get / move_to_end) raced
                # with another caller BEFORE the wrapped function was invoked; or, after storing, the trim met a cache
                # that other callers' sweeps had emptied (popitem).  Once the wrapped function has produced this
                # caller's value nothing else may make the call fail.
                if not o["invoked"] or o.get("at") == "popitem":
                    continue
                return (f"{where}: the wrapped function had produced this caller's value, but the call raised {o['exc']} "
                        f"at the cache operation '{o.get('at')}' (another caller removed the key in between)")
            return f"{where}: raised {o['exc']}"
        why = _check_value(where, spec, o, inv_specs, inv_times, valid, o["now"] if check_fresh else None)
        if why:
            return why
    if "final" in obs:
        # once every caller has returned: the cache is back within its capacity, one entry per key, and
        # every entry belongs to arguments the wrapped function was invoked for
        keys = [((kk["bad"],) if "bad" in kk else canon(kk)) for kk, _ in obs["final"]]
        where = f"after all callers returned (schedule {obs['sched']})"
        if len(keys) > case["max"]:
            return (f"{where}: the cache holds {len(keys)} keys {keys}, more than max_size {case['max']}; a key that is not among the "
                    "max_size most recently used keys would be served from the cache")
        if len(set(keys)) != len(keys):
            return f"{where}: the cache holds a key twice: {keys}"
        for kk in keys:
            if kk not in [canon(i) for i in inv_specs]:
                return f"{where}: the cache holds key {kk} for which the wrapped function was never invoked"
    return None


def _walk_x(case, obs):
    """Reference for histories in which the wrapped function acts (forests).  Read literally: a call
    is served from the cache exactly when an unexpired value produced for equal arguments is held -
    the value of the last call that produced one (single item) / of one of the max_size most recently
    used keys (LRU; a key is used when a call for it is served or when the value computed for it is
    stored, i.e. when that call completes); a call whose wrapped function raises propagates the
    exception, produces no value, and therefore adds nothing and forgets nothing; the calls the
    wrapped function makes through the wrapper are calls like any other.  Expired entries are dropped
    when the next call begins (they are held until then, as in oracle_lru)."""
    lru = case["k"] == "lrx"
    valid, mx = case["valid"], case.get("max")
    st = {"now": T0, "held": [], "stamp": 0}
    inv_specs, inv_times = [], []

    def stamp():
        st["stamp"] += 1
        return st["stamp"]

    def walk(events, outs, path):
        if len(outs) != sum(1 for e in events if e[0] == "c"):
            return f"harness: {len(outs)} observations for the calls of {events}"
        it = iter(outs)
        for i, ev in enumerate(events):
            if ev[0] == "t":
                st["now"] += ev[1]
                continue
            o = next(it)
            spec, body, raises = ev[1], ev[2], ev[3]
            now0 = st["now"]
            where = f"call {spec} at {now0} (event {'.'.join(map(str, path + [i]))})"
            if lru:
                st["held"] = [e for e in st["held"] if _fresh(valid, now0, e["ts"])]
            mine = [e for e in st["held"] if e["key"] == canon(spec) and _fresh(valid, now0, e["ts"])]
            if o["invoked"] > 1:
                return f"{where}: the wrapped function was invoked {o['invoked']} times by one call"
            if (o["invoked"] == 0) != bool(mine):
                return (f"{where}: the wrapped function was {'not ' if not o['invoked'] else ''}invoked, but an unexpired entry for equal "
                        f"arguments is {'held' if mine else 'not held'}" + (f" among the {mx} most recently used keys" if lru else " (the last call only)"))
            if mine:
                why = _check_value(where, spec, o, inv_specs, inv_times, valid, now0)
                if why:
                    return why
                if o["res"][1] != mine[0]["n"]:
                    return f"{where}: expected the held value (invocation {mine[0]['n']}), got invocation {o['res'][1]}"
                mine[0]["used"] = stamp()
            else:
                n = len(inv_specs)
                inv_specs.append(spec)
                inv_times.append(now0)
                why = walk(body, o["sub"], path + [i])
                if why:
                    return why
                if raises:
                    if o.get("exc") != "Boom":
                        return f"{where}: the wrapped function raised; the call must propagate that exception, observed {o.get('exc') or o.get('res')}"
                else:
                    why = _check_value(where, spec, o, inv_specs, inv_times, valid, now0)
                    if why:
                        return why
                    if o["res"][1] != n:
                        return f"{where}: a call that invoked the wrapped function must return the value of that invocation ({n}), got {o['res'][1]}"
                    entry = {"key": canon(spec), "ts": now0, "n": n, "used": stamp()}
                    if lru:
                        st["held"] = [e for e in st["held"] if e["key"] != canon(spec)] + [entry]
                        if len(st["held"]) > mx:
                            st["held"].remove(min(st["held"], key=lambda e: e["used"]))
                    else:
                        st["held"] = [entry]
            if lru:
                keys = [((kk["bad"],) if "bad" in kk else canon(kk), ts) for kk, ts in o["keys"]]
                want = [(e["key"], e["ts"]) for e in sorted(st["held"], key=lambda e: e["used"])]
                if len(keys) > mx:
                    return f"{where}: after the call the cache holds {len(keys)} keys, more than max_size {mx}: {keys}"
                if keys != want:
                    return (f"{where}: after the call the cache holds {keys}, expected {want} (the {mx} most recently used keys; "
                            "a call that raised adds nothing and forgets nothing)")
        return None

    return walk(case["h"], obs["calls"], [])


def oracle_x(case, obs):
    return _walk_x(case, obs)


def _mproj(case, obs, j):
    """What function j sees: its own calls and every clock advance, with the observations of those calls."""
    h, outs = [], []
    it = iter(obs["calls"])
    for ev in case["h"]:
        if ev[0] == "t":
            h.append(ev)
            continue
        o = next(it)
        if ev[1] == j:
            h.append(["c", ev[2]])
            outs.append(o)
    return {"k": case["w"], "valid": case["valid"], "max": case.get("max"), "h": h}, {"calls": outs}


def oracle_multi(case, obs):
    """Every decorated function is a memoised function of its own: a call returns a value ITS wrapped function produced,
    invokes no other function, and function j taken alone (its calls + the clock) satisfies the single-function property."""
    it = iter(obs["calls"])
    for i, ev in enumerate(case["h"]):
        if ev[0] == "t":
            continue
        o = next(it)
        where = f"event {i}: function {ev[1]} (made by {case['mk'][ev[1]]}) called with {ev[2]}"
        if o["other_invoked"]:
            return f"{where}: the call invoked the wrapped function of function(s) {o['other_invoked']}"
        if "exc" not in o and o["fn"] != ev[1]:
            return (f"{where}: received {o['res']} produced by function {o['fn']}; a call must return a value its own wrapped function "
                    "produced for equal arguments")
    for j in range(len(case["mk"])):
        c, ob = _mproj(case, obs, j)
        why = (oracle_sic if case["w"] == "sic" else oracle_lru)(c, ob)
        if why:
            return f"function {j} (made by {case['mk'][j]}) taken alone, history {c['h']}: {why}"
    return None


def oracle_dfs(case, obs):
    """column_names / columncount are memoised per FRAME (frames are equal only to themselves): the answer is the value the
    property's function produced for THIS frame - the one held when this frame was also the last one asked, otherwise
    what this frame's own schema object spells now.  Never an answer computed for another frame."""
    schemas, frames = [], []
    held = {"column_names": None, "columncount": None}
    it = iter(obs["outs"])
    for i, op in enumerate(case["ops"]):
        t = op[0]
        if t == "s":
            schemas.append(list(op[2]))
        elif t == "f":
            frames.append(op[1])
        elif t == "app":
            schemas[op[1]].append(op[2])
        elif t == "set0":
            if schemas[op[1]]:
                schemas[op[1]][0] = op[2]
        elif t == "pop":
            if schemas[op[1]]:
                schemas[op[1]].pop()
        else:
            o = next(it)
            f, attr = op[1], op[2]
            now = list(schemas[frames[f]])
            truth = now if attr == "column_names" else len(now)
            if held[attr] is not None and held[attr][0] == f:
                want = held[attr][1]
            else:
                want = truth
                held[attr] = (f, truth)
            got = o.get("names") if attr == "column_names" else o.get("count")
            if "exc" in o:
                return f"op {i}: frame {f}.{attr} raised {o['exc']}"
            if got != want:
                show = lambda v: [DFVALS[j] if j >= 0 else "?" for j in v] if isinstance(v, list) else v
                return (f"op {i}: frame {f}.{attr} answered {o['raw']}; the value produced for this frame is {show(want)} "
                        f"(its schema object spells {show(now)} now); the answer served was not produced for this frame")
    return None


def oracle_df(case, obs):
    for tid, (fi, o) in enumerate(zip(case["thr"], obs["thr"])):
        if "exc" in o:
            return f"thread {tid}: DataFrame.{case['attr']} raised {o['exc']}"
        if o["frame"] != fi:
            return (f"thread {tid}: frame with schema {SCHEMAS[fi]} answered {case['attr']} = {o['value']} "
                    f"(the answer for another frame) under schedule {obs['sched']}")
    return None


def oracle(case, obs):
    return {"sic": oracle_sic, "lru": oracle_lru, "conc": oracle_conc, "df": oracle_df, "sicx": oracle_x, "lrx": oracle_x, "multi": oracle_multi, "dfs": oracle_dfs}[case["k"]](case, obs)


# ---------------------------------------------------------------- Coq literals
def _zl(xs):
    return "(%s : list Z)" % L.lst(L.Z(x) for x in xs)


def c_arg(spec):
    kw = "(%s : list (N * Z))" % L.lst(L.pair(L.N(n), L.Z(CLASS[i])) for n, i in spec["kw"])
    return "(%s, %s)" % (_zl(CLASS[i] for i in spec["p"]), kw)


def c_key(spec):
    return c_arg({"p": spec["p"], "kw": sorted(spec["kw"])})


def c_res(res):
    return "(%s, %s)" % (c_arg(res[0]), L.N(res[1]))


def c_hist(h):
    return "(%s : list (@event carg))" % L.lst(("(Call %s)" % c_arg(e[1])) if e[0] == "c" else ("(Tick %s)" % L.N(e[1])) for e in h)


def c_valid(v):
    return "(%s : option Z)" % L.opt(None if v is None else L.Z(v))


def c_xev(e):
    if e[0] == "t":
        return "(XTick %s)" % L.N(e[1])
    return "(XCall %s (xl %s) %s)" % (c_arg(e[1]), c_forest(e[2]), L.boolean(e[3]))


def c_forest(h):
    return "(%s : list (@xev carg))" % L.lst(c_xev(e) for e in h)


def flat_x(outs):
    """Observations of a forest in order of completion (nested calls before the call whose invocation made them)."""
    for o in outs:
        if o["invoked"]:
            yield from flat_x(o["sub"])
        yield o


def c_ores(o):
    return "(%s : option cres)" % L.opt(None if "exc" in o else c_res(o["res"]))


def _plain(calls):
    return all("exc" not in o and isinstance(o["res"], list) for o in calls)


def to_coq(case, obs):
    k = case["k"]
    if k == "sic":
        if not _plain(obs["calls"]):
            return None
        o = "(%s : list (bool * cres))" % L.lst(L.pair(L.boolean(c["hit"]), c_res(c["res"])) for c in obs["calls"])
        return ("sic", "(%s, %s, %s, %s)" % (c_valid(case["valid"]), L.Z(T0), c_hist(case["h"]), o))
    if k == "lru":
        if not _plain(obs["calls"]) or any("bad" in kk for c in obs["calls"] for kk, _ in c["keys"]):
            return None
        o = "(%s : list (bool * cres * list (ckey * Z)))" % L.lst(
            "(%s, %s, (%s : list (ckey * Z)))" % (L.boolean(c["hit"]), c_res(c["res"]), L.lst(L.pair(c_key(kk), L.Z(ts)) for kk, ts in c["keys"]))
            for c in obs["calls"])
        return ("lru", "(%s, %s, %s, %s, %s)" % (L.nat(case["max"]), c_valid(case["valid"]), L.Z(T0), c_hist(case["h"]), o))
    if k == "dfs":
        if any("exc" in o or o.get("names", 0) is None or o.get("count", 0) is None or -1 in (o.get("names") or []) for o in obs["outs"]):
            return None
        zl = lambda xs: "(%s : list Z)" % L.lst(L.Z(x) for x in xs)
        def c_op(op):
            t = op[0]
            if t == "s":
                return "(DSchema %s)" % zl(op[2])
            if t == "f":
                return "(DFrame %s)" % L.nat(op[1])
            if t == "app":
                return "(DApp %s %s)" % (L.nat(op[1]), L.Z(op[2]))
            if t == "set0":
                return "(DSet0 %s %s)" % (L.nat(op[1]), L.Z(op[2]))
            if t == "pop":
                return "(DPop %s)" % L.nat(op[1])
            return "(%s %s)" % ("DNames" if op[2] == "column_names" else "DCount", L.nat(op[1]))
        outs = "(%s : list dfout)" % L.lst(("(ONames %s)" % zl(o["names"])) if "names" in o else "(OCount %s)" % L.nat(o["count"]) for o in obs["outs"])
        return ("dfs", "((%s : list dfop), %s)" % (L.lst(c_op(op) for op in case["ops"]), outs))
    if k == "multi":
        if not _plain(obs["calls"]) or any(c["fn"] < 0 for c in obs["calls"]):
            return None
        hist = "(%s : list (@mev carg))" % L.lst(("(MTick %s)" % L.N(e[1])) if e[0] == "t" else "(MCall %s %s)" % (L.nat(e[1]), c_arg(e[2])) for e in case["h"])
        n = L.nat(len(case["mk"]))
        if case["w"] == "sic":
            o = "(%s : list (nat * bool * cres))" % L.lst("(%s, %s, %s)" % (L.nat(c["fn"]), L.boolean(c["hit"]), c_res(c["res"])) for c in obs["calls"])
            return ("msic", "(%s, %s, %s, %s, %s)" % (c_valid(case["valid"]), L.Z(T0), n, hist, o))
        if any("bad" in kk for c in obs["calls"] for kk, _ in c["keys"]):
            return None
        o = "(%s : list (nat * bool * cres * list (ckey * Z)))" % L.lst(
            "(%s, %s, %s, (%s : list (ckey * Z)))" % (L.nat(c["fn"]), L.boolean(c["hit"]), c_res(c["res"]), L.lst(L.pair(c_key(kk), L.Z(ts)) for kk, ts in c["keys"]))
            for c in obs["calls"])
        return ("mlru", "(%s, %s, %s, %s, %s, %s)" % (L.nat(case["max"]), c_valid(case["valid"]), L.Z(T0), n, hist, o))
    if k in ("sicx", "lrx"):
        fl = list(flat_x(obs["calls"]))
        if any(o["invoked"] > 1 or o.get("exc", "Boom") != "Boom" or isinstance(o.get("res"), dict) for o in fl):
            return None
        if k == "sicx":
            o = "(%s : list (bool * option cres))" % L.lst(L.pair(L.boolean(c["invoked"] == 0), c_ores(c)) for c in fl)
            return ("sicx", "(%s, %s, %s, %s)" % (c_valid(case["valid"]), L.Z(T0), c_forest(case["h"]), o))
        if any("bad" in kk for c in fl for kk, _ in c["keys"]):
            return None
        o = "(%s : list (bool * option cres * list (ckey * Z)))" % L.lst(
            "(%s, %s, (%s : list (ckey * Z)))" % (L.boolean(c["invoked"] == 0), c_ores(c), L.lst(L.pair(c_key(kk), L.Z(ts)) for kk, ts in c["keys"]))
            for c in fl)
        return ("lrx", "(%s, %s, %s, %s, %s)" % (L.nat(case["max"]), c_valid(case["valid"]), L.Z(T0), c_forest(case["h"]), o))
    if k == "conc":
        if case["w"] != "sic" or not _plain(obs["thr"]) or not _plain(obs["pre"]):
            return None
        ms = "(%s : list msched)" % L.lst(("(MT %s)" % L.N(e[1])) if e[0] == "t" else "(MS %s %s)" % (L.nat(e[0]), L.N(e[1])) for e in obs["sched"])
        o = "(%s : list (bool * cres))" % L.lst(L.pair(L.boolean(t["invoked"]), c_res(t["res"])) for t in obs["thr"])
        args = "(%s : list carg)" % L.lst(c_arg(s) for s in case["thr"])
        return ("conc", "(true, %s, %s, %s, %s, %s, %s)" % (c_valid(case["valid"]), L.Z(T0), c_hist(case["pre"]), args, ms, o))
    if k == "df":
        if any("exc" in t or t["frame"] < 0 for t in obs["thr"]) or obs["pre"] < 0:
            return None
        fr = lambda i: "(%s, ([] : list (N * Z)))" % _zl([i])
        ms = "(%s : list msched)" % L.lst(("(MT %s)" % L.N(e[1])) if e[0] == "t" else "(MS %s %s)" % (L.nat(e[0]), L.N(e[1])) for e in obs["sched"])
        o = "(%s : list (bool * cres))" % L.lst(L.pair(L.boolean(t["invoked"]), "(%s, 0%%N)" % fr(t["frame"])) for t in obs["thr"])
        args = "(%s : list carg)" % L.lst(fr(i) for i in case["thr"])
        pre = "([Call %s] : list (@event carg))" % fr(case["pre"])
        return ("conc", "(false, (None : option Z), %s, %s, %s, %s, %s)" % (L.Z(T0), pre, args, ms, o))
    return None


def known(case, obs):
    return None  # F-C19-1, F-C19-2, F-C19-3 are fixed in /repo; their witnesses are corpus cases


def _interleaved(sched):
    tids = [e[0] for e in sched if e[0] != "t"]
    switches = sum(1 for a, b in zip(tids, tids[1:]) if a != b)
    return switches >= 2


def nontrivial_key(case, obs):
    k = case["k"]
    if k in ("sic", "lru"):
        if not any(o.get("hit") for o in obs["calls"]):
            return None
        return repr(case)
    if k in ("sicx", "lrx"):
        fl = list(flat_x(obs["calls"]))
        if not any(o["sub"] or "exc" in o for o in fl):
            return None
        return repr(case)
    if k == "dfs":
        if len([op for op in case["ops"] if op[0] == "f"]) < 2 or not obs["outs"]:
            return None
        return repr(case)
    if k == "multi":
        if len({e[1] for e in case["h"] if e[0] == "c"}) < 2 or not any(o.get("hit") for o in obs["calls"]):
            return None
        return repr(case)
    if not _interleaved(obs["sched"]):
        return None
    return repr((case["k"], case.get("w"), case.get("valid"), case.get("pre"), case["thr"], obs["sched"]))


def classify(case, obs):
    k = case["k"]
    yield "kind:" + k + (":" + case["w"] if k == "conc" else "")
    if case.get("via", "direct") != "direct":
        yield "via:" + case["via"]
    if k in ("sic", "lru"):
        yield "valid=" + str(case["valid"])
        if k == "lru":
            yield "max_size=%d" % case["max"]
        yield "depth=%d" % min(len(case["h"]), 8) + ("+" if len(case["h"]) > 8 else "")
        if any(o.get("hit") for o in obs["calls"]):
            yield "some-hit"
        specs = [e[1] for e in case["h"] if e[0] == "c"]
        if any(s["kw"] and s["p"] for s in specs):
            yield "args:mixed"
        if any(s["kw"] and not s["p"] for s in specs):
            yield "args:keyword"
        if any(not hashable(s) for s in specs):
            yield "args:unhashable"
        if any(e[0] == "t" for e in case["h"]):
            yield "clock-advanced"
        if k == "lru" and any(len(o.get("keys", [])) == case["max"] for o in obs["calls"]):
            yield "lru:full"
    elif k == "dfs":
        ops = case["ops"]
        if any(op[0] in ("app", "set0", "pop") for op in ops):
            yield "dfs:schema-object-changed-in-place"
        fr = [op[1] for op in ops if op[0] == "f"]
        if len(fr) != len(set(fr)):
            yield "dfs:two-frames-on-one-schema-object"
        sch = [op for op in ops if op[0] == "s"]
        if any(a is not b and [DFVALS[i] for i in a[2]] == [DFVALS[i] for i in b[2]] and a[2] != b[2] for a in sch for b in sch):
            yield "dfs:equal-but-distinguishable-schemas"
        if any(op[1] == "rel" for op in sch):
            yield "dfs:RelationSchema"
    elif k == "multi":
        yield "multi:" + case["w"]
        yield "functions=%d" % len(case["mk"])
        fac = [m[1] for m in case["mk"] if isinstance(m, list)]
        if len(fac) != len(set(fac)):
            yield "multi:one-configured-decorator-for-several-functions"
        if "bare" in case["mk"]:
            yield "multi:bare-decoration"
        calls = [e for e in case["h"] if e[0] == "c"]
        if any(a[1] != b[1] and canon(a[2]) == canon(b[2]) for a, b in zip(calls, calls[1:])):
            yield "multi:equal-arguments-to-different-functions-in-succession"
    elif k in ("sicx", "lrx"):
        fl = list(flat_x(obs["calls"]))
        yield "valid=" + str(case["valid"])
        if k == "lrx":
            yield "max_size=%d" % case["max"]
        if any("exc" in o for o in fl):
            yield "x:wrapped-function-raised"
        if any(o["sub"] for o in fl):
            yield "x:re-entrant"
        if any(s2["sub"] for o in fl for s2 in o["sub"]):
            yield "x:re-entrant-depth>=2"
        if any(s2["invoked"] == 0 for o in fl for s2 in o["sub"]):
            yield "x:nested-call-served-from-cache"
        if any("exc" in o and o["sub"] for o in fl):
            yield "x:raised-after-nested-calls"
        if k == "lrx" and any(len(o["keys"]) == case["max"] for o in fl):
            yield "lru:full"
    else:
        yield "threads=%d" % len(case["thr"])
        if _interleaved(obs["sched"]):
            yield "interleaved"
        if any(e[0] == "t" for e in obs["sched"]):
            yield "clock-advanced-mid-call"
        if any("exc" in t for t in obs["thr"]):
            yield "some-call-raised"
        if any(not t.get("invoked") for t in obs["thr"]):
            yield "some-thread-hit"


# ---------------------------------------------------------------- generators
def C(spec):
    return ["c", spec]


def Tk(d):
    return ["t", d]


def X(spec, body=(), raises=False):
    return ["c", spec, [list(e) if e[0] == "t" else e for e in body], bool(raises)]


def M(j, spec):
    return ["c", j, spec]


F0, F1 = ["factory", 0], ["factory", 1]
G = lambda f, a: ["g", f, "column_names" if a == "n" else "columncount"]


def dfs_family(quick):
    """Frame 0 on a schema object, looked up; then frame 1 on (a) the SAME object changed in place, (b) the same object
    unchanged, (c) a new ==-equal object spelling other names (1/1.0/True), (d) a new equal copy, (e) a new different one;
    then every sequence of <= 2 lookups over both frames and both properties."""
    K, V, X = 0, 1, 2
    firsts = [("list", [K, V]), ("list", [3, 8]), ("tuple", [5, 7]), ("rel", [K, V]), ("list", [])]
    lookups = [[G(f, a)] for f in (0, 1) for a in "nc"]
    lookups += [x + y for x in list(lookups) for y in list(lookups)]
    for kind, vals in firsts:
        seconds = [[["f", 0]], [["s", kind, list(vals)], ["f", 1]], [["s", kind, [X]], ["f", 1]]]
        if kind != "tuple":
            seconds += [[["app", 0, 10], ["f", 0]], [["set0", 0, X], ["f", 0]], [["pop", 0], ["f", 0]], [["f", 0], ["app", 0, X]]]
        if vals == [3, 8]:
            seconds += [[["s", "list", [4, 9]], ["f", 1]], [["s", "tuple", [5, 9]], ["f", 1]]]
        if vals == [5, 7]:
            seconds += [[["s", "tuple", [3, 6]], ["f", 1]], [["s", "list", [4, 6]], ["f", 1]]]
        for first in ([G(0, "n")], [G(0, "c")], [G(0, "n"), G(0, "c")]):
            for sec in seconds:
                for lk in lookups:
                    if quick and len(lk) == 2 and lk[0][1] == lk[1][1] == 0:
                        continue
                    yield {"k": "dfs", "ops": copy.deepcopy([["s", kind, vals], ["f", 0]] + first + sec + lk)}


def _random_dfs(rng):
    ops, kinds = [], []
    nf = 0
    for _ in range(rng.randint(4, 14)):
        r = rng.random()
        if not kinds or r < 0.2:
            kind = rng.choice(["list", "list", "tuple", "rel"])
            pool = DF_STRINGS if kind == "rel" else list(range(len(DFVALS)))
            ops.append(["s", kind, [rng.choice(pool) for _ in range(rng.randint(0, 3))]])
            kinds.append(kind)
        elif nf == 0 or r < 0.4:
            ops.append(["f", rng.randrange(len(kinds))])
            nf += 1
        elif r < 0.6:
            s = rng.randrange(len(kinds))
            if kinds[s] == "tuple":
                continue
            pool = DF_STRINGS if kinds[s] == "rel" else list(range(len(DFVALS)))
            ops.append(rng.choice([["app", s, rng.choice(pool)], ["set0", s, rng.choice(pool)], ["pop", s]]))
        else:
            ops.append(G(rng.randrange(nf), rng.choice("nc")))
    return {"k": "dfs", "ops": ops}


def interleavings(n0, n1):
    for pos in itertools.combinations(range(n0 + n1), n0):
        s = [1] * (n0 + n1)
        for p in pos:
            s[p] = 0
        yield s


def two_thread_schedules(n):
    """All interleavings of the shared-access lines of two calls when that is a small set; otherwise
    every schedule with at most three context switches (which includes 'pause one caller after k
    shared lines, run the other to completion')."""
    if math.comb(2 * n, n) <= 300:
        yield from interleavings(n, n)
        return
    for a, b in ((0, 1), (1, 0)):
        for i in range(0, n + 1):
            for j in range(0, n + 1):
                yield [a] * i + [b] * j + [a] * n + [b] * n


V = 5  # validity period of the concurrent configurations
a1, a0, a1f, kx1, mixed, unh, kwab, kwba = A([1]), A([0]), A([2]), A([], [[0, 1]]), A([1], [[0, 0]]), A([7]), A([], [[0, 1], [1, 0]]), A([], [[1, 0], [0, 1]])
CONC_CONFIGS_QUICK = [
    ([C(a0)], [a1, a1]),            # the F-C19-1 situation: cache holds other arguments, two callers with equal ones
    ([], [a1, a1]),
    ([], [a1, a0]),
    ([C(a1)], [a1, a0]),
    ([C(a1)], [a1f, a1]),
    ([C(a1), Tk(V + 1)], [a1, a1]),
    ([C(a0), Tk(V)], [a1, a0]),
]
CONC_CONFIGS_MORE = [
    ([C(kx1)], [mixed, mixed]),
    ([C(a1)], [kx1, a1]),
    ([C(unh)], [unh, a1]),
    ([C(kwab)], [kwba, kwab]),
    ([C(a0)], [kwab, kwba]),
    ([C(mixed)], [a1, mixed]),
    ([C(a0), Tk(V - 1)], [a0, a1]),
]


def corpus():
    # witness family of the fixed finding F-C19-1: one caller paused after k shared lines, the
    # other (equal arguments) run to completion, cache holding the result for other arguments
    for pre, thr in (([C(A([6]))], [A([0]), A([0])]), ([C(a0)], [a1, a1])):
        for kk in range(0, 11):
            yield {"k": "conc", "w": "sic", "valid": None, "pre": pre, "thr": thr, "sched": [0] * kk + [1] * 12 + [0] * 12}
    # witness of the fixed finding F-C19-2: caller 0 is paused after invoking f (before storing), the
    # clock moves past the validity period, caller 1 sweeps, caller 0 stores with its old timestamp
    yield {"k": "conc", "w": "lru", "max": 2, "valid": 5, "pre": [], "thr": [A([1]), A([1])], "sched": [0, 0, 0, 0, Tk(6), 1, 1]}
    for i, j in ((4, 2), (4, 1), (4, 3), (5, 2), (3, 2), (4, 0)):
        yield {"k": "conc", "w": "lru", "max": 2, "valid": 5, "pre": [C(a0)], "thr": [a1, a1], "sched": [0] * i + [Tk(6)] + [1] * j + [0] * 12}
    yield {"k": "df", "attr": "column_names", "pre": 2, "thr": [0, 1], "sched": [0, 0, 1, 1, 1, 1, 0, 0]}
    yield {"k": "sic", "valid": 1, "h": [C(a1), C(a1), Tk(1), C(a1), Tk(1), C(a1), C(a0), C(a1)]}
    yield {"k": "lru", "max": 2, "valid": 10, "h": [C(a0), Tk(1), C(a1), Tk(1), C(a0), Tk(1), C(kx1), Tk(8), C(a1), C(a0), C(kx1)]}
    # round 3: the wrapped function acts while the wrapper is inside it
    # a failing call forgets nothing: both keys held before it are still served afterwards
    yield {"k": "lrx", "max": 2, "valid": None, "h": [X(a0), X(a1), X(kx1, [], True), X(a1), X(a0)]}
    # recursive memoisation: c asks for d through the wrapper; afterwards d and c are held, a and b are not
    yield {"k": "lrx", "max": 2, "valid": None, "h": [X(a0), X(a1), X(kx1, [X(mixed)]), X(kx1), X(mixed), X(a1)]}
    yield {"k": "lrx", "max": 2, "valid": 5, "h": [X(a0), X(a1, [Tk(3), X(kx1, [X(a0), Tk(3), X(mixed, [], True)]), X(a1)]), X(a1), X(kx1)]}
    yield {"k": "sicx", "valid": None, "h": [X(a1), X(a0, [], True), X(a1), X(a0, [X(a1), X(kx1)]), X(a0), X(kx1)]}
    yield {"k": "sicx", "valid": 2, "h": [X(a1, [Tk(1), X(a1, [Tk(2)], True), X(a0)]), X(a1), Tk(2), X(a1)]}
    # round 6: a header list changed in place between two frames; ==-equal schemas spelling different names
    yield {"k": "dfs", "ops": [["s", "list", [0, 1]], ["f", 0], G(0, "n"), G(0, "c"), ["app", 0, 10], ["f", 0], G(1, "n"), G(1, "c"), G(0, "n"), G(0, "c")]}
    yield {"k": "dfs", "ops": [["s", "list", [3, 8]], ["f", 0], G(0, "n"), ["s", "list", [4, 9]], ["f", 1], G(1, "n"), ["s", "tuple", [5, 8]], ["f", 2], G(2, "n"), G(0, "n")]}
    yield {"k": "dfs", "ops": [["s", "rel", [0, 1]], ["f", 0], G(0, "n"), ["app", 0, 2], ["f", 0], G(1, "n"), G(1, "c"), G(0, "c")]}
    # round 5: one configured decorator object applied to two functions, equal arguments in succession; bare next to it
    yield {"k": "multi", "w": "sic", "valid": 60, "mk": [F0, F0, "direct"], "h": [M(0, a1), M(1, a1), M(2, a1), M(0, a1), M(1, a1), M(1, mixed), M(0, mixed)]}
    yield {"k": "multi", "w": "sic", "valid": None, "mk": [F0, F0, "bare", "bare"], "h": [M(0, a1), M(1, a1), M(2, a1), M(3, a1), M(0, a1), M(3, a1)]}
    yield {"k": "multi", "w": "lru", "max": 2, "valid": None, "mk": [F0, F0, F1], "h": [M(0, a1), M(1, a1), M(2, a1), M(1, a0), M(0, kx1), M(1, kx1), M(0, a1)]}
    yield {"k": "sic", "valid": 2, "via": "factory", "h": [C(a1), C(a1), Tk(2), C(a1), Tk(1), C(a1), C(a0)]}
    yield {"k": "lru", "max": 2, "valid": None, "via": "factory", "h": [C(a0), C(a1), C(a0), C(kx1), C(a1)]}
    # witness of the fixed finding F-C19-3: the wrapped function re-enters for the key being computed, then uses other keys;
    # the outer call's store must make its key the most recently used one (and evict accordingly)
    yield {"k": "lrx", "max": 2, "valid": 2, "h": [X(kx1, [X(kx1), X(a0)])]}
    yield {"k": "lrx", "max": 2, "valid": None, "h": [X(kx1, [X(kx1), X(a0)]), X(a1), X(kx1), X(a0)]}
    yield {"k": "lrx", "max": 3, "valid": None, "h": [X(a1), X(kx1, [X(a0), X(kx1, [X(mixed)]), X(a1)]), X(a0), X(kx1), X(mixed), X(a1)]}
    # the same between threads: both callers compute the same key, others are used in between (oracle: content at rest)
    for i in range(4, 9):
        yield {"k": "conc", "w": "lru", "max": 2, "valid": None, "pre": [C(a0)], "thr": [kx1, kx1, a1], "sched": [0] * i + [1] * 14 + [2] * 14}
    # two callers miss on a full cache, one is parked inside / just after the wrapped function while the other completes
    for i in range(4, 9):
        yield {"k": "conc", "w": "lru", "max": 2, "valid": None, "pre": [C(a0), C(a1)], "thr": [kx1, mixed], "sched": [0] * i + [1] * 14}


def _letters(v, specs):
    return [C(s) for s in specs] + [Tk(1), Tk(v)]


def exhaustive(tier):
    n = n_lines("sic", 4)
    quick = tier == "quick"

    def it():
        # sequential, single item: valid 2, ticks 1 and 2 reach below / at / above the period
        d_sic = 3 if quick else 5
        for d in range(1, d_sic + 1):
            for h in itertools.product(_letters(2, [a1, a1f, kx1, unh]), repeat=d):
                yield {"k": "sic", "valid": 2, "h": [list(e) for e in h]}
        d_lru = 3 if quick else 5
        for mx in (1, 2, 3, 4):
            for d in range(1, (d_lru if mx <= 2 else d_lru - 1) + 1):
                for h in itertools.product(_letters(2, [a1, a0, kx1]), repeat=d):
                    yield {"k": "lru", "max": mx, "valid": 2, "h": [list(e) for e in h]}
        configs = CONC_CONFIGS_QUICK + ([] if quick else CONC_CONFIGS_MORE)
        for pre, thr in configs:
            for s in two_thread_schedules(n):
                yield {"k": "conc", "w": "sic", "valid": V, "pre": pre, "thr": thr, "sched": s}
        # LRU wrapper, two callers, one context switch each way with a clock advance at the first switch
        # (the schedule family of the fixed finding F-C19-2; oracle only)
        nl = n_lines("lru", 10) - 1
        for pre, thr in (([], [a1, a1]), ([C(a0)], [a1, a1]), ([C(a1)], [a1, a0])):
            for i in range(0, nl):
                for j in range(0, nl):
                    yield {"k": "conc", "w": "lru", "max": 2, "valid": V, "pre": pre, "thr": thr,
                           "sched": [0] * i + [Tk(V + 1)] + [1] * j + [0] * 12 + [1] * 12}
        # round 6: DataFrame sessions over objects (schema objects shared, changed in place, equal but distinguishable)
        yield from dfs_family(quick)
        # round 5: several decorated functions.  Two functions, every history of depth <= 3 over {function 0 / 1} x {two packs}
        # + a tick of the validity period, for every way of making the two wrappers: one configured decorator object for
        # both (depth 3), two configured objects, decorator applied with options directly, mixed, bare (default options)
        d_m = 3 if quick else 4
        mletters = [M(j, sp) for j in (0, 1) for sp in (a1, a0)] + [Tk(2)]
        dmax = lru_default_max()
        for w in ("sic", "lru"):
            for mk, valid, mx, depth in (([F0, F0], 2, 2, d_m), ([F0, F1], 2, 2, d_m - 1), (["direct", "direct"], 2, 2, d_m - 1),
                                         ([F0, "direct"], 2, 1, d_m - 1), (["bare", "bare"], None, dmax, d_m - 1), (["bare", F0], None, dmax, d_m - 1)):
                for d in range(1, depth + 1):
                    for h in itertools.product(mletters, repeat=d):
                        if len({e[1] for e in h if e[0] == "c"}) < 2:
                            continue  # one function only: the flat histories above
                        yield {"k": "multi", "w": w, "max": mx, "valid": valid, "mk": copy.deepcopy(mk), "h": [list(e) for e in h]}
        # the two ways of applying the decorator to ONE function agree: the flat histories again through deco(**options)(f)
        for d in range(1, 4):
            for h in itertools.product(_letters(2, [a1, kx1]), repeat=d):
                yield {"k": "sic", "valid": 2, "via": "factory", "h": [list(e) for e in h]}
                yield {"k": "lru", "max": 1, "valid": 2, "via": "factory", "h": [list(e) for e in h]}
        # round 3: forests.  (i) every flat history in which each call may also fail; (ii) one call whose invocation
        # performs every body of <= 2 events (nested calls for a held key, a new key, its own key; a clock advance up to
        # the validity period), failing or not, on an empty / half-full / full cache; the single-item cache has no
        # observable content, so a probe call follows
        d_x = 3 if quick else 4
        xs = [a1, a0, kx1]
        letters = [X(sp, [], r) for sp in xs for r in (False, True)] + [Tk(1), Tk(2)]
        for d in range(1, d_x + 1):
            for h in itertools.product(letters, repeat=d):
                if not any(e[0] == "c" and e[3] for e in h):
                    continue  # never fails: already enumerated as a flat history
                for mx in (1, 2):
                    if quick and d == 3 and (mx == 1 or sum(1 for e in h if e[0] == "c" and e[3]) > 1):
                        continue
                    yield {"k": "lrx", "max": mx, "valid": 2, "h": [copy.deepcopy(e) for e in h]}
                if d <= (2 if quick else 3):
                    yield {"k": "sicx", "valid": 2, "h": [copy.deepcopy(e) for e in h]}
        inner = [X(a0), X(mixed), X(kx1), Tk(2)] + ([] if quick else [X(a1, [], True), X(a0, [X(mixed)])])
        bodies = [list(b) for n in range(0, 3) for b in itertools.product(inner, repeat=n)][1:]
        for pre in ([], [X(a1)], [X(a1), X(a0)]):
            for outer in (kx1, a1):
                for body in bodies:
                    for raises in (False, True):
                        for mx in (1, 2) if quick else (1, 2, 3):
                            yield {"k": "lrx", "max": mx, "valid": 2, "h": copy.deepcopy(pre + [X(outer, body, raises)])}
                        if len(pre) < 2:
                            for probe in ((outer, a0) if quick else (outer, a0, a1, mixed)):
                                yield {"k": "sicx", "valid": 2, "h": copy.deepcopy(pre + [X(outer, body, raises), X(probe)])}
        # LRU wrapper, full cache, two callers missing on two further keys: one is stopped after i shared lines
        # (in particular: inside / just after the wrapped function), the other after j, then both finish (oracle only)
        for mx, pre, thr in ((2, [C(a0), C(a1)], [kx1, mixed]), (1, [C(a0)], [kx1, mixed]), (2, [C(a0), C(a1)], [kx1, a0])):
            for i in range(0, nl + 3):
                for j in range(0, nl + 3):
                    if quick and (i + j) % 2 and mx == 1:
                        continue
                    yield {"k": "conc", "w": "lru", "max": mx, "valid": V, "pre": pre, "thr": thr,
                           "sched": [0] * i + [1] * j + [0] * 14 + [1] * 14}
        for attr in ("column_names", "columncount"):
            for pre, thr in ((2, [0, 1]), (0, [0, 1]), (1, [0, 1]), (2, [0, 0]), (0, [1, 1])):
                if quick and (attr == "columncount" and pre != 2):
                    continue
                for s in two_thread_schedules(n):
                    yield {"k": "df", "attr": attr, "pre": pre, "thr": thr, "sched": s}

    return it(), (("sequential: all histories of depth <= %s over {4 (sic) / 3 (lru) argument packs, tick 1, tick validity} with validity 2, "
                  "max_size 1..4; concurrent: %s of two calls (%d shared-access lines each) for %d initial-state/argument configurations, and "
                  "DataFrame.column_names/columncount across two frames; LRU wrapper: two callers, schedules 0^i tick 1^j 0* 1* for i, j < 9, "
                  "and 0^i 1^j 0* 1* (i, j < 12) on a full cache with two further keys; acting wrapped function (forests): all flat histories "
                  "of depth <= %s over 3 packs x {returns, raises} + 2 ticks with at least one failing call, max_size 1, 2 (quick tier at depth 3: "
                  "max_size 2, exactly one failing call), and one call whose "
                  "invocation performs every body of <= 2 events over {held key, new key, own key, tick} (raising or not) on an empty / "
                  "half-full / full cache; several decorated functions: two functions made by {one configured decorator object for both, "
                  "two objects, direct, mixed, bare}, every history of depth <= %s (shared object; one less otherwise) over 2 functions x 2 packs "
                  "+ tick involving both functions; flat histories of depth <= 3 through deco(**options)(f)"
                  ) % ("3" if quick else "5 (4 for max_size 3, 4)",
                     "all interleavings of the shared-access lines" if math.comb(2 * n, n) <= 300 else "all schedules with at most three context switches",
                     n, len(CONC_CONFIGS_QUICK) + (0 if quick else len(CONC_CONFIGS_MORE)), "3" if quick else "4", "3" if quick else "4"))


def _rand_hist(rng, alphabet, valid, lo=1, hi=14):
    specs = rng.sample(alphabet, rng.randint(1, min(6, len(alphabet))))
    v = 3 if valid is None else valid
    h = []
    for _ in range(rng.randint(lo, hi)):
        r = rng.random()
        if r < 0.7:
            h.append(C(rng.choice(specs)))
        else:
            h.append(Tk(rng.choice([0, 1, max(v - 1, 0), v, v + 1, 2 * v + 1])))
    return h


def _rand_sched(rng, nthr, n, ticks):
    s = []
    left = [n] * nthr
    while any(left):
        t = rng.choice([i for i in range(nthr) if left[i]])
        run = rng.randint(1, left[t]) if rng.random() < 0.5 else 1
        s += [t] * run
        left[t] -= run
        if ticks and rng.random() < 0.2:
            s.append(Tk(rng.choice([1, V - 1, V, V + 1])))
    return s


def _rand_conc(rng, w, nthr):
    n = n_lines(w, 10 if w == "lru" else 4) + (4 if w == "lru" else 0)
    alphabet = ALPHA_SIC if w == "sic" else ALPHA_HASHABLE
    specs = rng.sample(alphabet, rng.randint(1, 3))
    valid = rng.choice([None, V, V, 0])
    pre = _rand_hist(rng, specs, valid, 0, 4)
    thr = [rng.choice(specs) for _ in range(nthr)]
    return {"k": "conc", "w": w, "max": rng.randint(1, 3), "valid": valid, "pre": pre, "thr": thr,
            "sched": _rand_sched(rng, nthr, n, ticks=True)}


def _rand_stale(rng):
    """The schedule family of F-C19-2: one caller runs i shared lines (somewhere around 'has invoked f, has
    not stored yet'), the clock jumps by about the validity period, another caller with (mostly) equal
    arguments runs j lines, then everybody finishes in a random order."""
    w = rng.choice(["lru", "lru", "sic"])
    n = n_lines(w, 10 if w == "lru" else 4)
    alphabet = ALPHA_HASHABLE[:6]
    a = rng.choice(alphabet)
    nthr = rng.choice([2, 2, 3])
    thr = [a] + [a if rng.random() < 0.8 else rng.choice(alphabet) for _ in range(nthr - 1)]
    valid = rng.choice([V, V, 1, 0])
    pre = _rand_hist(rng, alphabet[:3], valid, 0, 3)
    first = rng.randrange(nthr)
    others = [t for t in range(nthr) if t != first]
    jump = Tk(rng.choice([valid, valid + 1, valid + 1, 2 * valid + 1]))
    if rng.random() < 0.7:
        # tight: `first` stops just after its call of f (clock, sweep reads, dels, lookup, call), the others
        # stop just after their sweep, `first` stores, the others go on
        held = len({repr(canon(e[1])) for e in pre if e[0] == "c"})
        i = (4 if w == "lru" else 3) + rng.randint(0, held + 1)
        sched = [first] * i + [jump]
        for t in others:
            sched += [t] * (2 + rng.randint(0, held + 1))
        sched += [first] * rng.randint(1, 2)
    else:
        sched = [first] * rng.randint(1, n) + [jump]
        for t in others:
            sched += [t] * rng.randint(0, n)
            if rng.random() < 0.3:
                sched.append(Tk(rng.choice([1, valid + 1])))
    order = list(range(nthr))
    rng.shuffle(order)
    for t in order:
        sched += [t] * rng.randint(0, n + 4)
    return {"k": "conc", "w": w, "max": rng.randint(1, 2), "valid": valid, "pre": pre, "thr": thr, "sched": sched}


def _rand_forest(rng, specs, valid, depth, lo, hi):
    v = 3 if valid is None else valid
    h = []
    for _ in range(rng.randint(lo, hi)):
        r = rng.random()
        if r < 0.75:
            body = _rand_forest(rng, specs, valid, depth - 1, 0, 3) if depth > 0 and rng.random() < 0.45 else []
            h.append(X(rng.choice(specs), body, rng.random() < 0.2))
        else:
            h.append(Tk(rng.choice([0, 1, max(v - 1, 0), v, v + 1])))
    return h


def _random_x(rng):
    c = _random_x0(rng)
    if rng.random() < 0.4:
        c["via"] = "factory"
    return c


def _random_x0(rng):
    valid = rng.choice([None, None, 0, 1, 3, 10])
    if rng.random() < 0.35:
        specs = rng.sample(ALPHA_SIC, rng.randint(1, 4))
        return {"k": "sicx", "valid": valid, "h": _rand_forest(rng, specs, valid, 2, 1, 7)}
    specs = rng.sample(ALPHA_HASHABLE, rng.randint(2, 5))
    return {"k": "lrx", "max": rng.randint(1, 4), "valid": valid, "h": _rand_forest(rng, specs, valid, 2, 1, 8)}


def _rand_full(rng):
    """LRU wrapper under the scheduler with a cache that is full (or one short) before the callers start and callers
    that mostly miss on further keys: the situations in which the size bookkeeping of concurrent misses matters."""
    mx = rng.randint(1, 3)
    keys = rng.sample(ALPHA_HASHABLE, mx + 3)
    pre = [C(k) for k in keys[:rng.choice([mx, mx, max(mx - 1, 0)])]]
    nthr = rng.choice([2, 2, 3])
    thr = [rng.choice(keys[mx:] if rng.random() < 0.8 else keys) for _ in range(nthr)]
    n = n_lines("lru", 10) + mx + 2
    return {"k": "conc", "w": "lru", "max": mx, "valid": rng.choice([None, V]), "pre": pre, "thr": thr,
            "sched": _rand_sched(rng, nthr, n, ticks=rng.random() < 0.3)}


def _random_multi(rng):
    w = rng.choice(["sic", "lru"])
    valid = rng.choice([None, None, 0, 1, 3, 10])
    mx = rng.choice([1, 2, 3, lru_default_max()])
    nf = rng.choice([2, 2, 3, 4])
    kinds = ["direct", F0, F0, F1] + (["bare"] if valid is None and (w == "sic" or mx == lru_default_max()) else [])
    mk = [copy.deepcopy(rng.choice(kinds)) for _ in range(nf)]
    specs = rng.sample(ALPHA_SIC if w == "sic" else ALPHA_HASHABLE, rng.randint(1, 3))
    v = 3 if valid is None else valid
    h = []
    for _ in range(rng.randint(2, 12)):
        if rng.random() < 0.8:
            h.append(M(rng.randrange(nf), rng.choice(specs)))
        else:
            h.append(Tk(rng.choice([0, 1, max(v - 1, 0), v, v + 1])))
    return {"k": "multi", "w": w, "max": mx, "valid": valid, "mk": mk, "h": h}


def _random_case(rng, i):
    c = _random_case0(rng, i)
    if c["k"] != "df" and rng.random() < 0.4:
        c["via"] = "factory"
    return c


def _random_case0(rng, i):
    m = i % 10
    if m < 3:
        valid = rng.choice([None, 0, 1, 3, 10])
        return {"k": "sic", "valid": valid, "h": _rand_hist(rng, ALPHA_SIC, valid)}
    if m < 6:
        valid = rng.choice([None, 0, 1, 3, 10])
        return {"k": "lru", "max": rng.randint(1, 4), "valid": valid, "h": _rand_hist(rng, ALPHA_HASHABLE, valid, 1, 18)}
    if m == 6:
        return _rand_conc(rng, "sic", 2)
    if m == 7:
        return _rand_conc(rng, "sic", 3)
    if m == 8:
        return _rand_conc(rng, "lru", rng.choice([2, 3])) if (i // 10) % 2 else _rand_stale(rng)
    n = n_lines("sic", 4)
    nthr = rng.choice([2, 3])
    return {"k": "df", "attr": rng.choice(["column_names", "columncount"]), "pre": rng.randrange(4),
            "thr": [rng.randrange(4) for _ in range(nthr)], "sched": [e for e in _rand_sched(rng, nthr, n, ticks=False)]}


def generate(rng, tier):
    count = 1000 if tier == "quick" else 20000
    for i in range(count):
        yield _random_case(rng, i)
        if i % 4 == 0:
            yield _random_x(rng)
        if i % 5 == 2:
            yield _random_multi(rng)
        if i % 5 == 3:
            yield _random_dfs(rng)
        if i % 20 == 10:
            yield _rand_full(rng)


def search(rng):
    n = n_lines("sic", 4)
    for c in corpus():
        yield c
    for pre, thr in CONC_CONFIGS_QUICK + CONC_CONFIGS_MORE:
        for a, b in ((0, 1), (1, 0)):
            for i in range(n + 1):
                yield {"k": "conc", "w": "sic", "valid": None, "pre": pre, "thr": thr, "sched": [a] * i + [b] * n + [a] * n}
    i = 0
    while True:
        yield _random_case(rng, i)
        yield _random_x(rng)
        yield _random_multi(rng)
        yield _random_dfs(rng)
        if i % 3 == 0:
            yield _rand_full(rng)
        i += 1


def _shrink_forest(h):
    for i in range(len(h)):
        yield h[:i] + h[i + 1:]
    for i, e in enumerate(h):
        if e[0] != "c":
            continue
        if e[2]:
            yield h[:i] + e[2] + h[i + 1:]          # the nested events instead of the call
            for b in _shrink_forest(e[2]):
                yield h[:i] + [[e[0], e[1], b, e[3]]] + h[i + 1:]
        if e[3]:
            yield h[:i] + [[e[0], e[1], e[2], False]] + h[i + 1:]


def shrink(case):
    k = case["k"]
    if k == "dfs":
        ops = case["ops"]
        for i in range(len(ops) - 1, -1, -1):
            if ops[i][0] in ("g", "app", "set0", "pop"):
                yield dict(case, ops=ops[:i] + ops[i + 1:])
        return
    if k == "multi":
        h = case["h"]
        for i in range(len(h)):
            yield dict(case, h=h[:i] + h[i + 1:])
        used = {e[1] for e in h if e[0] == "c"}
        for j in range(len(case["mk"]) - 1, -1, -1):
            if j not in used and len(case["mk"]) > 1:
                yield dict(case, mk=case["mk"][:j] + case["mk"][j + 1:], h=[(e if e[0] == "t" or e[1] < j else ["c", e[1] - 1, e[2]]) for e in h])
        return
    if k in ("sicx", "lrx"):
        for h in _shrink_forest(case["h"]):
            yield dict(case, h=h)
        if k == "lrx" and case["max"] > 1:
            yield dict(case, max=case["max"] - 1)
        return
    if k in ("sic", "lru"):
        h = case["h"]
        for i in range(len(h)):
            yield dict(case, h=h[:i] + h[i + 1:])
        if k == "lru" and case["max"] > 1:
            yield dict(case, max=case["max"] - 1)
        return
    s = case["sched"]
    for i in range(len(s) - 1, -1, -1):
        yield dict(case, sched=s[:i] + s[i + 1:])
    if case.get("pre") and k == "conc":
        for i in range(len(case["pre"])):
            yield dict(case, pre=case["pre"][:i] + case["pre"][i + 1:])
    if len(case["thr"]) > 2:
        for i in range(len(case["thr"])):
            yield dict(case, thr=case["thr"][:i] + case["thr"][i + 1:],
                       sched=[(e if isinstance(e, list) or e < i else e - 1) for e in s if isinstance(e, list) or e != i])
