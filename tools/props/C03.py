"""C03 - DataFrame operators agree with a list-of-tuples model.

Case:  {"frames": [{"names": ["a","b"], "typed": bool, "share": None|j, "rows": [[..],..]}, ...],
        "steps":  [{"src": i, "lazy": bool, "op": [...]}, ...]}
The environment starts as the list-backed frames of "frames"; every step applies one operator to
frame  src % len(env)  - either that DataFrame object itself or (lazy) a fresh generator-backed
DataFrame over the same rows and schema - lists the result, then lists the source, and appends the
result frame(s) to the environment.  Operators:
  ["head",k] ["tail",k] ["slice",o,k|None] ["query",pred] ["filter",[0/1..]] ["take",[i..]]
  ["select",[names]] ["select1",name] ["distinct"] ["add",other,other_lazy] ["batches",k]
  ["collect",[cols],limit|None] ["collect1",col,limit|None] ["getitem",[cols]] ["getitem1",col]
  ["row",i] ["len"] ["iter"]
Observation per step: {"out": [...], "srcs": [[names, rows], ...]}.
Column names are single lower-case letters (number = ord - 97 in Coq); values are small ints."""
import itertools

from vlib import coqlit as L

ID = "C03"
READY = True
TECHNIQUE = ("Coq proof (list induction, lia) that the code-shaped operator model equals a plain list specification, for all frames, "
             "arguments and programs + model/implementation correspondence evaluated in Coq on random operator programs and exhaustive window arguments")
LEVEL_TEXT = ("Machine-checked Coq theorems over an executable two-layer model: every DataFrame operator written the way dataframe.py writes it "
              "(materialize, Python slice clamping, negative-offset clamp, select's index loop, distinct's seen-set, to_batches over range, the "
              "compiled collector's checks, generator-backed results, CPython's list() protocol) equals its plain list specification for all "
              "frames and arguments; programs of operators agree step by step (results and source listings); a materialised source is never "
              "altered; listing/iterating yields every row once in order. The model is tied to dataframe.py by running real DataFrames through "
              "random programs (eager and generator-backed sources, names-only and RelationSchema) and all window arguments of a small scope, and "
              "evaluating both the code model and the list specification on the same programs inside Coq; a direct property oracle on the "
              "implementation supplies replayable failing inputs. Round 2: a second, object-level model (frames and generators as objects; "
              "the generator functions of select, filter and take read self._rows when first advanced) in "
              "which lazily backed results stay unforced while their sources are observed; proved for all frames: an unforced select/filter/take result of a "
              "generator-backed frame or of a lazy intermediate lists every row after its source was materialised by any operator, "
              "select/filter/take of a list-backed frame list the plain-list result whatever is done to the source in between, no object-level "
              "program alters a list-backed frame; binding when the method is called is refuted for all three; real DataFrames are run through object-level "
              "programs (generator-backed initial frames, results left unlisted, every frame listed at the end) against this model in Coq and "
              "against a strict plain-list oracle. Round 3: sessions also own a pool of the caller's list objects (column names / positions, "
              "masks, index lists) that are handed to collect / indexing / select / filter / take as the SAME object again and again on "
              "frames with different layouts, and frames are appended to in place; proved: no session alters a caller's list, collect's "
              "in-place rewrite loop (run on its copy) leaves exactly the resolved positions, no call alters a list-backed frame except an "
              "append to that frame, which adds one row to it only; the no-copy reading of collect is refuted; the harness hands real list "
              "objects round, looks at them after every call and at the end, and the oracle requires them unchanged and every result to be the "
              "plain-list result for the list's original content. Round 5: == on cell values is only assumed to be an equivalence (1 == 1.0 == "
              "True are different values); all theorems hold under that weaker hypothesis, distinct is proved to keep the first member of each "
              "class ITSELF (spec_firsts), and the correspondence runs on coded values (int / float / bool of the same number) with "
              "type-sensitive comparison of every listing, collect and row. Round 7: the row container of an initial frame may be a TUPLE of rows "
              "(an eager sequence that is not a list; third kind of _rows in the object-level model): proved for every state and every operator that "
              "looks at the rows that the call yields the plain-list operator on its rows and leaves the frame list-backed (materialize), real "
              "DataFrame(rows=tuple(...)) objects are run through every operator, window-then-collect, + in both orders with list / generator / "
              "tuple backings, and append.")
LEVEL_NOTE = ("Trusted: Coq kernel + vm_compute; the hand-written code model (validated, not verified, against CPython generator / list() / slice "
              "semantics and the shipped compiled collector by the correspondence run); in the step-language model (stream prog, theorem "
              "C03_programs) a derived lazy frame is listed at once; deferred forcing is covered by the object-level model (stream heap), whose "
              "general theorems are the list-backed invariance and the unstarted-select lemma, the rest being scenario theorems (fixed short "
              "call sequences, all frames / arguments / observing operators) - there is no all-programs equivalence with a plain-list run for "
              "generator-backed frames, because a generator that has been advanced is one-shot and the property is silent about it (oracle: "
              "status spent). F-C03-6 (filter/take bound their source when called) is fixed (75a1e72): model, theorems and oracle now require "
              "every row of a filter/take result whose source was materialised before it was first listed. Window sizes < 0, batch sizes < 1 and collect columns that do not exist "
              "are outside the program theorem (hypothesis prog_ok; the source-unchanged theorem has no such hypothesis) but inside the "
              "correspondence. collect() with a set or bool column argument, predicates/masks that raise, and ragged rows are not exercised. No axioms (Print Assumptions: closed).")
DESIGN_REF = "DESIGN.md section 8, C03"
COQ_IMPORTS = "From Orso Require Import Model.C03 Model.C03_Heap."
COQ_CHECKS = {"prog": "c03_check_both", "heap": "c03h_check", "args": "c03a_check"}
COQ_SHOW = {"prog": "c03_show", "heap": "c03h_show", "args": "c03a_show"}
MODEL_VOS = ["Model/C03.vo", "Model/C03_Heap.vo"]
RULE = ("random frames (0..12 rows x 0..4 columns of ints in -2..3, names-only or RelationSchema, one or two initial frames) and random "
        "programs of 1..6 operators, each applied to an earlier frame used as it is (list-backed) or re-wrapped as a generator-backed frame; "
        "after every step column_names and list() of the result(s) and then of the source(s) are recorded; exhaustive stream: every "
        "head/tail/slice argument in -(n+2)..n+2 on frames of n rows, eager and lazy; a case is non-trivial when some step returned at "
        "least one row; distinct by canonical JSON; object-level stream: programs of 2..8 calls on frame objects (initial frames list- or "
        "generator-backed), biased to making select/filter/take results and observing their sources before they are listed, results never "
        "listed when made, every frame listed once at the end; exhaustive: source backing x derived frame x observation(s) before first listing; "
        "sessions with caller-owned lists: 600 random programs in which 45% of the calls are handed one of 3-4 pool objects (reordered column "
        "subsets, sometimes with positions, a mask, an index list) and 8% append a row; exhaustive: one column list x pairs/triples of "
        "collect/indexing/select on two frames with different layouts and on the projection; every frame-returning operator x append to source/result; "
        "round 7: initial frames backed by a tuple of rows (20% of the random object-level programs; exhaustive: 0/1/3-row tuple-backed frame x every "
        "operator, x derived frame x operator needing a list, + over all backing pairs in both orders, append before/after materialize)")
TRUSTED = [
    "C03 code model (coq/Model/C03.v, coq/Base/PySlice.v): modelled, not verified: CPython slice clamping, list.index, zip/enumerate over a "
    "generator, set membership of int tuples, range(), list(x) = iter + length hint + drain, numpy object-array shape of collect_cython",
    "two RelationSchema objects are equal only if they are the same object (random column identities): modelled by a schema id",
    "cell values are coded 4n+t (t: int/float/bool) for Coq; Python's == on them is modelled as equality of n (zveq), the harness's "
    "canonicalisation _cv keeps the Python type of every observed cell",
    "C03 object-level model (coq/Model/C03_Heap.v): modelled, not verified: a generator function reads its closure's attributes when first "
    "advanced, a generator expression evaluates its outermost iterable when created, iter(generator) is the generator, iter(list) is private, "
    "zip asks its first argument first, a finished generator stays finished; fuel (hfuel) proved sufficient for the generators the theorems meet",
    "C03 session model (section Args of coq/Model/C03_Heap.v): modelled, not verified: which Python objects a call is handed (the harness passes "
    "pool objects by identity), list(columns) makes a new object, item assignment changes the object it is applied to, append() needs a "
    "list and (RelationSchema) a dictionary; a list iterator is modelled as the rows it has yet to give, so cases that append to a frame "
    "after a lazily backed frame was derived from it are judged by the Python oracle only (label heap:oracle-only)",
]
ASSUMPTIONS = [
    "row values compare with an equivalence (Python ==, hypothesis veq_equiv: reflexive, symmetric, transitive - NOT identity); the harness uses "
    "small ints (including -1 and -2, equal hashes) and, since round 5, the equal-but-distinguishable values n / n.0 / True / False; NaN, "
    "Decimal, and a Row instance vs an equal plain tuple are not exercised (listings compare cell values and their types, not row objects)",
    "frames are rectangular (every row as wide as the schema): a ragged row is C10's subject",
    "stream prog / C03_programs: a derived generator-backed frame is listed before anything else touches its source (stream heap and the "
    "C03_unforced_* theorems drop this)",
    "object-level oracle: a generator-backed frame whose generator has been advanced (iterated, queried, pulled by a derived frame) is one-shot: "
    "only 'a tail of its rows is left' is required of it and of frames derived from it",
]
KNOWN_WITNESSES = {}

VALUES = [-2, -1, 0, 1, 2, 3]
# round 5: values that are == (and hash alike) yet distinguishable: 1 / 1.0 / True ...
MIXED = [0, 0.0, False, 1, 1.0, True, 2, 2.0, -1, -1.0]


def _cv(v):
    """canonical cell value of an observation, TYPE-PRESERVING: bool, integral float or int (JSON keeps the three apart)"""
    if isinstance(v, bool) or type(v).__name__ == "bool_":
        return bool(v)
    if isinstance(v, float) or type(v).__name__.startswith("float"):
        f = float(v)
        if f != f or f in (float("inf"), float("-inf")) or f != int(f):
            raise ValueError("harness: unexpected float %r" % (v,))
        return f
    if isinstance(v, int) or hasattr(v, "__index__"):
        return int(v)
    raise ValueError("harness: unexpected cell value %r of type %s" % (v, type(v).__name__))


def _code(v):
    """the Coq model's coded value: 4 * n + t, t = 0 int, 1 float, 2 bool"""
    if isinstance(v, bool):
        return 4 * int(v) + 2
    if isinstance(v, float):
        return 4 * int(v) + 1
    return 4 * int(v)


def _x(a):
    """deep copy in which equal-but-distinguishable values no longer compare equal (True == 1 == 1.0 in Python):
    every comparison of observed with required values goes through it"""
    if isinstance(a, (list, tuple)):
        return [_x(b) for b in a]
    if isinstance(a, bool):
        return "bool:%d" % a
    if isinstance(a, float):
        return "float:%r" % a
    return a
EXN = {"ValueError": "ValueError", "IndexError": "IndexError", "TypeError": "TypeError"}
MATERIALISING = {"head", "tail", "slice", "add", "batches", "collect", "collect1", "getitem", "getitem1", "row", "len"}


# ----------------------------------------------------------------------------- predicates
def _pred(code):
    k = code[0]
    if k == "true":
        return lambda r: True
    if k == "false":
        return lambda r: False
    if k == "summod":
        return lambda r: sum(r) % code[1] == code[2]
    if k == "headle":
        return lambda r: len(r) > 0 and r[0] <= code[1]
    if k == "lasteq":
        return lambda r: len(r) > 0 and r[-1] == code[1]
    raise KeyError(k)


def _coq_pred(code):
    k = code[0]
    if k == "true":
        return "PTrue"
    if k == "false":
        return "PFalse"
    if k == "summod":
        return "(PSumMod %s %s)" % (L.Z(code[1]), L.Z(code[2]))
    if k == "headle":
        return "(PHeadLe %s)" % L.Z(code[1])
    if k == "lasteq":
        return "(PLastEq %s)" % L.Z(code[1])
    raise KeyError(k)


# ----------------------------------------------------------------------------- implementation runner
def _schemas(frames):
    from orso.schema import FlatColumn, RelationSchema
    from orso.types import OrsoTypes

    out = []
    for j, f in enumerate(frames):
        if not f["typed"]:
            out.append(list(f["names"]))
        elif f.get("share") is not None and f["share"] < j and frames[f["share"]]["typed"] and frames[f["share"]]["names"] == f["names"]:
            out.append(out[f["share"]])
        else:
            out.append(RelationSchema(name="t%d" % j, columns=[FlatColumn(name=n, type=OrsoTypes.INTEGER) for n in f["names"]]))
    return out


def _schema_id(frames, j):
    """index of the initial frame whose schema object frame j uses"""
    f = frames[j]
    if f["typed"] and f.get("share") is not None and f["share"] < j and frames[f["share"]]["typed"] and frames[f["share"]]["names"] == f["names"]:
        return _schema_id(frames, f["share"])
    return j


def _listing(df):
    try:
        names = [str(n) for n in df.column_names]
        rows = [[_cv(v) for v in r] for r in list(df)]
        return [names, rows]
    except Exception as e:  # listing raised
        return ["!raise", type(e).__name__]


def _cols_arg(cols):
    return [c for c in cols]


def observe(case):
    from orso.dataframe import DataFrame

    if "hsteps" in case:
        return _observe_heap(case)
    schemas = _schemas(case["frames"])
    env = [DataFrame(rows=[tuple(r) for r in f["rows"]], schema=s) for f, s in zip(case["frames"], schemas)]
    out = []

    def fetch(i, lz):
        df = env[i]
        if lz:
            rows = list(df)
            return DataFrame(rows=(r for r in rows), schema=df._schema)
        return df

    for st in case["steps"]:
        i = st["src"] % len(env)
        a = fetch(i, st["lazy"])
        srcs = [a]
        op = st["op"]
        k = op[0]
        new = []
        try:
            if k == "head":
                r = a.head(op[1]); new = [r]; o = ["frame"] + _listing(r)
            elif k == "tail":
                r = a.tail(op[1]); new = [r]; o = ["frame"] + _listing(r)
            elif k == "slice":
                r = a.slice(op[1]) if op[2] is None else a.slice(op[1], op[2]); new = [r]; o = ["frame"] + _listing(r)
            elif k == "query":
                r = a.query(_pred(op[1])); new = [r]; o = ["frame"] + _listing(r)
            elif k == "filter":
                r = a.filter([bool(m) for m in op[1]]); new = [r]; o = ["frame"] + _listing(r)
            elif k == "take":
                r = a.take(list(op[1])); new = [r]; o = ["frame"] + _listing(r)
            elif k == "select":
                r = a.select(list(op[1])); new = [r]; o = ["frame"] + _listing(r)
            elif k == "select1":
                r = a.select(op[1]); new = [r]; o = ["frame"] + _listing(r)
            elif k == "distinct":
                r = a.distinct(); new = [r]; o = ["frame"] + _listing(r)
            elif k == "add":
                j = op[1] % len(env)
                b = a if (j == i and bool(op[2]) == bool(st["lazy"])) else fetch(j, op[2])
                srcs = [a, b]
                r = a + b; new = [r]; o = ["frame"] + _listing(r)
            elif k == "batches":
                bs = list(a.to_batches(op[1])); new = bs; o = ["frames", [_listing(b) for b in bs]]
            elif k in ("collect", "getitem"):
                c = a.collect(_cols_arg(op[1]), op[2]) if k == "collect" else a[_cols_arg(op[1])]
                o = ["cols", [[_cv(v) for v in col] for col in c]]
            elif k in ("collect1", "getitem1"):
                c = a.collect(op[1], op[2]) if k == "collect1" else a[op[1]]
                o = ["col", [_cv(v) for v in c]]
            elif k == "row":
                o = ["row", [_cv(v) for v in a.row(op[1])]]
            elif k == "len":
                o = ["nat", len(a)]
            elif k == "iter":
                o = ["rows", [[_cv(v) for v in r] for r in a]]
            else:
                raise KeyError(k)
        except KeyError:
            raise
        except Exception as e:  # the call (or listing its result) raised
            o = ["raise", type(e).__name__]
            new = []
        if o[0] == "frame" and o[1] == "!raise":
            o = ["raise", o[2]]
            new = []
        if o[0] == "frames" and any(b[0] == "!raise" for b in o[1]):
            o = ["raise", [b for b in o[1] if b[0] == "!raise"][0][1]]
            new = []
        ls = [_listing(s) for s in srcs]
        out.append({"out": o, "srcs": ls})
        env.extend(new)
    return out


# ----------------------------------------------------------------------------- the property, on plain lists
class _Plain:
    """The reference: an environment of (names, schema id | None, rows) and the operators on
    plain lists, written from the property's sentence (not from the Coq model)."""

    def __init__(self, case):
        fr = case["frames"]
        self.env = [(list(f["names"]), (_schema_id(fr, j) if f["typed"] else None), [list(r) for r in f["rows"]]) for j, f in enumerate(fr)]

    def expect(self, st):
        """-> (kind, value) with kind in frame / frames / cols / col / row / rows / nat / raise / free
        ('free' = the property does not say), plus what to append to the environment"""
        i = st["src"] % len(self.env)
        names, sid, rows = self.env[i]
        n = len(rows)
        op = st["op"]
        k = op[0]
        if k == "head":
            return ("frame", [names, rows[: op[1]]], sid) if op[1] >= 0 else ("free", None, sid)
        if k == "tail":
            return ("frame", [names, rows[n - min(op[1], n):]], sid) if op[1] >= 0 else ("free", None, sid)
        if k == "slice":
            off, ln = op[1], op[2]
            start = max(0, n + off) if off < 0 else off
            if ln is None:
                return ("frame", [names, rows[start:]], sid)
            if ln < 0:
                return ("free", None, sid)
            return ("frame", [names, rows[start:][:ln]], sid)
        if k == "query":
            p = _pred(op[1])
            return ("frame", [names, [r for r in rows if p(r)]], sid)
        if k == "filter":
            return ("frame", [names, [rows[j] for j in range(min(n, len(op[1]))) if op[1][j]]], sid)
        if k == "take":
            return ("frame", [names, [rows[j] for j in range(n) if j in op[1]]], sid)
        if k in ("select", "select1"):
            want = list(op[1]) if k == "select" else [op[1]]
            if any(w not in names for w in want):
                return ("raise", None, None)
            ps = [names.index(w) for w in want]
            return ("frame", [want, [[r[p] for p in ps] for r in rows]], None)
        if k == "distinct":
            keep = []
            for r in rows:
                if not any(r == q for q in keep):
                    keep.append(r)
            return ("frame", [names, keep], sid)
        if k == "add":
            names2, sid2, rows2 = self.env[op[1] % len(self.env)]
            same = (sid == sid2 and names == names2) if (sid is None or sid2 is None) else sid == sid2
            if not same:
                return ("free", None, None)
            return ("frame", [names, rows + rows2], sid)
        if k == "batches":
            if op[1] < 1:
                return ("free", None, sid)
            full, rem = divmod(n, op[1])
            bs = [rows[j * op[1]: (j + 1) * op[1]] for j in range(full)] + ([rows[full * op[1]:]] if rem else [])
            return ("frames", [[names, b] for b in bs], sid)
        if k in ("collect", "getitem", "collect1", "getitem1"):
            cols = list(op[1]) if k in ("collect", "getitem") else [op[1]]
            limit = op[2] if k in ("collect", "collect1") else None
            ps = []
            for c in cols:
                if isinstance(c, str):
                    if c not in names:
                        return ("free", None, None)
                    ps.append(names.index(c))
                else:
                    if not (0 <= c < len(names)):
                        return ("free", None, None)
                    ps.append(c)
            part = rows if (limit is None or limit < 0) else rows[:limit]
            table = [[r[p] for r in part] for p in ps]
            return ("cols", table, None) if k in ("collect", "getitem") else ("col", table[0], None)
        if k == "row":
            if -n <= op[1] < n:
                return ("row", rows[op[1]], None)
            return ("free", None, None)
        if k == "len":
            return ("nat", n, None)
        if k == "iter":
            return ("rows", rows, None)
        raise KeyError(k)


def oracle(case, obs):
    if "hsteps" in case:
        return _oracle_heap(case, obs)
    P = _Plain(case)
    for t, (st, ob) in enumerate(zip(case["steps"], obs)):
        where = f"step {t} {st['op']} on frame {st['src'] % len(P.env)}{' (generator-backed copy)' if st['lazy'] else ''}"
        i = st["src"] % len(P.env)
        names, sid, rows = P.env[i]
        kind, want, rsid = P.expect(st)
        o = ob["out"]
        # ---- the result
        if kind == "free":
            pass
        elif kind == "raise":
            if o[0] != "raise":
                return f"{where}: a column that does not exist was requested, yet a result came back: {o}"
        else:
            if o[0] == "raise":
                return f"{where}: raised {o[1]}; required {kind} {want}"
            got = o[1:] if kind == "frame" else o[1]
            if o[0] != kind or _x(got) != _x(want):
                return f"{where}: required {kind} {want}, got {o}"
        # ---- the source(s): a materialised source is never altered; a generator-backed one is
        # complete after an operator that materialises it and otherwise has at most a tail left
        srcs = [(names, rows, st["lazy"])]
        if st["op"][0] == "add":
            j = st["op"][1] % len(P.env)
            srcs.append((P.env[j][0], P.env[j][2], bool(st["op"][2])))
        if len(ob["srcs"]) != len(srcs):
            return f"{where}: harness recorded {len(ob['srcs'])} sources"
        for (snames, srows, lz), got in zip(srcs, ob["srcs"]):
            if got[0] == "!raise":
                return f"{where}: listing the source raised {got[1]}"
            if got[0] != snames:
                return f"{where}: source column names changed from {snames} to {got[0]}"
            if not lz or (st["op"][0] in MATERIALISING and o[0] != "raise"):
                if _x(got[1]) != _x(srows):
                    return f"{where}: source rows must still be {srows}, listing gave {got[1]}"
            else:
                if _x(got[1]) != _x(srows[len(srows) - len(got[1]):]):
                    return f"{where}: a generator-backed source may only have a tail of its rows left, listing gave {got[1]} of {srows}"
        # ---- extend the reference environment (with the observed value where the property is silent)
        if o[0] == "frame":
            if kind == "frame":
                P.env.append((want[0], rsid, want[1]))
            else:
                P.env.append((o[1], rsid if kind == "free" else None, o[2]))
        elif o[0] == "frames":
            for b in (want if kind == "frames" else o[1]):
                P.env.append((b[0], sid, b[1]))
    return None


# ----------------------------------------------------------------------------- Coq literals
def _nm(s):
    if isinstance(s, str) and len(s) == 1 and "a" <= s <= "z":
        return L.N(ord(s) - 97)
    return L.N(99)      # not a name the harness ever uses: never equal to a model name


def _names(ns):
    return "(%s : list N)" % L.lst(_nm(x) for x in ns)


def _row(r):
    return L.lst(L.Z(_code(v)) for v in r)


def _rows(rs):
    return "(%s : list (list Z))" % L.lst(_row(r) for r in rs)


def _listing_coq(x):
    if x[0] == "!raise":
        return "(([99%N] : list N), ([[(-99)%Z]] : list (list Z)))"  # never equal to a model listing
    return "(%s, %s)" % (_names(x[0]), _rows(x[1]))


def _colref(c):
    return "(CName %s)" % _nm(c) if isinstance(c, str) else "(CIdx %s)" % L.Z(c)


def _coq_op(op):
    k = op[0]
    if k == "head":
        return "(Head %s)" % L.Z(op[1])
    if k == "tail":
        return "(Tail %s)" % L.Z(op[1])
    if k == "slice":
        return "(Slice %s %s)" % (L.Z(op[1]), L.opt(None if op[2] is None else L.Z(op[2])))
    if k == "query":
        return "(Query (pred_of %s))" % _coq_pred(op[1])
    if k == "filter":
        return "(Filter %s)" % L.lst(L.boolean(m) for m in op[1])
    if k == "take":
        return "(Take %s)" % L.lst(L.Z(i) for i in op[1])
    if k == "select":
        return "(Select %s)" % _names(op[1])
    if k == "select1":
        return "(Select %s)" % _names([op[1]])
    if k == "distinct":
        return "Distinct"
    if k == "add":
        return "(AddF %s %s)" % (L.nat(op[1]), L.boolean(op[2]))
    if k == "batches":
        return "(Batches %s)" % L.Z(op[1])
    if k == "collect":
        return "(Collect %s %s)" % (L.lst(_colref(c) for c in op[1]), L.opt(None if op[2] is None else L.Z(op[2])))
    if k == "collect1":
        return "(Collect1 %s %s)" % (_colref(op[1]), L.opt(None if op[2] is None else L.Z(op[2])))
    if k == "getitem":
        return "(GetItem %s)" % L.lst(_colref(c) for c in op[1])
    if k == "getitem1":
        return "(GetItem1 %s)" % _colref(op[1])
    if k == "row":
        return "(RowAt %s)" % L.Z(op[1])
    if k == "len":
        return "Len"
    if k == "iter":
        return "Iterate"
    raise KeyError(k)


def _coq_out(o):
    k = o[0]
    if k == "frame":
        return "(OFrame %s)" % _listing_coq(o[1:])
    if k == "frames":
        return "(OFrames %s)" % L.lst(_listing_coq(b) for b in o[1])
    if k == "cols":
        return "(OCols %s)" % _rows(o[1])
    if k == "col":
        return "(OCol %s)" % _row(o[1])
    if k == "row":
        return "(ORow %s)" % _row(o[1])
    if k == "rows":
        return "(ORows %s)" % _rows(o[1])
    if k == "nat":
        return "(ONat %s)" % L.nat(o[1])
    if k == "raise":
        return "(ORaise %s)" % EXN.get(o[1], "TypeError")
    raise KeyError(k)


def to_coq(case, obs):
    if "hsteps" in case:
        return _to_coq_heap(case, obs)
    fr = case["frames"]
    env = []
    for j, f in enumerate(fr):
        kind = "(Typed %s)" % L.nat(_schema_id(fr, j)) if f["typed"] else "Untyped"
        env.append("(mkSF (mkS %s %s) %s)" % (kind, _names(f["names"]), _rows(f["rows"])))
    prog = ["(mkStep %s %s %s)" % (L.nat(s["src"]), L.boolean(s["lazy"]), _coq_op(s["op"])) for s in case["steps"]]
    seen = ["(mkObs %s %s)" % (_coq_out(o["out"]), L.lst(_listing_coq(x) for x in o["srcs"])) for o in obs]
    term = "((%s : list (sframe Z N)), (%s : list zstep), (%s : list zobs))" % (L.lst(env), L.lst(prog), L.lst(seen))
    return ("prog", term)


def known(case, obs):
    return None


def nontrivial_key(case, obs):
    def some_row(o):
        if o[0] == "frame":
            return bool(o[2])
        if o[0] == "frames":
            return any(b[1] for b in o[1])
        if o[0] in ("cols", "col", "row", "rows"):
            return bool(o[1])
        return False

    if "hsteps" in case:
        if not any(o[0] == "rows" and o[1] for o in obs["steps"]) and not any(x[0] != "!raise" and x[1] for x in obs["final"]):
            return None
        return repr((case["frames"], case.get("pool"), case["hsteps"]))
    if not any(some_row(o["out"]) for o in obs):
        return None
    return repr((case["frames"], case["steps"]))


def classify(case, obs):
    if "hsteps" in case:
        yield from _classify_heap(case, obs)
        return
    for f in case["frames"]:
        yield "schema:" + ("RelationSchema" if f["typed"] else "names")
        yield "rows=%s" % ("0" if not f["rows"] else "1-3" if len(f["rows"]) <= 3 else "4-8" if len(f["rows"]) <= 8 else "9-12")
        yield "cols=%d" % len(f["names"])
    yield "steps=%d" % len(case["steps"])
    nenv = len(case["frames"])
    for st, ob in zip(case["steps"], obs):
        yield "op:" + st["op"][0] + (":lazy-source" if st["lazy"] else ":eager-source")
        if ob["out"][0] == "raise":
            yield "raised:" + str(ob["out"][1])
        if st["src"] % nenv >= len(case["frames"]):
            yield "source-is-an-earlier-result"
        nenv += 1 if ob["out"][0] == "frame" else len(ob["out"][1]) if ob["out"][0] == "frames" else 0


# ----------------------------------------------------------------------------- generators
def _frame(names, rows, typed=False, share=None):
    return {"names": list(names), "typed": typed, "share": share, "rows": [list(r) for r in rows]}


def _one(frame, op, lazy=False, src=0):
    return {"frames": [frame], "steps": [{"src": src, "lazy": lazy, "op": op}]}


def corpus():
    three = _frame("a", [[0], [1], [2]])
    ab = _frame("ab", [[1, 2], [3, 4], [5, 6]])
    # F-C03-1 tail(k) / slice(-k) with k > rowcount
    for lz in (False, True):
        yield _one(three, ["tail", 5], lz)
        yield _one(three, ["slice", -5, None], lz)
        yield _one(three, ["slice", -5, 2], lz)
        yield _one(three, ["slice", -4, 4], lz)
    # F-C03-2 select in requested order under requested names
    for lz in (False, True):
        yield _one(ab, ["select", ["b", "a"]], lz)
        yield _one(_frame("abc", [[1, 2, 3], [4, 5, 6]], typed=True), ["select", ["c", "a"]], lz)
    # F-C03-3 distinct on rows with equal hashes
    for lz in (False, True):
        yield _one(_frame("a", [[-1], [-2]]), ["distinct"], lz)
        yield _one(_frame("ab", [[-1, 0], [-2, 0], [-1, 0], [0, -2], [0, -1]]), ["distinct"], lz)
    # F-C03-4 list(lazy frame): generator-backed results and sources
    yield _one(ab, ["select", ["a"]], False)
    yield _one(ab, ["filter", [1, 0, 1]], False)
    yield _one(ab, ["take", [0, 2]], False)
    yield _one(ab, ["filter", [1]], True)
    yield _one(ab, ["len"], True)
    yield _one(ab, ["iter"], True)
    yield _one(ab, ["select1", "b"], True)
    # F-C03-5 lazy + lazy
    yield {"frames": [ab, _frame("ab", [[7, 8]])], "steps": [{"src": 0, "lazy": True, "op": ["add", 1, True]}]}
    yield {"frames": [ab], "steps": [{"src": 0, "lazy": True, "op": ["add", 0, True]}]}
    yield {"frames": [ab], "steps": [{"src": 0, "lazy": True, "op": ["add", 0, False]}]}
    yield {"frames": [ab], "steps": [{"src": 0, "lazy": False, "op": ["add", 0, False]}]}
    # a composition reaching every kind of operator
    yield {"frames": [_frame("abc", [[1, 2, 3], [1, 2, 3], [-1, 0, 2], [-2, 0, 2], [3, 3, 3]], typed=True)],
           "steps": [{"src": 0, "lazy": True, "op": ["select", ["c", "a"]]},
                     {"src": 1, "lazy": False, "op": ["distinct"]},
                     {"src": 2, "lazy": True, "op": ["tail", 9]},
                     {"src": 3, "lazy": False, "op": ["batches", 2]},
                     {"src": 5, "lazy": False, "op": ["add", 4, True]},
                     {"src": 6, "lazy": True, "op": ["collect", ["a", 0], 2]}]}
    # round 2: lazily backed results that stay unforced while their source is observed
    g = _hframe("abc", [[1, 2, 3], [4, 5, 6], [7, 8, 9], [10, 11, 12]], gen=True)
    e = _hframe("abc", [[1, 2, 3], [4, 5, 6], [7, 8, 9], [10, 11, 12]])
    yield _hcase([g], [(0, ["select", ["c", "a"]]), (0, ["len"]), (1, ["list"])])
    yield _hcase([e], [(0, ["select", ["b", "a", "c"]]), (1, ["select", ["a"]]), (1, ["select", ["c", "b"]]), (1, ["rowcount"]), (2, ["list"]), (3, ["len"])])
    yield _hcase([g], [(0, ["select", ["a"]]), (0, ["select", ["b"]]), (0, ["mat"])])
    yield _hcase([e], [(0, ["filter", [1, 0, 1, 1]]), (0, ["take", [3, 0]]), (0, ["head", 1]), (0, ["distinct"]), (2, ["select1", "b"])])
    yield _hcase([g], [(0, ["filter", [1]]), (1, ["list"]), (0, ["select", ["a"]])])
    yield _hcase([g, _hframe("abc", [[0, 0, 0]])], [(0, ["select", ["a", "b", "c"]]), (0, ["add", 1]), (2, ["add", 2])])
    # F-C03-6 (fixed 75a1e72): filter / take of a generator-backed frame (or of a lazy intermediate) that is
    # materialised before the derived frame is first listed
    yield _hcase([_hframe("ab", H_ROWS, gen=True)], [(0, ["filter", [1, 1, 1]]), (0, ["len"])])
    # round 7: the row container is a tuple - collect / indexing / + / windows need materialize() to have made it a list
    yield _hcase([_hframe("ab", H_ROWS, tup=True), _hframe("ab", [[9, 0]])],
                 [(0, ["collect1", "a", None]), (0, ["add", 1]), (1, ["add", 0]), (0, ["slice", 1, 2]), (4, ["collect1", 0, None]), (0, ["batches", 2]), (6, ["getitem1", "b"])])
    yield _hcase([_hframe("ab", H_ROWS, tup=True), _hframe("ab", [[9, 0]])], [(1, ["add", 0]), (0, ["tail", 2]), (3, ["add", 1])])
    yield _hcase([_hframe("ab", H_ROWS, gen=True)], [(0, ["take", [0, 1, 2]]), (0, ["rowcount"]), (1, ["list"])])
    yield _hcase([_hframe("ab", H_ROWS)], [(0, ["select", ["a", "b"]]), (1, ["filter", [1, 0, 1]]), (1, ["take", [2, 0]]), (1, ["head", 9]),
                                            (2, ["list"]), (3, ["len"])])
    # round 3: one caller-owned list of column names handed to collect, select, collect on the projection, indexing of a reordered frame
    yield dict(_hcase([_hframe("abc", [[1, 2, 3], [4, 5, 6]]), _hframe("cba", [[3, 2, 1], [6, 5, 4]])],
                      [(0, ["collect", {"ref": 0}, None]), (0, ["select", {"ref": 0}]), (2, ["mat"]), (2, ["collect", {"ref": 0}, None]),
                       (0, ["getitem", {"ref": 1}]), (1, ["getitem", {"ref": 1}])]),
               pool=[["c", "a"], ["b", "c"]])
    yield _hcase([_hframe("abc", [[1, 2, 3], [4, 5, 6]])], [(0, ["head", 1]), (0, ["append", [7, 8, 9]]), (1, ["append", [0, 0, 0]]), (0, ["slice", 0, None]),
                                                         (2, ["append", [1, 1, 1]]), (0, ["add", 0]), (0, ["append", [2, 2, 2]])])


def _window_cases(nmax):
    for n in range(0, nmax + 1):
        fr = _frame("a", [[j] for j in range(n)])
        rng_ = range(-(n + 2), n + 3)
        for lz in (False, True):
            for k in rng_:
                yield _one(fr, ["head", k], lz)
                yield _one(fr, ["tail", k], lz)
                yield _one(fr, ["slice", k, None], lz)
                yield _one(fr, ["row", k], lz)
                yield _one(fr, ["batches", k], lz)
                yield _one(fr, ["collect", [0], k], lz)
                for ln in rng_:
                    yield _one(fr, ["slice", k, ln], lz)


def _tuple_cases(tier):
    """round 7: the row container handed to DataFrame(rows=...) is a TUPLE (an eager sequence that is not a list).  Every operator
    directly on such a frame; every window / batch / copy of it followed by collect, indexing, row, + ; + with a list-, generator- and
    tuple-backed frame in either order (and with itself); append() before and after the frame was materialised; zero rows (an empty tuple
    is replaced by a list in the constructor) and one row"""
    for rows in ([], [[1, 2]], H_ROWS):
        n = len(rows)
        T = lambda typed=False, share=None: _hframe("ab", rows, tup=True, typed=typed, share=share)  # noqa: E731
        direct = [["len"], ["rowcount"], ["mat"], ["list"], ["iter"], ["head", 2], ["tail", 2], ["slice", 1, None], ["slice", -2, 1], ["slice", 0, 0],
                  ["query", ["true"]], ["distinct"], ["batches", 2], ["batches", 3], ["collect", ["b", "a"], None], ["collect", ["a"], 2], ["collect", [1], 0],
                  ["collect1", "a", None], ["collect1", 0, 1], ["getitem", ["b", "a"]], ["getitem1", "b"], ["row", 0], ["row", -1], ["row", n],
                  ["select", ["b", "a"]], ["select1", "b"], ["filter", [1, 0, 1]], ["take", [2, 0]], ["add", 0], ["append", [7, 8]]]
        for op in direct:
            yield _hcase([T()], [(0, op)])
            if tier != "quick" or n == 3:
                yield _hcase([T(typed=True)], [(0, op)])
        # a derived frame of the tuple-backed one, then something that needs a list
        derive = [["head", 2], ["tail", 2], ["slice", 1, 2], ["slice", 0, None], ["batches", 2], ["query", ["true"]], ["distinct"], ["select", ["b", "a"]],
                  ["filter", [1, 1, 1]], ["take", [0, 1, 2]], ["add", 0]]
        then = [["collect", ["a"], None], ["collect1", "b", 1], ["getitem1", "a"], ["row", 0], ["add", 0], ["add", 1], ["batches", 1], ["tail", 1], ["append", [7, 8]], ["len"]]
        for dv in derive:
            for th in then:
                if dv[0] == "select" and th[0] in ("add", "collect1", "getitem1", "collect"):
                    th = ["collect1", "a", None] if th[0] != "add" else ["add", 1]
                yield _hcase([T()], [(0, dv), (1, th)])
        # + : every pair of backings, both orders, sharing one schema object when typed; then the operands once more
        kinds = [dict(), dict(gen=True), dict(tup=True)]
        for ka in kinds:
            for kb in kinds:
                if not (ka.get("tup") or kb.get("tup")):
                    continue
                for typed in (False, True):
                    A = _hframe("ab", rows, typed=typed, **ka)
                    B = _hframe("ab", [[9, 0]], typed=typed, share=0 if typed else None, **kb)
                    yield _hcase([A, B], [(0, ["add", 1]), (2, ["collect1", "a", None]), (1, ["add", 0]), (0, ["add", 0])])
                    yield _hcase([A, B], [(1, ["add", 0]), (0, ["tail", 2]), (1, ["slice", 0, None]), (3, ["add", 4]), (4, ["add", 3])])
        # append: refused while the container is a tuple, lands in this frame only once it is a list
        yield _hcase([T()], [(0, ["append", [7, 8]]), (0, ["len"]), (0, ["append", [7, 8]]), (0, ["head", 9]), (1, ["append", [0, 0]])])
        yield _hcase([T()], [(0, ["iter"]), (0, ["query", ["true"]]), (0, ["distinct"]), (0, ["append", [7, 8]]), (0, ["mat"]), (0, ["append", [7, 8]])])
        # lazily backed children made while the container is a tuple, the source materialised before they are listed
        yield _hcase([T()], [(0, ["select", ["b"]]), (0, ["filter", [1, 0, 1]]), (0, ["take", [1]]), (0, ["len"]), (0, ["append", [7, 8]])])
        # the caller's lists handed to a tuple-backed frame
        yield dict(_hcase([T(), _hframe("ba", [[5, 6]], tup=True)], [(0, ["collect", {"ref": 0}, None]), (1, ["getitem", {"ref": 0}]), (0, ["select", {"ref": 0}]),
                                                                    (0, ["take", {"ref": 1}]), (0, ["collect", {"ref": 1}, 1])]), pool=[["b", "a"], [1, 0]])


def _distinct_cases(tier):
    """every short sequence of rows over values that are equal but distinguishable, through distinct - on a list-backed frame, on
    a generator-backed copy, and (object level) followed by collect of the surviving values"""
    U = [1, 1.0, True, 2, 2.0] + ([0, 0.0, False] if tier != "quick" else [])
    for n in (1, 2, 3):
        for seq in itertools.product(U, repeat=n):
            fr = _frame("a", [[v] for v in seq])
            for lz in (False, True):
                yield _one(fr, ["distinct"], lz)
            if n <= 2:
                for gen in (False, True):
                    yield _hcase([_hframe("ab", [[v, 7] for v in seq] + [[seq[0], 7.0]], gen=gen)],
                                 [(0, ["distinct"]), (1, ["collect1", "a", None]), (1, ["row", 0]), (0, ["select1", "b"]), (3, ["distinct"])])


def exhaustive(tier):
    nmax = 3 if tier == "quick" else 5
    return itertools.chain(_window_cases(nmax), _deferred_cases(tier), _aliasing_cases(tier), _distinct_cases(tier), _tuple_cases(tier)), (
        f"every head/tail/slice(offset)/slice(offset,length)/row/to_batches/collect-limit argument in -(n+2)..n+2 "
        f"on one-column frames of n = 0..{nmax} rows, list-backed and generator-backed; every combination of source backing "
        f"(list, generator, select/filter/take result) x derived frame (select, filter, take, head, distinct) x observation(s) of the "
        f"source or of a sibling made before the derived frame is first listed; one caller-owned column list (5 contents) handed to every "
        f"pair / triple of collect, indexing, select calls on two frames with different column layouts (and on the projection); every "
        f"frame-returning operator followed by append() to the source, the result or both; every sequence of 1..3 rows over the equal-but-"
        f"distinguishable values 1 / 1.0 / True / 2 / 2.0 through distinct (list-backed, generator-backed, then collect / row of the survivors); "
        f"frames whose row container is a tuple (0, 1, 3 rows): every operator directly, every window / batch / copy / projection followed by collect, "
        f"indexing, row, +, to_batches, append; + over every pair of list / generator / tuple backings in both orders")


def _rand_frame(rng, names=None):
    if names is None:
        nc = rng.choice([0, 1, 1, 2, 2, 3, 4])
        names = rng.sample("abcd", nc)
    n = rng.choice([0, 1, 2, 3, 3, 4, 5, 6, 8, 10, 12])
    pool = rng.choice([VALUES, [-2, -1], [0, 1], VALUES, MIXED, [1, 1.0, True, 2.0]])
    rows = [[rng.choice(pool) for _ in names] for _ in range(n)]
    return names, rows


def _rand_op(rng, names, n, nenv, malformed):
    w = lambda: rng.randint(-(n + 2), n + 2)  # noqa: E731
    size = lambda: rng.choice([0, 1, 2, n - 1, n, n + 1, n + 5, rng.randint(0, n + 2)]) if not malformed else w()  # noqa: E731
    size_ = lambda: max(0, size()) if not malformed else size()  # noqa: E731
    k = rng.choice(["head", "tail", "slice", "slice", "query", "filter", "take", "select", "select", "select1", "distinct", "add",
                    "batches", "collect", "collect1", "getitem", "getitem1", "row", "len", "iter"])
    if k in ("head", "tail"):
        return [k, size_()]
    if k == "slice":
        return [k, w(), rng.choice([None, size_(), size_()])]
    if k == "query":
        return [k, rng.choice([["true"], ["false"], ["summod", rng.choice([2, 3]), rng.choice([0, 1])], ["headle", rng.choice(VALUES)],
                               ["lasteq", rng.choice(VALUES)]])]
    if k == "filter":
        ln = rng.choice([n, n, max(0, n - 1), max(0, n - 3), n + 2, 0])
        return [k, [rng.randint(0, 1) for _ in range(ln)]]
    if k == "take":
        return [k, [rng.randint(-2, n + 2) for _ in range(rng.randint(0, n + 2))]]
    if k in ("select", "select1", "collect", "collect1", "getitem", "getitem1"):
        avail = list(names)
        if malformed and rng.random() < 0.5:
            avail = avail + ["z"]
        if k == "select":
            cnt = rng.randint(0, max(1, len(avail)))
            pick = [rng.choice(avail) for _ in range(cnt)] if (avail and rng.random() < 0.3) else rng.sample(avail, min(cnt, len(avail)))
            return [k, pick]
        if k == "select1":
            return [k, rng.choice(avail)] if avail else ["select", []]
        limit = rng.choice([None, None, size_(), -1])

        def col():
            if avail and rng.random() < 0.5:
                return rng.choice(avail)
            hi = len(names) - 1
            if malformed:
                return rng.randint(-1, hi + 1)
            return rng.randint(0, hi) if hi >= 0 else None

        if k in ("collect", "getitem"):
            cols = [c for c in (col() for _ in range(rng.randint(0, 3))) if c is not None]
            return [k, cols, limit] if k == "collect" else [k, cols]
        c = col()
        if c is None:
            return ["len"]
        return [k, c, limit] if k == "collect1" else [k, c]
    if k == "distinct":
        return [k]
    if k == "add":
        return [k, rng.randint(0, nenv + 1), rng.random() < 0.4]
    if k == "batches":
        return [k, rng.choice([1, 2, 3, max(1, n - 1), max(1, n), n + 1, n + 3]) if not malformed else rng.randint(-1, n + 1)]
    if k == "row":
        return [k, rng.randint(-n, n - 1) if (n and not malformed) else w()]
    return [k]


def _rand_case(rng, malformed=False):
    names, rows = _rand_frame(rng)
    typed = rng.random() < 0.4
    frames = [_frame(names, rows, typed)]
    if rng.random() < 0.5:
        if rng.random() < 0.7:
            _, rows2 = _rand_frame(rng, names)
            frames.append(_frame(names, rows2, typed if rng.random() < 0.8 else not typed, share=0 if rng.random() < 0.7 else None))
        else:
            n2, rows2 = _rand_frame(rng)
            frames.append(_frame(n2, rows2, rng.random() < 0.4))
    case = {"frames": frames, "steps": []}
    # track names / row counts with the plain reference so that arguments are mostly in range
    P = _Plain(case)
    for _ in range(rng.randint(1, 6)):
        src = rng.randint(0, len(P.env) - 1) if rng.random() < 0.9 else rng.randint(0, 20)
        nm, _sid, rws = P.env[src % len(P.env)]
        st = {"src": src, "lazy": rng.random() < 0.45, "op": _rand_op(rng, nm, len(rws), len(P.env), malformed)}
        case["steps"].append(st)
        kind, want, rsid = P.expect(st)
        if kind == "frame":
            P.env.append((want[0], rsid, want[1]))
        elif kind == "frames":
            for b in want:
                P.env.append((b[0], _sid, b[1]))
        elif kind == "free" and st["op"][0] in ("head", "tail", "slice", "add", "batches"):
            break  # the reference cannot follow an unspecified result: end the program here
    return case


def generate(rng, tier):
    count = 2500 if tier == "quick" else 50000
    for i in range(count):
        yield _rand_case(rng, malformed=(i % 5 == 4))
    count = 1200 if tier == "quick" else 16000
    for i in range(count):
        yield _rand_hcase(rng, malformed=(i % 6 == 5))
    count = 600 if tier == "quick" else 10000
    for i in range(count):
        yield _rand_hcase(rng, malformed=(i % 6 == 5), with_pool=True)


def search(rng):
    while True:
        yield _rand_case(rng, malformed=False)
        yield _rand_hcase(rng, malformed=False)
        yield _rand_hcase(rng, malformed=False, with_pool=True)


def shrink(case):
    if "hsteps" in case:
        yield from _shrink_heap(case)
        return
    steps = case["steps"]
    if len(steps) > 1:
        for i in range(len(steps) - 1, -1, -1):
            yield dict(case, steps=steps[:i] + steps[i + 1:])
    for j, f in enumerate(case["frames"]):
        if len(case["frames"]) > 1:
            yield dict(case, frames=case["frames"][:j] + case["frames"][j + 1:])
        for i in range(len(f["rows"])):
            g = dict(f, rows=f["rows"][:i] + f["rows"][i + 1:])
            yield dict(case, frames=case["frames"][:j] + [g] + case["frames"][j + 1:])
    for i, st in enumerate(steps):
        if st["lazy"]:
            yield dict(case, steps=steps[:i] + [dict(st, lazy=False)] + steps[i + 1:])


# =============================================================================
# Round 2: object-level programs ("hsteps").  Frames are DataFrame OBJECTS of one environment;
# a step is ONE call on frame  src % len(env)  itself; frames a call returns join the environment
# WITHOUT being listed, so a lazily backed result stays unforced while other frames - its source
# included - are observed.  When the program ends every frame is listed once, in environment order
# (so a source is listed before the frames derived from it).
#   initial frame: as above plus "gen": True = DataFrame(rows=(r for r in rows), schema=...)
#                  or (round 7) "tup": True = DataFrame(rows=tuple(rows), schema=...): the row container is a tuple
#   ops: those above (["add", j] adds frame j itself) and ["list"] ["mat"] ["rowcount"]
#   observation: {"steps": [["new", [names, ...]] | value | ["raise", cls], ...], "final": [[names, rows], ...]}
# =============================================================================
H_LAZY = ("select", "select1", "filter", "take")
H_CONSUMING = ("query", "distinct", "iter")          # iterate _rows without materialising
H_NEWFRAME = ("head", "tail", "slice", "query", "filter", "take", "select", "select1", "distinct", "add", "batches")


def _observe_heap(case):
    from orso.dataframe import DataFrame

    schemas = _schemas(case["frames"])
    env = []
    for f, sc in zip(case["frames"], schemas):
        rows = [tuple(r) for r in f["rows"]]
        if f.get("gen"):
            env.append(DataFrame(rows=(r for r in rows), schema=sc))
        elif f.get("tup"):
            env.append(DataFrame(rows=tuple(rows), schema=sc))      # round 7: an eager sequence that is not a list
        else:
            env.append(DataFrame(rows=rows, schema=sc))
    steps = []
    pool = [_pool_object(v) for v in case.get("pool", [])]     # the caller's own list objects, handed over again and again
    args = []

    def arg(x, conv):
        """the argument of a call: pool object k ITSELF for {"ref": k}, else a list built for this call"""
        if isinstance(x, dict):
            return pool[x["ref"] % len(pool)]
        return conv(x)

    for st in case["hsteps"]:
        a = env[st["src"] % len(env)]
        op = st["op"]
        k = op[0]
        new = []
        try:
            if k == "append":
                a.append(tuple(op[1]))
                o = ["new", []]
            elif k == "head":
                new = [a.head(op[1])]
            elif k == "tail":
                new = [a.tail(op[1])]
            elif k == "slice":
                new = [a.slice(op[1]) if op[2] is None else a.slice(op[1], op[2])]
            elif k == "query":
                new = [a.query(_pred(op[1]))]
            elif k == "filter":
                new = [a.filter(arg(op[1], lambda x: [bool(m) for m in x]))]
            elif k == "take":
                new = [a.take(arg(op[1], list))]
            elif k == "select":
                new = [a.select(arg(op[1], list))]
            elif k == "select1":
                new = [a.select(op[1])]
            elif k == "distinct":
                new = [a.distinct()]
            elif k == "add":
                new = [a + env[op[1] % len(env)]]
            elif k == "batches":
                new = list(a.to_batches(op[1]))
            elif k in ("collect", "getitem"):
                c = a.collect(arg(op[1], _cols_arg), op[2]) if k == "collect" else a[arg(op[1], _cols_arg)]
                o = ["cols", [[_cv(v) for v in col] for col in c]]
            elif k in ("collect1", "getitem1"):
                c = a.collect(op[1], op[2]) if k == "collect1" else a[op[1]]
                o = ["col", [_cv(v) for v in c]]
            elif k == "row":
                o = ["row", [_cv(v) for v in a.row(op[1])]]
            elif k == "len":
                o = ["nat", len(a)]
            elif k == "rowcount":
                o = ["nat", int(a.rowcount)]
            elif k == "iter":
                o = ["rows", [[_cv(v) for v in r] for r in a]]
            elif k == "list":
                o = ["rows", [[_cv(v) for v in r] for r in list(a)]]
            elif k == "mat":
                a.materialize()
                o = ["new", []]
            else:
                raise KeyError(k)
            if k in H_NEWFRAME:
                o = ["new", [[str(n) for n in r.column_names] for r in new]]
        except KeyError:
            raise
        except Exception as e:
            o = ["raise", type(e).__name__]
            new = []
        steps.append(o)
        r = _ref_of(op)
        args.append(None if r is None else _canon_items(pool[r % len(pool)]))     # the caller's list after the call
        env.extend(new)
    final = [_listing(df) for df in env]
    return {"steps": steps, "args": args, "final": final, "pool": [_canon_items(x) for x in pool]}


def _pool_object(v):
    """a fresh Python list for one pool entry of a case (JSON: str = column name, int, true/false)"""
    return [x for x in v]


def _canon_items(lst):
    """canonical, JSON-able content of a caller's list: names stay str, ints int, bools '!T'/'!F' (True == 1 must not hide a change)"""
    out = []
    for x in list(lst):
        if isinstance(x, bool):
            out.append("!T" if x else "!F")
        elif isinstance(x, str):
            out.append(x)
        elif isinstance(x, int) or hasattr(x, "__index__"):
            out.append(int(x))
        else:
            out.append("!?" + type(x).__name__)
    return out


def _ref_of(op):
    for x in op[1:]:
        if isinstance(x, dict):
            return x["ref"]
    return None


def _deref(op, pool):
    """the call with the ORIGINAL content of the pool object written out"""
    return [list(pool[x["ref"] % len(pool)]) if isinstance(x, dict) else x for x in op]


class _Ref:
    """One frame of the reference environment of the object-level oracle.
    version: bumped by every append to the frame (a lazily backed frame derived before an append: the property is silent);
    rows: what the property says the frame's rows are (None = the property does not say);
    status: 'list' (list-backed), 'fresh' (backed by a generator nothing has advanced yet),
            'spent' (backed by a generator that has been advanced: one-shot, the property is silent
            about what it still yields except that it is a tail of its rows);
    deriv: for the fresh result of select/filter/take: (kind, argument, parent index, parent's status at creation)"""
    __slots__ = ("names", "sid", "rows", "status", "deriv", "version")

    def __init__(self, names, sid, rows, status, deriv=None):
        self.names, self.sid, self.rows, self.status, self.deriv, self.version = names, sid, rows, status, deriv, 0


def _plain_expect(names, sid, rows, op, other=None):
    """the operator on a plain list of rows (the class _Plain above, on a one- or two-frame environment)"""
    P = _Plain.__new__(_Plain)
    P.env = [(names, sid, rows)] + ([other] if other is not None else [])
    if op[0] == "add":
        op = ["add", 1 if other is not None else 0, False]
    if op[0] == "rowcount":
        op = ["len"]
    return P.expect({"src": 0, "lazy": False, "op": op})


def _yield_of(env, d):
    """What listing frame d must give NOW according to the property (None = silent), marking every
    generator-backed frame that is advanced on the way as spent.
    A frame derived by select/filter/take equals the operation on its source's rows:
      - the source is list-backed when the derived frame is first iterated -> the operation on that list,
        whatever the source was backed by when select/filter/take was called (F-C03-6, fixed 75a1e72);
      - the source is backed by a generator nothing has advanced -> the operation on what that yields;
      - the source's generator has already been advanced -> one-shot: silent."""
    D = env[d]
    if D.status == "list":
        return D.rows
    if D.status == "spent":
        return None
    if D.deriv is None:
        return D.rows
    kind, arg, parent, parent_version = D.deriv
    S = env[parent]
    if S.version != parent_version:
        src = None            # the source was appended to after the call: the property does not say which rows count
    elif S.status == "list":
        src = S.rows
    elif S.status == "fresh":
        src = _yield_of(env, parent)
        S.status = "spent"
        S.rows = src
    else:
        src = None
    if src is None:
        return None
    k, want, _ = _plain_expect(S.names, S.sid, src, [kind, arg])
    return want[1] if k == "frame" else None


def _oracle_heap(case, obs):
    fr = case["frames"]
    env = [_Ref(list(f["names"]), (_schema_id(fr, j) if f["typed"] else None), [list(r) for r in f["rows"]], "fresh" if f.get("gen") else "list")
           for j, f in enumerate(fr)]
    pool0 = case.get("pool", [])
    prog = [(dict(st, op=_deref(st["op"], pool0), ref=_ref_of(st["op"]), t=t), o, False) for t, (st, o) in enumerate(zip(case["hsteps"], obs["steps"]))]
    n_final = len(obs["final"])
    prog += [({"src": j, "op": ["list"]}, x, True) for j, x in enumerate(obs["final"])]
    for t, (st, o, final) in enumerate(prog):
        if final and st["src"] >= len(env):
            return f"final listing: the harness listed {n_final} frames, the reference has {len(env)}"
        d = st["src"] % len(env)
        D = env[d]
        op = st["op"]
        k = op[0]
        where = (f"final listing of frame {d}" if final else f"step {t} {op} on frame {d}") + (
            f" ({D.status}-backed" + ("; built from a TUPLE of rows)" if d < len(fr) and fr[d].get("tup") else ")"))
        if final:
            if o[0] == "!raise":
                return f"{where}: listing raised {o[1]}"
            if o[0] != D.names:
                return f"{where}: column names are {o[0]}, required {D.names}"
            o = ["rows", o[1]]
        # ---------------- the caller's own list must come back from every call as it went in
        if st.get("ref") is not None:
            before = _canon_items(pool0[st["ref"] % len(pool0)])
            after = obs["args"][st["t"]]
            if after != before:
                return f"{where}: the call was handed the caller's list {before} and left it as {after}"
        # ---------------- append: the harness's probe for shared row containers (not an operator of the property)
        if k == "append":
            if o[0] == "raise":
                continue
            if o != ["new", []]:
                return f"{where}: got {o}"
            D.version += 1
            if D.status == "list" and D.rows is not None:
                D.rows = D.rows + [list(op[1])]
            else:
                D.rows = None
            continue
        # ---------------- calls that return a lazily backed frame: nothing is touched
        if k in H_LAZY:
            want = list(op[1]) if k == "select" else [op[1]] if k == "select1" else D.names
            if k in ("select", "select1") and any(w not in D.names for w in want):
                if o[0] != "raise":
                    return f"{where}: a column that does not exist was requested, yet a result came back: {o}"
                continue
            if o[0] == "raise":
                return f"{where}: raised {o[1]}; required a frame with columns {want}"
            if o != ["new", [want]]:
                return f"{where}: required one new frame with columns {want}, got {o}"
            kind = "select" if k == "select1" else k
            env.append(_Ref(want, None if kind == "select" else D.sid, None, "fresh", (kind, want if kind == "select" else op[1], d, D.version)))
            continue
        # ---------------- everything else iterates the frame's rows: to the end (materialising or not)
        was = D.status
        prior = D.rows if was == "spent" else None
        rows = _yield_of(env, d)
        other = None
        if k == "add":
            e = op[1] % len(env)
            E = env[e]
            same = (D.sid == E.sid and D.names == E.names) if (D.sid is None or E.sid is None) else D.sid == E.sid
            if not same:
                # the property is silent; the code refuses before touching either frame
                if o[0] == "new":
                    env.append(_Ref(o[1][0] if o[1] else D.names, None, None, "list"))
                continue
            D.status, D.rows = "list", rows
            rows2 = _yield_of(env, e)
            E.status, E.rows = "list", rows2
            other = (E.names, E.sid, rows2)
        elif k in H_CONSUMING:
            if was == "fresh":
                D.status, D.rows = "spent", rows
        else:
            D.status, D.rows = "list", rows
        if prior is not None and k in ("list", "iter") and o[0] == "rows" and _x(o[1]) != _x(prior[len(prior) - len(o[1]):]):
            return f"{where}: a frame whose generator has been advanced may only have a tail of {prior} left, listing gave {o[1]}"
        # the expected outcome
        if k in ("list", "iter"):
            kind, want, rsid = ("rows", rows, None) if rows is not None else ("free", None, None)
        elif k == "mat":
            kind, want, rsid = ("new", [], None)
        elif rows is None or (other is not None and other[2] is None):
            kind, want, rsid = ("free", None, None)
        else:
            kind, want, rsid = _plain_expect(D.names, D.sid, rows, op, other)
        if k == "list" and o[0] == "rows":
            if rows is None:
                D.rows = o[1]          # list-backed from now on, with the rows it showed
        if kind == "raise":
            if o[0] != "raise":
                return f"{where}: required an exception, got {o}"
        elif kind != "free":
            if o[0] == "raise":
                return f"{where}: raised {o[1]}; required {kind} {want}"
            if kind == "frame":
                if o != ["new", [want[0]]]:
                    return f"{where}: required one new frame with columns {want[0]}, got {o}"
            elif kind == "frames":
                if o != ["new", [b[0] for b in want]]:
                    return f"{where}: required {len(want)} batches with columns {D.names}, got {o}"
            elif kind == "new":
                if o != ["new", []]:
                    return f"{where}: got {o}"
            elif o[0] != kind or _x(o[1]) != _x(want):
                return f"{where}: required {kind} {want}, got {o}"
        # new list-backed frames
        if o[0] == "new":
            if kind == "frame":
                env.append(_Ref(want[0], rsid, want[1], "list"))
            elif kind == "frames":
                for b in want:
                    env.append(_Ref(b[0], D.sid, b[1], "list"))
            else:
                for ns in o[1]:
                    env.append(_Ref(ns, D.sid if k != "select" else None, None, "list"))
    if n_final != len(env):
        return f"final listing: the harness listed {n_final} frames, the reference has {len(env)}"
    if obs.get("pool", []) != [_canon_items(v) for v in pool0]:
        return f"the caller's lists {[_canon_items(v) for v in pool0]} were left as {obs.get('pool')}"
    return None


def _coq_hop(op):
    k = op[0]
    if k == "list":
        return "HList"
    if k == "mat":
        return "HMat"
    if k == "rowcount":
        return "(HOp Len)"
    if k == "add":
        return "(HOp (AddF %s false))" % L.nat(op[1])
    return "(HOp %s)" % _coq_op(op)


def _coq_hout(o):
    if o[0] == "new":
        return "(HNew (%s : list (list N)))" % L.lst(_names(ns) for ns in o[1])
    return "(HVal %s)" % _coq_out(o)


def _aitem(x):
    if x == "!T" or x is True:
        return "(ABool true)"
    if x == "!F" or x is False:
        return "(ABool false)"
    if isinstance(x, str):
        return "(AName %s)" % (_nm(x) if len(x) == 1 and "a" <= x <= "z" else L.N(99))
    return "(AInt %s)" % L.Z(int(x))


def _argobj(v):
    return "(%s : argobj N)" % L.lst(_aitem(x) for x in v)


def _coq_aop(op):
    k = op[0]
    r = _ref_of(op)
    if k == "append":
        return "(AAppend %s)" % _row(op[1])
    if r is None:
        return "(APlain %s)" % _coq_hop(op)
    if k == "collect":
        return "(ACollect %s %s)" % (L.nat(r), L.opt(None if op[2] is None else L.Z(op[2])))
    return "(%s %s)" % ({"getitem": "AGetItem", "select": "ASelect", "filter": "AFilter", "take": "ATake"}[k], L.nat(r))


def _needs_args_stream(case):
    return bool(case.get("pool")) or any(st["op"][0] == "append" for st in case["hsteps"])


def _coq_can_follow(case, obs):
    """The model keeps a list iterator as the rows it has yet to give; CPython's looks at the live list. They differ only when
    a frame is appended to while an iterator over its list is under way, so a case that appends to a frame from which a
    lazily backed frame was derived earlier is judged by the oracle alone."""
    nenv = len(case["frames"])
    parents = set()
    for st, o in zip(case["hsteps"], obs["steps"]):
        d = st["src"] % nenv
        if st["op"][0] == "append" and d in parents:
            return False
        if st["op"][0] in H_LAZY and o[0] == "new":
            parents.add(d)
        if o[0] == "new":
            nenv += len(o[1])
    return True


def _ikind(f):
    return "KGen" if f.get("gen") else "KTuple" if f.get("tup") else "KList"


def _to_coq_args(case, obs):
    if not _coq_can_follow(case, obs):
        return None
    fr = case["frames"]
    fs = []
    for j, f in enumerate(fr):
        kind = "(Typed %s)" % L.nat(_schema_id(fr, j)) if f["typed"] else "Untyped"
        fs.append("(mkHI (mkS %s %s) %s %s)" % (kind, _names(f["names"]), _rows(f["rows"]), _ikind(f)))
    pool = [_argobj(v) for v in case.get("pool", [])]
    prog, seen = [], []
    for st, o, after in zip(case["hsteps"], obs["steps"], obs["args"]):
        prog.append("(mkAStep %s %s)" % (L.nat(st["src"]), _coq_aop(st["op"])))
        seen.append("(AOut %s)" % _coq_hout(o))
        if after is not None:      # look at the caller's list right after the call
            prog.append("(mkAStep 0 (APeek %s))" % L.nat(_ref_of(st["op"])))
            seen.append("(AArg %s)" % _argobj(after))
    for j, x in enumerate(obs["final"]):
        prog.append("(mkAStep %s (APlain HList))" % L.nat(j))
        seen.append("(AOut %s)" % _coq_hout(["raise", x[1]] if x[0] == "!raise" else ["rows", x[1]]))
    for j, v in enumerate(obs["pool"]):
        prog.append("(mkAStep 0 (APeek %s))" % L.nat(j))
        seen.append("(AArg %s)" % _argobj(v))
    term = "((%s : list (hinit Z N)), (%s : list (argobj N)), (%s : list zastep), (%s : list zaout))" % (
        L.lst(fs), L.lst(pool), L.lst(prog), L.lst(seen))
    return ("args", term)


def _to_coq_heap(case, obs):
    if _needs_args_stream(case):
        return _to_coq_args(case, obs)
    fr = case["frames"]
    fs = []
    for j, f in enumerate(fr):
        kind = "(Typed %s)" % L.nat(_schema_id(fr, j)) if f["typed"] else "Untyped"
        fs.append("(mkHI (mkS %s %s) %s %s)" % (kind, _names(f["names"]), _rows(f["rows"]), _ikind(f)))
    prog = ["(mkHStep %s %s)" % (L.nat(s["src"]), _coq_hop(s["op"])) for s in case["hsteps"]]
    seen = [_coq_hout(o) for o in obs["steps"]]
    for j, x in enumerate(obs["final"]):
        prog.append("(mkHStep %s HList)" % L.nat(j))
        seen.append(_coq_hout(["raise", x[1]] if x[0] == "!raise" else ["rows", x[1]]))
    term = "((%s : list (hinit Z N)), (%s : list zhstep), (%s : list zhout))" % (L.lst(fs), L.lst(prog), L.lst(seen))
    return ("heap", term)


def _classify_heap(case, obs):
    yield "heap:steps=%d" % len(case["hsteps"])
    for f in case["frames"]:
        yield "heap:initial:" + ("generator-backed" if f.get("gen") else "tuple-backed" if f.get("tup") else "list-backed")
    nenv = len(case["frames"])
    lazy_at = {}      # env index of an unforced lazy result -> its source
    touched = set()   # sources observed since a lazy child of theirs was made
    if case.get("pool"):
        yield "heap:session-with-caller-lists"
    used = {}
    for st, o in zip(case["hsteps"], obs["steps"]):
        d = st["src"] % nenv
        k = st["op"][0]
        yield "heap:op:" + k
        r = _ref_of(st["op"])
        if r is not None:
            r %= len(case["pool"])
            yield "heap:argument-is-a-caller-list"
            if r in used:
                yield "heap:caller-list-used-again"
                if used[r] != d:
                    yield "heap:caller-list-used-again-on-another-frame"
            used[r] = d
        if o[0] == "raise":
            yield "heap:raised:" + str(o[1])
        if k in H_LAZY and o[0] == "new":
            lazy_at[nenv] = d
        elif k not in H_LAZY:
            if d in lazy_at:
                if lazy_at[d] in touched:
                    yield "heap:lazy-result-forced-after-its-source-was-observed"
                del lazy_at[d]
            if d in lazy_at.values():
                touched.add(d)
        if o[0] == "new":
            nenv += len(o[1])
    if lazy_at:
        yield "heap:lazy-result-first-listed-in-the-final-sweep"
    if _needs_args_stream(case) and not _coq_can_follow(case, obs):
        yield "heap:oracle-only(append-under-a-lazy-child)"


def _shrink_heap(case):
    steps = case["hsteps"]
    for i in range(len(steps) - 1, -1, -1):
        yield dict(case, hsteps=steps[:i] + steps[i + 1:])
    pool = case.get("pool", [])
    for i, st in enumerate(steps):
        if _ref_of(st["op"]) is not None:      # the same call with a list of its own
            yield dict(case, hsteps=steps[:i] + [dict(st, op=_deref(st["op"], pool))] + steps[i + 1:])
    for k, v in enumerate(pool):
        for i in range(len(v)):
            yield dict(case, pool=pool[:k] + [v[:i] + v[i + 1:]] + pool[k + 1:])
    for j, f in enumerate(case["frames"]):
        if len(case["frames"]) > 1:
            yield dict(case, frames=case["frames"][:j] + case["frames"][j + 1:])
        for i in range(len(f["rows"])):
            g = dict(f, rows=f["rows"][:i] + f["rows"][i + 1:])
            yield dict(case, frames=case["frames"][:j] + [g] + case["frames"][j + 1:])
        if f["typed"]:
            yield dict(case, frames=case["frames"][:j] + [dict(f, typed=False)] + case["frames"][j + 1:])
        if f.get("tup"):
            yield dict(case, frames=case["frames"][:j] + [dict(f, tup=False)] + case["frames"][j + 1:])


def _hframe(names, rows, gen=False, typed=False, share=None, tup=False):
    f = dict(_frame(names, rows, typed, share), gen=gen)
    if tup and not gen:
        f["tup"] = True
    return f


def _hcase(frames, ops):
    return {"frames": frames, "hsteps": [{"src": s, "op": op} for s, op in ops]}


H_ROWS = [[1, 2], [3, 4], [5, 6]]


def _deferred_cases(tier):
    """every combination of: how the source is backed x which frame is derived from it x what is done
    to the source (or to a sibling derived from it) before the derived frame is first listed"""
    sources = [
        ("list", [_hframe("ab", H_ROWS)], [], 0),
        ("generator", [_hframe("ab", H_ROWS, gen=True)], [], 0),
        ("select-of-list", [_hframe("ab", H_ROWS)], [(0, ["select", ["a", "b"]])], 1),
        ("filter-of-list", [_hframe("ab", H_ROWS, typed=True)], [(0, ["filter", [1, 1, 1]])], 1),
        ("take-of-generator", [_hframe("ab", H_ROWS, gen=True)], [(0, ["take", [0, 1, 2]])], 1),
        ("tuple", [_hframe("ab", H_ROWS, tup=True)], [], 0),
        ("select-of-tuple", [_hframe("ab", H_ROWS, tup=True)], [(0, ["select", ["a", "b"]])], 1),
    ]
    children = [["select", ["b", "a"]], ["select1", "b"], ["filter", [1, 0, 1]], ["filter", [1]], ["take", [0, 2]], ["head", 2], ["distinct"]]
    between = [[], [["len"]], [["rowcount"]], [["mat"]], [["list"]], [["iter"]], [["head", 1]], [["collect", ["a"], None]], [["row", 0]],
               [["query", ["true"]]], [["distinct"]], [["batches", 2]], [["add", None]],
               [["select", ["a"]], "list-new"], [["filter", [1, 1]], "list-new"], [["take", [1]], "list-new"], [["select", ["b"]], ["len"], "list-new"]]
    if tier != "quick":
        between = between + [x + y for x in between[1:13] for y in between[1:13]]
    for _sname, frames, pre, s in sources:
        for child in children:
            for btw in between:
                for explicit in (False, True):
                    ops = list(pre)
                    c = s + 1                   # index of the derived frame
                    ops.append((s, child))
                    nxt = c + 1
                    for b in btw:
                        if b == "list-new":
                            ops.append((nxt - 1, ["list"]))
                        elif b[0] == "add":
                            ops.append((s, ["add", s]))
                            nxt += 1
                        else:
                            ops.append((s, b))
                            if b[0] in H_NEWFRAME:
                                nxt += 2 if b[0] == "batches" else 1
                    if explicit:
                        ops.append((c, ["list"]))
                    yield _hcase(frames, ops)


def _aliasing_cases(tier):
    """the caller's lists handed to two or three calls in a row, on frames with different column layouts; and append() as the
    probe for frames that share one row container"""
    abc = [[1, 2, 3], [4, 5, 6], [7, 8, 9]]
    frames = lambda gen: [_hframe("abc", abc), _hframe("cba", [[30, 20, 10], [60, 50, 40]], gen=gen)]  # noqa: E731
    calls = [lambda f: (f, ["collect", {"ref": 0}, None]), lambda f: (f, ["getitem", {"ref": 0}]), lambda f: (f, ["select", {"ref": 0}]),
             lambda f: (f, ["collect", {"ref": 0}, 1])]
    lists = [["c", "a"], ["b"], ["a", "b", "c"], ["c", 0], ["b", "c"]] + ([["a", "c", "b"], [2, "a"], ["a", "a"]] if tier != "quick" else [])
    for v in lists:
        for gen in (False, True):
            for c1 in calls[:3]:
                for f1 in (0, 1):
                    for c2 in calls[:3]:
                        for f2 in (0, 1, 2):      # frame 2 exists when the first call was a select: the projection itself
                            if f2 == 2 and c1 is not calls[2]:
                                continue
                            yield dict(_hcase(frames(gen), [c1(f1), c2(f2)]), pool=[list(v)])
            if tier != "quick" or not gen:
                for c1 in calls:
                    for c2 in calls:
                        for c3 in calls[:3]:
                            yield dict(_hcase(frames(gen), [c1(0), c2(1), c3(0)]), pool=[list(v)])
    # masks and index lists come round again too
    for gen in (False, True):
        pool = [[True, False, True], [2, 0], ["c", "a"]]
        yield dict(_hcase(frames(gen), [(0, ["filter", {"ref": 0}]), (1, ["filter", {"ref": 0}]), (2, ["filter", {"ref": 0}])]), pool=pool)
        yield dict(_hcase(frames(gen), [(0, ["take", {"ref": 1}]), (0, ["collect", {"ref": 1}, None]), (1, ["take", {"ref": 1}]), (1, ["getitem", {"ref": 1}])]), pool=pool)
        yield dict(_hcase(frames(gen), [(0, ["select", {"ref": 2}]), (2, ["take", {"ref": 1}]), (2, ["collect", {"ref": 2}, None]), (3, ["getitem", {"ref": 2}])]), pool=pool)
    # append to a frame / to what was derived from it: nothing else may move
    ab = _hframe("ab", H_ROWS)
    derive = [["head", 2], ["tail", 9], ["slice", 0, None], ["slice", -9, None], ["query", ["true"]], ["distinct"], ["add", 0], ["batches", 9], ["batches", 2],
              ["filter", [1, 1, 1]], ["take", [0, 1, 2]], ["select", ["a", "b"]]]
    for dv in derive:
        lazy = dv[0] in H_LAZY
        for first in ("source", "result", "both"):
            ops = [(0, dv)] + ([(1, ["mat"])] if lazy else [])
            if first in ("source", "both"):
                ops.append((0, ["append", [7, 8]]))
            if first in ("result", "both"):
                ops.append((1, ["append", [9, 9]]))
            ops.append((0, ["len"]))
            yield _hcase([ab], ops)
    yield _hcase([_hframe("ab", H_ROWS, gen=True)], [(0, ["append", [7, 8]]), (0, ["len"]), (0, ["append", [7, 8]])])
    yield _hcase([_hframe("ab", H_ROWS, typed=True)], [(0, ["append", [7, 8]]), (0, ["head", 1]), (1, ["append", [7, 8]])])


def _rand_hcase(rng, malformed=False, with_pool=False):
    names, rows = _rand_frame(rng)
    if not names and rng.random() < 0.7:
        names, rows = _rand_frame(rng, rng.sample("abcd", rng.choice([1, 2, 3])))
    typed = rng.random() < 0.3
    u = rng.random()
    frames = [_hframe(names, rows, gen=u < 0.5, tup=u >= 0.8, typed=typed)]          # 50 % generator, 30 % list, 20 % tuple
    if rng.random() < 0.35:
        _, rows2 = _rand_frame(rng, names)
        u = rng.random()
        frames.append(_hframe(names, rows2, gen=u < 0.4, tup=u >= 0.75, typed=typed, share=0 if rng.random() < 0.8 else None))
    case = {"frames": frames, "hsteps": []}
    if with_pool:
        n0 = len(rows)
        pool = []
        for _ in range(rng.randint(1, 2)):      # column lists: names (reordered subsets), sometimes positions mixed in
            cnt = rng.randint(1, max(1, len(names)))
            v = rng.sample(list(names), min(cnt, len(names))) if names else []
            if names and rng.random() < 0.25:
                v.insert(rng.randint(0, len(v)), rng.randint(0, len(names) - 1))
            if malformed and rng.random() < 0.4:
                v.append("z")
            pool.append(v)
        pool.append([rng.random() < 0.6 for _ in range(rng.choice([n0, n0, max(0, n0 - 1), n0 + 1]))])      # a mask
        pool.append([rng.randint(0, n0 + 1) for _ in range(rng.randint(0, n0 + 1))])                        # indexes
        case["pool"] = pool
    # plain-list bookkeeping (names, rows of every frame as if nothing were lazy) to keep arguments in range
    P = _Plain(case)
    has_child = []
    for _ in range(rng.randint(2, 8)):
        u = rng.random()
        if has_child and u < 0.35:
            src = rng.choice(has_child)                    # observe a frame something lazy hangs off
        elif u < 0.85:
            src = rng.randint(0, len(P.env) - 1)
        else:
            src = rng.randint(0, 20)
        d = src % len(P.env)
        nm, sid, rws = P.env[d]
        n = len(rws)
        u = rng.random()
        if with_pool and u < 0.45:
            # hand one of the caller's lists to a call (the same objects come round again and again)
            r = rng.randint(0, len(case["pool"]) - 1)
            v = case["pool"][r]
            if v and isinstance(v[0], bool):
                op = ["filter", {"ref": r}]
            elif all(isinstance(x, int) for x in v) and rng.random() < 0.6:
                op = ["take", {"ref": r}]
            else:
                op = rng.choice([["collect", {"ref": r}, rng.choice([None, None, 1, n])], ["getitem", {"ref": r}], ["select", {"ref": r}],
                                 ["collect", {"ref": r}, None], ["select", {"ref": r}]])
        elif with_pool and u < 0.53 and d not in has_child and sid is None:
            op = ["append", [rng.choice(VALUES) for _ in nm]]
        elif u < 0.34:
            k = rng.choice(["select", "select", "select1", "filter", "take"])
            if k == "filter":
                op = [k, [rng.randint(0, 1) if rng.random() < 0.6 else 1 for _ in range(rng.choice([n, n, n, max(0, n - 1), n + 1, 1]))]]
            elif k == "take":
                op = [k, [rng.randint(-1, n + 1) for _ in range(rng.randint(0, n + 1))]]
            else:
                op = _rand_op(rng, nm, n, len(P.env), malformed)
                while op[0] not in ("select", "select1"):
                    op = _rand_op(rng, nm, n, len(P.env), malformed)
        elif u < 0.62:
            op = rng.choice([["len"], ["rowcount"], ["mat"], ["list"], ["iter"], ["len"], ["list"],
                             ["row", rng.randint(-n, n - 1) if n else 0], ["head", rng.randint(0, n + 1)], ["distinct"], ["query", ["true"]]])
        else:
            op = _rand_op(rng, nm, n, len(P.env), malformed)
            if op[0] == "add":
                op = ["add", op[1]]
        case["hsteps"].append({"src": src, "op": op})
        if op[0] in ("list", "mat", "rowcount"):
            continue
        if op[0] == "append":
            rws.append(list(op[1]))
            continue
        op = _deref(op, case.get("pool", []))
        kind, want, rsid = P.expect({"src": src, "lazy": False, "op": op if op[0] != "add" else ["add", op[1], False]})
        if kind == "frame":
            if op[0] in H_LAZY:
                has_child.append(d)
            P.env.append((want[0], rsid, want[1]))
        elif kind == "frames":
            for b in want:
                P.env.append((b[0], sid, b[1]))
        elif kind == "free" and op[0] in ("head", "tail", "slice", "add", "batches"):
            break
    return case

