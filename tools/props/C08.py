"""C08 - Timestamp parsing round-trips ISO-8601 and epoch forms and is total.

Cases (JSON):
  {"k":"iso","f":[y,m,d,h,mi,s],"form":0|1|2,"sep":"T"|" ","frac":"digits","suf":[...],"bytes":bool}
        form 0 = seconds, 1 = minutes, 2 = date only; suf = ["none"] | ["Z"] | ["+"|"-", colon?, hh, mm]
  {"k":"sweep","o":ordinal,"v":0..3}       one (day, variant) of the exhaustive 400-year sweep; stands for the "iso" case _norm() computes
  {"k":"int","n":int,"ty":"int"|"np.int64"}
  {"k":"float","x":float.hex()|"nan"|"inf"|"-inf","ty":"float"|"np.float64"}
  {"k":"text","s":str}                      arbitrary text (may be all digits)
  {"k":"bytes","b":hex,"ty":"bytes"|"np.bytes_"}
  {"k":"native","ty":"date"|"datetime"|"datetime_tz","f":[y,m,d,h,mi,s,us],"off":minutes}
  {"k":"dt64","unit":u,"i":int}             numpy.datetime64(i, u); {"k":"dt64","nat":true}
  {"k":"pandas","ns":int,"tz":null|"UTC"|...} / {"k":"pandas","nat":true}
  {"k":"obj","what":name}                   None, bool, containers, other numpy scalars, subclasses ...
  {"k":"lib_fromts","n":int} {"k":"lib_int","s":str} {"k":"lib_utf8","b":hex}
        the modelled CPython functions on their own (no property oracle, correspondence only)
Observation of a parse case: {"iso": r, "ts": r, "date": r, "time": r} with
  (stored as {"iso": r, "casts": "agree"} when the three casts are exactly the values derived from r)
  r = ["none"] | ["dt",[y,m,d,h,mi,s,us]] | ["d",[y,m,d]] | ["t",[h,mi,s,us]] | ["raise",cls] | ["weird",type]
"""
import ast
import datetime
import math
import os
import re
import sys

from vlib import coqlit as L

ID = "C08"
READY = True
TECHNIQUE = ("Coq proof over an executable character-level model of parse_iso (positional grammar, int(), UTF-8, datetime range checks, "
             "epoch branch on a proved days<->civil calendar) + model/implementation correspondence evaluated in Coq")
LEVEL_TEXT = ("Machine-checked Coq theorems over an executable model of parse_iso: for every date-time of years 1..9999 every ISO rendering "
              "(T/space, any fraction of 0..6 digits, none/Z/+hh:mm/+hhmm/-hh:mm/-hhmm, text or UTF-8 bytes) parses to that time with "
              "whole seconds, minute form to the minute, date-only to midnight, native inputs and the DATE/TIMESTAMP/TIME casts likewise; "
              "every integer (also as digit string) inside [0001-01-01, 9999-12-31T23:59:59] UTC maps to the civil time whose day number "
              "and second-of-day recompose it (calendar inverse law proved by a 146097-day sweep + periodicity), every other integer, "
              "NaN and the infinities give None; strings failing the positional shape test give None; parse_iso never raises, for "
              "the handler list read from the live source. The model is tied to tools.py/types.py by running the real functions and "
              "evaluating the model inside Coq on the same inputs (all variants, range ends, arbitrary text/bytes/objects/NumPy/pandas "
              "scalars; thorough: every day of a 400-year span x 4 variants); a direct property oracle supplies replayable failing inputs.")
LEVEL_NOTE = ("Trusted: Coq kernel + vm_compute; hand-written models of CPython's int(str), str.isdigit, bytes.decode('utf-8'), datetime(...) "
              "range checks and datetime.fromtimestamp(tz=utc) (each also validated on its own stream against the running interpreter; Unicode "
              "digit/space tables and the int() digit limit regenerated from it); numpy's conversion datetime64 -> datetime64[s] -> int64 and pandas to_pydatetime() are "
              "black boxes whose returned value is part of the model's input; the harness's mapping of Python objects to model constructors. "
              "Known finding F-C08-5 (NumPy's unit conversion wraps or overflows for extreme datetime64 values: a wrapped year can be read as a date, "
              "the lowest second of the ns/ps/fs ranges and all of datetime64[as] give None) is guarded; objects with hostile attribute hooks are outside the model.")
DESIGN_REF = "DESIGN.md section 8, C08"
# The sweep stream writes its small numbers as primitive-integer literals (an order of magnitude cheaper
# for coqc to read than Z/N numerals); i63 converts them and calls the model's isoh_case.
COQ_IMPORTS = ("From Coq Require Import ZArith Uint63.\nFrom Orso Require Import Gen.C08_Tables Model.C08.\nOpen Scope Z_scope.\n"
               "Definition i63 (k y m d sod sep frlen frv sk oh om : int) (b : bool) (hash : int) :=\n"
               "  isoh_case (to_Z k) (to_Z y) (to_Z m) (to_Z d) (to_Z sod) (to_Z sep) (Z.to_N (to_Z frlen)) (to_Z frv)\n"
               "            (to_Z sk) (to_Z oh) (to_Z om) b (Z.to_N (to_Z hash)).")
COQ_CHECKS = {"val": "c08_check", "iso": "c08_check_iso", "isoh": "c08_check_isoh", "fromts": "c08_check_fromts", "int": "c08_check_int", "utf8": "c08_check_utf8"}
COQ_SHOW = {"val": "c08_show", "iso": "c08_show_iso", "isoh": "c08_show_isoh", "fromts": "c08_show_fromts", "int": "c08_show_int", "utf8": "c08_show_utf8"}
RULE = ("ISO renderings built from CPython's isoformat() of random date-times over years 1..9999 (uniform over days, plus month/year ends and "
        "leap days) x {T, space} x fraction 0..9 digits x {none, Z, +hh:mm, +hhmm, -hh:mm, -hhmm} x {str, UTF-8 bytes}, minute and date-only "
        "forms; integers / floats / digit strings at and beyond both ends of the representable range, the time_t and struct-tm limits, NaN, "
        "infinities, 10**30, digit strings to 40 digits (ASCII and other Unicode digits); mutated ISO strings, random text, random and invalid "
        "UTF-8 bytes, native date/datetime (naive and aware), numpy.datetime64 of every unit, pandas Timestamps, None/bool/containers/other numpy "
        "scalars/subclasses; the four entry points parse_iso, TIMESTAMP.parse, DATE.parse, TIME.parse are observed on every input; "
        "a case is non-trivial when it yields a date-time or is a malformed/out-of-range input of a distinct kind; distinct by canonical JSON")
TRUSTED = [
    "C08 model (coq/Model/C08.v): parse_iso character by character; int(str) as _PyUnicode_TransformDecimalAndSpaceToASCII + PyLong_FromString(base 10); "
    "strict UTF-8 decoder; datetime(...) range checks with days-in-month; fromtimestamp(tz=utc) with its three failure classes (time_t -> OverflowError, "
    "struct tm year -> OSError, year outside 1..9999 -> ValueError) - each validated against the running CPython on its own correspondence stream",
    "Gen/C08_Tables.v: exception classes named by parse_iso's except clause (read from the source by ast), Unicode decimal-digit / isdigit / space tables "
    "and sys.get_int_max_str_digits() (read from the running interpreter)",
    "black boxes: int(value.astype('datetime64[s]').astype(numpy.int64)) for numpy.datetime64, pandas.Timestamp.to_pydatetime (their return value is an input of the model; the oracle computes the expected instant without them)",
    "the harness decides which model constructor a Python object maps to (type(x) is int -> VInt, isinstance bytes -> VBytes, ...); a wrong mapping shows as a mismatch",
]
ASSUMPTIONS = [
    "objects are values of built-in, NumPy and pandas types; objects with user-defined __getattr__/to_pydatetime that raise are outside the model",
    "fractions longer than 6 digits are outside the property (CPython's isoformat never produces them); the theorems state exactly which still parse",
    "a date-only rendering followed by a negative offset (2020-01-01-05:00) is not an ISO 8601 form; it is read as 05:00 (observation, DESIGN section 8)",
    "strings that pass the positional shape test without being ISO renderings (2020-01-01X10:00:00, 2_20-01-01) are outside the claim (DESIGN section 8)",
    "float epochs are floored (math.floor), as are datetime64 instants; the oracle computes both floors with exact integer arithmetic",
]

MIN_EPOCH = -62135596800
MAX_EPOCH = 253402300799

F1_WITNESSES = [{"k": "int", "n": 10 ** 20, "ty": "int"}, {"k": "float", "x": "inf", "ty": "float"},
                {"k": "text", "s": "9" * 20}, {"k": "float", "x": (-1e300).hex(), "ty": "float"}]
F2_WITNESSES = [{"k": "iso", "f": [2020, 1, 1, 10, 0, 0], "form": 1, "sep": "T", "frac": "", "suf": ["-", True, 5, 0], "bytes": False},
                {"k": "iso", "f": [2020, 1, 1, 10, 0, 0], "form": 1, "sep": " ", "frac": "", "suf": ["-", False, 5, 0], "bytes": False}]
F3_WITNESSES = [{"k": "float", "x": (-1.5).hex(), "ty": "float"}, {"k": "float", "x": (-1.5).hex(), "ty": "np.float64"},
                {"k": "float", "x": (MIN_EPOCH - 0.5).hex(), "ty": "float"}, {"k": "float", "x": (-0.25).hex(), "ty": "float"},
                {"k": "dt64", "unit": "ns", "i": -1500000000}, {"k": "dt64", "unit": "ns", "i": -1},
                {"k": "dt64", "unit": "ns", "i": 1600000000999999999}, {"k": "dt64", "unit": "s", "i": 568971820800},
                {"k": "dt64", "unit": "us", "i": -1500000}, {"k": "dt64", "unit": "ms", "i": -1}, {"k": "dt64", "unit": "D", "i": -1},
                {"k": "dt64", "unit": "ps", "i": 10 ** 12 + 5}, {"k": "dt64", "unit": "D", "i": 2 ** 62}, {"k": "dt64", "unit": "us", "i": 2 ** 62}]
F4_WITNESSES = [{"k": "pandas", "ns": 1577872800500000000, "tz": None}, {"k": "pandas", "ns": 1577872800500000000, "tz": "US/Eastern"},
                {"k": "pandas", "ns": 1577872800000000500, "tz": None}, {"k": "pandas", "ns": -1500000000, "tz": "UTC"}, {"k": "pandas", "nat": True}]
KNOWN_WITNESSES = {
    # known: NumPy wraps the year silently, the value is read as 1970-01-01T00:14:56 instead of None
    "F-C08-5": {"k": "dt64", "unit": "Y", "i": 7357062231923646800},
}

EXN = ["ValueError", "TypeError", "OverflowError", "OSError", "IndexError", "AttributeError"]


# --------------------------------------------------------------------------- Gen
def gen(repo):
    path = os.path.join(repo, "orso", "tools.py")
    tree = ast.parse(open(path).read())
    fn = [n for n in ast.walk(tree) if isinstance(n, ast.FunctionDef) and n.name == "parse_iso"]
    if len(fn) != 1:
        raise RuntimeError("expected exactly one def parse_iso in orso/tools.py")
    body = [s for s in fn[0].body if not (isinstance(s, ast.Expr) and isinstance(getattr(s, "value", None), ast.Constant))]
    if len(body) != 1 or not isinstance(body[0], ast.Try):
        raise RuntimeError("parse_iso body is no longer a single try statement")
    tr = body[0]
    if len(tr.handlers) != 1 or tr.orelse or tr.finalbody:
        raise RuntimeError("parse_iso: expected one except clause and no else/finally")
    h = tr.handlers[0]
    hb = h.body
    if not (len(hb) == 1 and isinstance(hb[0], ast.Return) and (hb[0].value is None or (isinstance(hb[0].value, ast.Constant) and hb[0].value.value is None))):
        raise RuntimeError("parse_iso: the except clause no longer just returns None")
    if h.type is None:
        names = ["BaseException"]
    elif isinstance(h.type, ast.Name):
        names = [h.type.id]
    elif isinstance(h.type, ast.Tuple) and all(isinstance(e, ast.Name) for e in h.type.elts):
        names = [e.id for e in h.type.elts]
    else:
        raise RuntimeError("parse_iso: unexpected shape of the except clause")
    catch_all = any(n in ("Exception", "BaseException") for n in names)
    listed = []
    for n in names:
        if n in ("Exception", "BaseException"):
            continue
        if n == "LookupError":
            listed.append("IndexError")
        elif n in ("UnicodeDecodeError", "UnicodeError"):
            continue  # narrower than the ValueError the model raises: not counted
        elif n in EXN:
            listed.append(n)
        else:
            raise RuntimeError("parse_iso catches an exception class the model does not know: " + n)
    # Unicode tables from the running interpreter
    zeros, other, spaces = [], [], []
    c = 0
    top = sys.maxunicode
    while c <= top:
        ch = chr(c)
        if ch.isdecimal():
            for k in range(10):
                d = chr(c + k)
                if not d.isdecimal() or int(d) != k or not d.isdigit():
                    raise RuntimeError("decimal digits do not come in aligned runs of ten at U+%04X" % c)
            zeros.append(c)
            c += 10
            continue
        if ch.isdigit():
            other.append(c)
        if c >= 127 and ch.isspace():
            spaces.append(c)
        c += 1

    def ranges(xs):
        out = []
        for x in xs:
            if out and out[-1][1] == x - 1:
                out[-1][1] = x
            else:
                out.append([x, x])
        return out

    if 48 not in zeros:
        raise RuntimeError("ASCII digits missing from the decimal table")
    # int() must treat exactly these as digits / spaces (spot check of the whole table)
    for z in zeros:
        if int(chr(z + 7)) != 7:
            raise RuntimeError("int() disagrees with isdecimal at U+%04X" % z)
    for s in spaces:
        if int(chr(s) + "1") != 1:
            raise RuntimeError("int() does not skip space U+%04X" % s)
    lim = sys.get_int_max_str_digits()
    if lim <= 0:
        raise RuntimeError("int max str digits is disabled; the model expects a positive limit")
    text = "(* GENERATED by tools/props/C08.py gen() from %s and the running interpreter - do not edit *)\n" % "orso/tools.py"
    text += "From Coq Require Import List NArith ZArith.\nImport ListNotations.\n"
    text += "Inductive exn := " + " | ".join(EXN) + ".\n"
    text += "(* except (%s): return None *)\n" % ", ".join(names)
    text += "Definition parse_iso_catches : list exn := %s.\n" % L.lst(listed)
    text += "Definition parse_iso_catches_all : bool := %s.\n" % L.boolean(catch_all)
    text += "(* code point of the zero of every run of ten decimal digits (str.isdecimal, accepted by int()) *)\n"
    text += "Definition nd_zeros : list N := %s%%N.\n" % L.lst(str(z) for z in zeros)
    text += "(* str.isdigit() true but not decimal: inclusive ranges *)\n"
    text += "Definition digit_other : list (N * N) := %s.\n" % L.lst("(%d, %d)%%N" % (a, b) for a, b in ranges(other))
    text += "(* str.isspace() at or above U+007F: inclusive ranges *)\n"
    text += "Definition uni_space : list (N * N) := %s.\n" % L.lst("(%d, %d)%%N" % (a, b) for a, b in ranges(spaces))
    text += "Definition int_max_str_digits : Z := %s.\n" % L.Z(lim)
    return {"C08_Tables": text}


# --------------------------------------------------------------------------- building inputs
def _suffix_text(suf):
    if suf[0] == "none":
        return ""
    if suf[0] == "Z":
        return "Z"
    sign, colon, oh, om = suf
    return "%s%02d%s%02d" % (sign, oh, ":" if colon else "", om)


_SUFS = [["none"], ["Z"], ["+", True, 1, 0], ["+", False, 8, 0], ["-", True, 5, 0], ["-", False, 9, 30]]


def _norm(case):
    """A sweep case {"k":"sweep","o":ordinal,"v":0..3} stands for the ISO case computed here."""
    if case["k"] != "sweep":
        return case
    o, v = case["o"], case["v"]
    dd = datetime.date.fromordinal(o)
    h = (o * 7919) % 86400
    f = [dd.year, dd.month, dd.day, h // 3600, (h // 60) % 60, h % 60]
    if v == 0:
        return {"k": "iso", "f": f, "form": 0, "sep": "T", "frac": "", "suf": _SUFS[o % 6], "bytes": False, "sweep": True}
    if v == 1:
        return {"k": "iso", "f": f, "form": 0, "sep": " ", "frac": "%06d" % ((o * 104729) % 1000000), "suf": _SUFS[(o + 1) % 6], "bytes": o % 2 == 0, "sweep": True}
    if v == 2:
        return {"k": "iso", "f": f, "form": 1, "sep": "T" if o % 2 else " ", "frac": "", "suf": _SUFS[(o + 2) % 6], "bytes": False, "sweep": True}
    return {"k": "iso", "f": f, "form": 2, "sep": "T", "frac": "", "suf": _SUFS[o % 4], "bytes": o % 3 == 0, "sweep": True}


def _full(obs):
    """Observations whose three casts are exactly the values derived from parse_iso's result are stored compactly."""
    if isinstance(obs, dict) and obs.get("casts") == "agree":
        r = obs["iso"]
        out = dict(obs)
        del out["casts"]
        out.update({"ts": r, "date": ["d", r[1][:3]], "time": ["t", r[1][3:]]})
        return out
    return obs


def iso_text(case):
    y, m, d, h, mi, s = case["f"]
    form = case["form"]
    dtv = datetime.datetime(y, m, d, h, mi, s)
    if form == 0:
        base = dtv.isoformat(case["sep"], timespec="seconds")
        frac = case["frac"]
        if frac:
            base += "." + frac
        if len(frac) == 6:  # cross-check with CPython's own rendering
            want = dtv.replace(microsecond=int(frac)).isoformat(case["sep"], timespec="microseconds")
            if want != base:
                raise RuntimeError("hand-built rendering %r differs from isoformat %r" % (base, want))
    elif form == 1:
        base = dtv.isoformat(case["sep"], timespec="minutes")
    else:
        base = dtv.date().isoformat()
    suf = case["suf"]
    text = base + _suffix_text(suf)
    if form != 2 and suf[0] in "+-" and suf[1] and suf[2] < 24 and suf[3] < 60 and (form == 1 or len(case["frac"]) in (0, 6)):
        sgn = 1 if suf[0] == "+" else -1
        tz = datetime.timezone(sgn * datetime.timedelta(hours=suf[2], minutes=suf[3]))
        aware = dtv.replace(tzinfo=tz, microsecond=int(case["frac"]) if (form == 0 and case["frac"]) else 0)
        ts = "minutes" if form == 1 else ("microseconds" if case["frac"] else "seconds")
        want = aware.isoformat(case["sep"], timespec=ts)
        if not (suf[2] == 0 and suf[3] == 0 and sgn == -1) and want != text:
            raise RuntimeError("hand-built rendering %r differs from aware isoformat %r" % (text, want))
    return text


_OBJ = {}
# native datetime.time inputs (isinstance): parse_iso / DATE / TIMESTAMP treat them as no date, TIME returns them unchanged
_TIME_OBJS = {"time": (1, 2, 3, 0), "time_us": (23, 59, 59, 999999), "time_tz": (4, 5, 6, 7), "time_sub": (7, 8, 9, 0), "time_min": (0, 0, 0, 0)}


def _objects():
    if _OBJ:
        return _OBJ
    import decimal
    import numpy

    class StrSub(str):
        pass

    class DtSub(datetime.datetime):
        pass

    class DateSub(datetime.date):
        pass

    class IntSub(int):
        pass

    class TimeSub(datetime.time):
        pass

    class BytesSub(bytes):
        pass

    _OBJ.update({
        "None": lambda: None, "True": lambda: True, "False": lambda: False,
        "list": lambda: [2020, 1, 1], "tuple": lambda: (2020, 1, 1), "dict": lambda: {"a": 1}, "set": lambda: {1},
        "object": lambda: object(), "complex": lambda: 5 + 0j, "time": lambda: datetime.time(1, 2, 3),
        "time_us": lambda: datetime.time(23, 59, 59, 999999), "time_tz": lambda: datetime.time(4, 5, 6, 7, tzinfo=datetime.timezone.utc),
        "time_sub": lambda: TimeSub(7, 8, 9), "time_min": lambda: datetime.time.min,
        "timedelta": lambda: datetime.timedelta(1), "decimal": lambda: decimal.Decimal("5"),
        "bytearray": lambda: bytearray(b"2020-01-01"), "memoryview": lambda: memoryview(b"2020-01-01"),
        "np.int32": lambda: numpy.int32(5), "np.int16": lambda: numpy.int16(5), "np.uint64": lambda: numpy.uint64(5),
        "np.uint8": lambda: numpy.uint8(5), "np.float32": lambda: numpy.float32(5.5), "np.float16": lambda: numpy.float16(5.5),
        "np.bool": lambda: numpy.bool_(True), "np.str_": lambda: numpy.str_("2020-01-01"),
        "np.timedelta64": lambda: numpy.timedelta64(5, "s"), "np.array": lambda: numpy.array([1, 2]),
        "np.array0": lambda: numpy.array(5), "np.complex": lambda: numpy.complex128(5),
        "strsub": lambda: StrSub("2020-01-01"), "strsub_digits": lambda: StrSub("12345"),
        "dtsub": lambda: DtSub(2020, 1, 1, 10, 0, 0), "datesub": lambda: DateSub(2020, 1, 1),
        "intsub": lambda: IntSub(5), "type": lambda: int, "func": lambda: len, "ellipsis": lambda: Ellipsis,
        "emptystr_bytes": lambda: b"", "range": lambda: range(3), "frozenset": lambda: frozenset([1]),
    })
    return _OBJ


def build_value(case):
    """The Python object the implementation is called with."""
    import numpy

    k = case["k"]
    if k == "iso":
        t = iso_text(case)
        return t.encode("utf-8") if case["bytes"] else t
    if k == "int":
        return numpy.int64(case["n"]) if case["ty"] == "np.int64" else int(case["n"])
    if k == "float":
        x = case["x"]
        f = float(x) if x in ("nan", "inf", "-inf") else float.fromhex(x)
        return numpy.float64(f) if case["ty"] == "np.float64" else f
    if k == "text":
        return case["s"]
    if k == "bytes":
        b = bytes.fromhex(case["b"])
        return numpy.bytes_(b) if case.get("ty") == "np.bytes_" else b
    if k == "native":
        y, m, d, h, mi, s, us = case["f"]
        if case["ty"] == "date":
            return datetime.date(y, m, d)
        tz = None
        if case["ty"] == "datetime_tz":
            tz = datetime.timezone(datetime.timedelta(minutes=case["off"]))
        return datetime.datetime(y, m, d, h, mi, s, us, tzinfo=tz)
    if k == "dt64":
        if case.get("nat"):
            return numpy.datetime64("NaT")
        return numpy.datetime64(int(case["i"]), case["unit"])
    if k == "pandas":
        import pandas

        if case.get("nat"):
            return pandas.NaT
        return pandas.Timestamp(int(case["ns"]), unit="ns", tz=case.get("tz"))
    if k == "obj":
        return _objects()[case["what"]]()
    raise KeyError(k)


def _res(fn, x, kind):
    import warnings

    try:
        with warnings.catch_warnings():
            warnings.simplefilter("ignore")
            r = fn(x)
    except BaseException as e:  # the call raised
        if isinstance(e, (KeyboardInterrupt, SystemExit)):
            raise
        return ["raise", type(e).__name__]
    if r is None:
        return ["none"]
    if kind == "dt" and isinstance(r, datetime.datetime) and type(r).__name__ != "NaTType":
        return ["dt", [r.year, r.month, r.day, r.hour, r.minute, r.second, r.microsecond]]
    if kind == "d" and type(r) is datetime.date:
        return ["d", [r.year, r.month, r.day]]
    if kind == "t" and isinstance(r, datetime.time):
        return ["t", [r.hour, r.minute, r.second, r.microsecond]]
    return ["weird", type(r).__name__]


def observe(case):
    case = _norm(case)
    k = case["k"]
    if k == "lib_fromts":
        n = int(case["n"])
        try:
            r = datetime.datetime.fromtimestamp(n, tz=datetime.timezone.utc).replace(tzinfo=None)
            return ["dt", [r.year, r.month, r.day, r.hour, r.minute, r.second, r.microsecond]]
        except Exception as e:
            return ["raise", type(e).__name__]
    if k == "lib_int":
        s = case["s"]
        try:
            return {"isdigit": s.isdigit(), "int": ["ok", int(s)]}
        except Exception as e:
            return {"isdigit": s.isdigit(), "int": ["raise", type(e).__name__]}
    if k == "lib_utf8":
        b = bytes.fromhex(case["b"])
        try:
            return ["ok", [ord(c) for c in b.decode("utf-8")]]
        except UnicodeDecodeError:
            return ["raise", "ValueError"]
    from orso.tools import parse_iso
    from orso.types import OrsoTypes

    if k == "iso":
        v0 = build_value(case)  # str / bytes: immutable, one object serves the four calls
        mk = lambda: v0
    else:
        mk = lambda: build_value(case)
    obs = {
        "iso": _res(parse_iso, mk(), "dt"),
        "ts": _res(OrsoTypes.TIMESTAMP.parse, mk(), "dt"),
        "date": _res(OrsoTypes.DATE.parse, mk(), "d"),
        "time": _res(OrsoTypes.TIME.parse, mk(), "t"),
    }
    r = obs["iso"]
    if r[0] == "dt" and obs["ts"] == r and obs["date"] == ["d", r[1][:3]] and obs["time"] == ["t", r[1][3:]]:
        obs = {"iso": r, "casts": "agree"}
    if k == "dt64":
        # the NumPy black box parse_iso relies on: whole seconds of the value, or the error NumPy raises
        import numpy
        import warnings

        try:
            with warnings.catch_warnings():
                warnings.simplefilter("ignore")
                obs["conv"] = ["secs", int(build_value(case).astype("datetime64[s]").astype(numpy.int64))]
        except Exception as e:
            obs["conv"] = ["raise", type(e).__name__]
    if k == "pandas":
        import warnings

        with warnings.catch_warnings():
            warnings.simplefilter("ignore")
            p = build_value(case).to_pydatetime()
        if type(p) is datetime.datetime:
            obs["topy"] = ["dt", [p.year, p.month, p.day, p.hour, p.minute, p.second, p.microsecond]]
        elif type(p) is datetime.date:
            obs["topy"] = ["d", [p.year, p.month, p.day]]
        else:
            obs["topy"] = ["other", type(p).__name__]
    return obs


# --------------------------------------------------------------------------- the property oracle
_EPOCH0 = datetime.datetime(1970, 1, 1)


def _civil(n):
    """UTC civil time of integer second n (independent of fromtimestamp)."""
    r = _EPOCH0 + datetime.timedelta(seconds=n)
    return [r.year, r.month, r.day, r.hour, r.minute, r.second, 0]


def _expect_epoch(n):
    return ["dt", _civil(n)] if MIN_EPOCH <= n <= MAX_EPOCH else ["none"]


_DT64_FIXED = {"W": (604800, 1), "D": (86400, 1), "h": (3600, 1), "m": (60, 1), "s": (1, 1), "ms": (1, 10 ** 3), "us": (1, 10 ** 6),
               "ns": (1, 10 ** 9), "ps": (1, 10 ** 12), "fs": (1, 10 ** 15), "as": (1, 10 ** 18)}


def _jan1_days(y):
    """day number of y-01-01 (proleptic Gregorian, any integer year)"""
    y -= 1
    era = y // 400
    yoe = y - era * 400
    return era * 146097 + yoe * 365 + yoe // 4 - yoe // 100 + 306 - 719468


_CUM = [0, 31, 59, 90, 120, 151, 181, 212, 243, 273, 304, 334]


def _dt64_exact(unit, i):
    """floor, in whole seconds since the epoch, of the instant numpy.datetime64(i, unit) denotes (exact integers)"""
    if unit in _DT64_FIXED:
        num, den = _DT64_FIXED[unit]
        return (i * num) // den
    if unit == "Y":
        return _jan1_days(1970 + i) * 86400
    if unit == "M":
        y, m0 = 1970 + i // 12, i % 12
        leap = y % 4 == 0 and (y % 100 != 0 or y % 400 == 0)
        return (_jan1_days(y) + _CUM[m0] + (1 if leap and m0 >= 2 else 0)) * 86400
    raise KeyError(unit)


def _pandas_wall(ns, tz):
    """wall clock (whole seconds) of the instant ns nanoseconds after the epoch, in tz - without pandas"""
    import zoneinfo

    t = datetime.datetime(1970, 1, 1, tzinfo=datetime.timezone.utc) + datetime.timedelta(seconds=ns // 10 ** 9)
    if tz is not None:
        t = t.astimezone(zoneinfo.ZoneInfo(tz))
    return [t.year, t.month, t.day, t.hour, t.minute, t.second, 0]


def _strip_like_documented(s):
    """Suffix handling the property describes: trailing Z, +offset, -hh:mm / -hhmm after a time."""
    if s.endswith("Z"):
        s = s[:-1]
    if "+" in s:
        s = s[: s.index("+")]
        return s if 10 <= len(s) <= 28 else None
    if len(s) > 16 and re.search(r"-..:..\Z", s, re.S):
        return s[:-6]
    if len(s) > 16 and s[-5] == "-" and s[-5:].replace("-", "").isdigit():
        return s[:-5]
    return s


_SHAPE_DATE = re.compile(r"\A.{4}-.{2}-.{2}\Z", re.S)
_SHAPE_MIN = re.compile(r"\A.{4}-.{2}-.{2}(?:[T ].{2}.|.{3}:).{2}\Z", re.S)
_SHAPE_SEC = re.compile(r"\A.{4}-.{2}-.{2}(?:[T ].{2}.|.{3}:).{2}:.{2}.*\Z", re.S)


def _shape(s):
    """None if the text fails the positional shape test, else the list of field slices."""
    if not 10 <= len(s) <= 33:
        return None
    v = _strip_like_documented(s)
    if v is None:
        return None
    if _SHAPE_DATE.match(v):
        return [v[:4], v[5:7], v[8:10]]
    if _SHAPE_MIN.match(v):
        return [v[:4], v[5:7], v[8:10], v[11:13], v[14:16]]
    if _SHAPE_SEC.match(v):
        return [v[:4], v[5:7], v[8:10], v[11:13], v[14:16], v[17:19]]
    return None


def _casts_agree(obs, native_time=None):
    """DATE / TIMESTAMP / TIME casts agree with parse_iso (ValueError where it gives None); the TIME cast of a
    native datetime.time is that time (parse_time returns it unchanged)."""
    r = obs["iso"]
    if native_time is not None:
        want = (["raise", "ValueError"], ["raise", "ValueError"], ["t", list(native_time)])
        for name, w in zip(("ts", "date", "time"), want):
            if obs[name] != w:
                return "%s cast of a native time: expected %s, got %s" % (name.upper(), w, obs[name])
        return None
    if r[0] == "dt":
        want = (["dt", r[1]], ["d", r[1][:3]], ["t", r[1][3:]])
    elif r[0] == "none":
        want = (["raise", "ValueError"],) * 3
    else:
        return None
    for name, w in zip(("ts", "date", "time"), want):
        if obs[name] != w:
            return "%s cast must agree with parse_iso: expected %s, got %s" % (name.upper(), w, obs[name])
    return None


def _text_oracle(s, r):
    if s.isdecimal():
        # all-digit input: Unix seconds (int() may refuse very long strings -> nothing like a date)
        try:
            n = int(s)
        except ValueError:
            return None if r == ["none"] else "digit string beyond int()'s limit must give None, got %s" % r
        want = _expect_epoch(n)
        return None if r == want else "all-digit input is Unix seconds in UTC: expected %s, got %s" % (want, r)
    fields = _shape(s) if not s.isdigit() else None
    if fields is None:
        return None if r == ["none"] else "text failing the positional shape test must give None, got %s" % r
    # passes the shape test: a date or nothing
    if r == ["none"]:
        return None
    try:
        vals = [int(x) for x in fields]
        want = datetime.datetime(*vals)
        wantl = ["dt", [want.year, want.month, want.day, want.hour, want.minute, want.second, 0]]
    except (ValueError, OverflowError):
        return "fields %s are not a valid date-time, expected None, got %s" % (fields, r)
    return None if r == wantl else "fields %s read as %s, got %s" % (fields, wantl, r)


def oracle(case, obs):
    case, obs = _norm(case), _full(obs)
    k = case["k"]
    if k.startswith("lib_"):
        return None
    # the parser never raises
    if obs["iso"][0] == "raise":
        return "parse_iso must never raise, raised %s" % obs["iso"][1]
    if obs["iso"][0] == "weird":
        return "parse_iso must return a datetime or None, returned a %s" % obs["iso"][1]
    r = obs["iso"]
    why = None
    if k == "iso":
        y, m, d, h, mi, s = case["f"]
        form = case["form"]
        want = ["dt", [y, m, d, h, mi, s, 0] if form == 0 else ([y, m, d, h, mi, 0, 0] if form == 1 else [y, m, d, 0, 0, 0, 0])]
        if form == 2 and case["suf"][0] == "-":
            pass  # not an ISO 8601 form (observation in DESIGN section 8): only "does not raise"
        elif len(case["frac"]) > 6:
            if r != want and r != ["none"]:
                why = "fraction beyond 6 digits: expected %s or None, got %s" % (want, r)
        elif r != want:
            why = "ISO rendering %r must parse to %s, got %s" % (iso_text(case), want, r)
    elif k == "int":
        want = _expect_epoch(int(case["n"]))
        if r != want:
            why = "integer is Unix seconds in UTC: expected %s, got %s" % (want, r)
    elif k == "float":
        x = case["x"]
        if x in ("nan", "inf", "-inf"):
            want = ["none"]
        else:
            f = float.fromhex(x)
            want = _expect_epoch(math.floor(f))
        if r != want:
            why = "float is Unix seconds in UTC (whole seconds): expected %s, got %s" % (want, r)
    elif k == "text":
        why = _text_oracle(case["s"], r)
    elif k == "bytes":
        b = bytes.fromhex(case["b"])
        try:
            s = b.decode("utf-8")
        except UnicodeDecodeError:
            s = None
        if s is None:
            if r != ["none"]:
                why = "bytes that are not UTF-8 must give None, got %s" % r
        else:
            why = _text_oracle(s, r)
    elif k == "native":
        y, m, d, h, mi, s, us = case["f"]
        want = ["dt", [y, m, d, 0, 0, 0, 0] if case["ty"] == "date" else [y, m, d, h, mi, s, 0]]
        if r != want:
            why = "native %s must map to %s, got %s" % (case["ty"], want, r)
    elif k == "dt64":
        if case.get("nat"):
            want = ["none"]
        else:
            want = _expect_epoch(_dt64_exact(case["unit"], int(case["i"])))
        if r != want:
            why = "numpy.datetime64 is the instant it denotes, in whole seconds (floor), None outside years 1..9999: expected %s, got %s" % (want, r)
    elif k == "pandas":
        if case.get("nat"):
            want = ["none"]
        else:
            want = ["dt", _pandas_wall(int(case["ns"]), case.get("tz"))]
        if r != want:
            why = "pandas value must map to its wall-clock time in whole seconds: expected %s, got %s" % (want, r)
    elif k == "obj":
        if r != ["none"]:
            why = "input that is neither a date-time, a number nor text must give None, got %s" % r
    if why is None and k == "obj" and case["what"] == "None":
        # OrsoTypes.X.parse(None) is None for every type
        bad = [n for n in ("ts", "date", "time") if obs[n] != ["none"]]
        return "casting None must give None, got %s" % [obs[n] for n in bad] if bad else None
    if why is None:
        why = _casts_agree(obs, _TIME_OBJS.get(case["what"]) if k == "obj" else None)
    return why


# --------------------------------------------------------------------------- known findings
def known_still_fails(fid, witness):
    """Replay a known finding's witness: the oracle's complaint if it still fails, None if it no longer does."""
    obs = observe(witness)
    return oracle(witness, obs)


def known(case, obs):
    """F-C08-5 (known): NumPy's own conversion to datetime64[s] is not the floor of the instant (silent int64 wrap for
    Y / M units, OverflowError at the lowest second of the ns / ps / fs ranges and for every datetime64[as]) AND that
    matters, i.e. the true instant or the converted value lies inside years 1..9999."""
    if case["k"] != "dt64" or case.get("nat") or not isinstance(obs, dict) or "conv" not in obs:
        return None
    exact = _dt64_exact(case["unit"], int(case["i"]))
    conv = obs["conv"]
    if conv == ["secs", exact]:
        return None
    in_range = MIN_EPOCH <= exact <= MAX_EPOCH
    conv_in_range = conv[0] == "secs" and MIN_EPOCH <= conv[1] <= MAX_EPOCH
    return "F-C08-5" if (in_range or conv_in_range) else None


# --------------------------------------------------------------------------- Coq terms
def _pk(cps):
    """code points -> Coq term of type list N: short chunks packed big-endian in base 2^8
    (all code points < 256) or 2^21, chained as  u8 len value (u8 len value ... nil)"""
    cps = list(cps)
    if all(c < 256 for c in cps):
        fn, bits, size = "u8", 8, 14
    else:
        fn, bits, size = "u21", 21, 5
    out = "nil"
    for i in range((len(cps) - 1) // size * size if cps else -1, -1, -size):
        v = 0
        part = cps[i:i + size]
        for c in part:
            v = (v << bits) | c
        out = "(%s %d 0x%x %s)" % (fn, len(part), v, out)
    return out


def _pktext(s):
    return _pk([ord(c) for c in s])


def _exn(name):
    return name if name in EXN else "AttributeError"  # a class the model never lets escape: shows as a mismatch


def _z(x):
    x = int(x)
    return "(%d)" % x if x < 0 else "%d" % x


def _dt(f):
    return "(%s)" % ", ".join(_z(x) for x in f)


def _r_iso(r):
    if r[0] == "none":
        return "(Ok None)"
    if r[0] == "dt":
        return "(Ok (Some %s))" % _dt(r[1])
    if r[0] == "raise":
        return "(Raise %s)" % _exn(r[1])
    return None


def _r_plain(r):
    if r[0] in ("dt", "d", "t"):
        return "(Ok %s)" % _dt(r[1])
    if r[0] == "raise":
        return "(Raise %s)" % _exn(r[1])
    return None


def _obs_term(obs):
    r = obs["iso"]
    if r[0] == "dt" and obs["ts"] == r and obs["date"] == ["d", r[1][:3]] and obs["time"] == ["t", r[1][3:]]:
        return "(obs_dt %s)" % " ".join(_z(x) for x in r[1])
    if r[0] == "none" and obs["ts"] == obs["date"] == obs["time"] == ["raise", "ValueError"]:
        return "obs_none"
    parts = [_r_iso(obs["iso"]), _r_plain(obs["ts"]), _r_plain(obs["date"]), _r_plain(obs["time"])]
    if any(p is None for p in parts):
        return None
    return "(obs_gen %s %s %s %s)" % tuple(parts)


def _fl(x):
    if x == "nan":
        return "FNan"
    if x in ("inf", "-inf"):
        return "FInf"
    f = float.fromhex(x)
    if f == 0:
        return "(FFin 0 0)"
    m, e = math.frexp(f)
    return "(FFin %s %s)" % (_z(int(m * (1 << 53))), _z(e - 53))


def _suffix_term(suf):
    if suf[0] == "none":
        return "SNone"
    if suf[0] == "Z":
        return "SZ"
    return "(%s %s %s %s)" % ("SPlus" if suf[0] == "+" else "SMinus", L.boolean(suf[1]), _z(suf[2]), _z(suf[3]))


def value_term(case, obs):
    k = case["k"]
    if k == "int":
        return "(%s %s)" % ("VNpInt64" if case["ty"] == "np.int64" else "VInt", _z(case["n"]))
    if k == "float":
        return "(%s %s)" % ("VNpFloat64" if case["ty"] == "np.float64" else "VFloat", _fl(case["x"]))
    if k == "text":
        return "(VStr %s)" % _pktext(case["s"])
    if k == "bytes":
        return "(VBytes %s)" % _pk(list(bytes.fromhex(case["b"])))
    if k == "native":
        f = case["f"]
        if case["ty"] == "date":
            return "(VDate %s %s %s)" % tuple(_z(x) for x in f[:3])
        return "(VDatetime %s)" % " ".join(_z(x) for x in f)
    if k == "dt64":
        c = obs["conv"]
        if c[0] == "secs":
            return "(VNpDatetime64 (NpSecs %s))" % _z(c[1])
        if c == ["raise", "OverflowError"]:
            return "(VNpDatetime64 NpOverflow)"
        return None
    if k == "pandas":
        t = obs["topy"]
        if t[0] == "dt":
            return "(VToPy (ToDatetime %s))" % " ".join(_z(x) for x in t[1])
        if t[0] == "d":
            return "(VToPy (ToDate %s))" % " ".join(_z(x) for x in t[1])
        return "(VToPy ToOther)"
    if k == "obj":
        if case["what"] == "None":
            return None  # OrsoTypes.parse(None) short-circuits to None: checked by the oracle only
        if case["what"] == "emptystr_bytes":
            return "(VBytes nil)"
        if case["what"] in _TIME_OBJS:
            return "(VTime %s)" % " ".join(_z(x) for x in _TIME_OBJS[case["what"]])
        return "VOther"
    return None


def to_coq(case, obs):
    case, obs = _norm(case), _full(obs)
    k = case["k"]
    if k == "lib_fromts":
        return ("fromts", "(%s, (%s : result dt))" % (_z(case["n"]), _r_plain(obs)))
    if k == "lib_int":
        r = obs["int"]
        rt = "(Ok %s)" % _z(r[1]) if r[0] == "ok" else "(Raise %s)" % _exn(r[1])
        return ("int", "(int_case %s %s %s)" % (_pktext(case["s"]), L.boolean(obs["isdigit"]), rt))
    if k == "lib_utf8":
        b = bytes.fromhex(case["b"])
        return ("utf8", "(utf8_case %s %s %s)" % (_pk(list(b)), L.boolean(obs[0] == "ok"), _pk(obs[1]) if obs[0] == "ok" else "nil"))
    ot = _obs_term(obs)
    if ot is None:
        return None
    if k == "iso" and case.get("sweep") and len(case["frac"]) <= 6:
        # exhaustive day sweep: compact case (fields, variant, hash of the text CPython
        # rendered; the model re-renders it), used only when the observation is the expected one
        y, m, d, h, mi, s = case["f"]
        form = case["form"]
        exp = [y, m, d, h, mi, s, 0] if form == 0 else ([y, m, d, h, mi, 0, 0] if form == 1 else [y, m, d, 0, 0, 0, 0])
        if ot == "(obs_dt %s)" % " ".join(_z(x) for x in exp):
            hv = 0
            for ch in iso_text(case):
                hv = (hv * 1000003 + ord(ch)) & 1099511627775
            suf = case["suf"]
            sk = 0 if suf[0] == "none" else 1 if suf[0] == "Z" else (2 if suf[0] == "+" else 4) + (0 if suf[1] else 1)
            oh, om = (suf[2], suf[3]) if len(suf) == 4 else (0, 0)
            return ("isoh", "(i63 %d %d %d %d %d %d %d %d %d %d %d %s 0x%x)%%uint63" % (
                form, y, m, d, h * 3600 + mi * 60 + s, 0 if case["sep"] == "T" else 1, len(case["frac"]), int(case["frac"] or "0"),
                sk, oh, om, L.boolean(case["bytes"]), hv))
    if k == "iso":
        y, m, d, h, mi, s = case["f"]
        t = iso_text(case)
        term = "(iso_case %d %s %d %s %s %s %s %s)" % (
            case["form"], " ".join(_z(x) for x in (y, m, d, h, mi, s)), ord(case["sep"]), _pktext(case["frac"]),
            _suffix_term(case["suf"]), L.boolean(case["bytes"]), _pktext(t), ot)
        return ("iso", term)
    vt = value_term(case, obs)
    if vt is None:
        return None
    return ("val", "(vcase %s %s)" % (vt, ot))


# --------------------------------------------------------------------------- bookkeeping
def nontrivial_key(case, obs):
    if case["k"] == "sweep":
        return (case["o"], case["v"])
    k = case["k"]
    if k.startswith("lib_"):
        return None
    return repr(sorted(case.items(), key=lambda kv: kv[0]))


def classify(case, obs):
    case, obs = _norm(case), _full(obs)
    k = case["k"]
    yield "kind:" + k
    if k.startswith("lib_"):
        return
    yield "result:" + obs["iso"][0]
    if k == "iso":
        yield "form:%d" % case["form"]
        yield "suffix:" + case["suf"][0] + ("" if case["suf"][0] not in "+-" else (":" if case["suf"][1] else ""))
        yield "frac:%d" % len(case["frac"])
        yield "bytes" if case["bytes"] else "str"
        y = case["f"][0]
        yield "year:" + ("1-99" if y < 100 else "100-999" if y < 1000 else "1000-1899" if y < 1900 else "1900-2100" if y <= 2100 else "2101-9999")
    if k == "int":
        n = int(case["n"])
        yield "int:" + ("in-range" if MIN_EPOCH <= n <= MAX_EPOCH else "out-of-range")
    if k == "text":
        yield "text:" + ("digits" if case["s"].isdigit() else "shape-ok" if _shape(case["s"]) else "shape-fail")


# --------------------------------------------------------------------------- generators
def _days_from_civil(y, m, d):
    return datetime.date(y, m, d).toordinal() - 719163


MAX_DAY = 2932896
MIN_DAY = -719162


def _rand_fields(rng):
    r = rng.random()
    if r < 0.70:
        dn = rng.randint(MIN_DAY, MAX_DAY)
        dd = datetime.date.fromordinal(dn + 719163)
        y, m, d = dd.year, dd.month, dd.day
    elif r < 0.80:
        y = rng.choice([1, 2, 4, 99, 100, 400, 999, 1000, 1582, 1600, 1900, 1969, 1970, 2000, 2024, 2038, 2100, 9996, 9999])
        m = rng.randint(1, 12)
        d = rng.choice([1, (datetime.date(y + (m == 12), m % 12 + 1, 1) - datetime.timedelta(1)).day if y < 9999 or m < 12 else 31])
    elif r < 0.90:
        y = rng.choice([4, 400, 1600, 2000, 2024, 9996, 1900, 2100, 1, 9999])
        leap = y % 4 == 0 and (y % 100 != 0 or y % 400 == 0)
        m, d = 2, 29 if leap else 28
    else:
        y, m, d = rng.choice([(1, 1, 1), (9999, 12, 31), (1970, 1, 1), (1969, 12, 31), (2038, 1, 19), (1, 12, 31), (9999, 1, 1)])
    t = rng.random()
    if t < 0.7:
        h, mi, s = rng.randint(0, 23), rng.randint(0, 59), rng.randint(0, 59)
    else:
        h, mi, s = rng.choice([(0, 0, 0), (23, 59, 59), (0, 0, 59), (12, 0, 0), (23, 0, 0), (0, 59, 0), (9, 9, 9), (10, 10, 10)])
    return [y, m, d, h, mi, s]


def _rand_suffix(rng):
    r = rng.randrange(6)
    if r == 0:
        return ["none"]
    if r == 1:
        return ["Z"]
    oh = rng.choice([0, 1, 5, 8, 9, 10, 12, 14, 23, rng.randint(0, 23)])
    om = rng.choice([0, 30, 45, 59, rng.randint(0, 59)])
    return [["+", True, oh, om], ["+", False, oh, om], ["-", True, oh, om], ["-", False, oh, om]][r - 2]


def _rand_iso(rng):
    form = rng.choice([0, 0, 0, 0, 1, 2])
    frac = ""
    if form == 0 and rng.random() < 0.6:
        n = rng.choice([1, 2, 3, 3, 4, 5, 6, 6, 6, 6, 7, 8, 9])
        frac = "".join(rng.choice("0123456789") for _ in range(n))
    return {"k": "iso", "f": _rand_fields(rng), "form": form, "sep": rng.choice("T "), "frac": frac,
            "suf": _rand_suffix(rng), "bytes": rng.random() < 0.3}


_EDGE_INTS = [0, 1, -1, 59, 60, 86399, 86400, -86400, -86401, MIN_EPOCH, MIN_EPOCH - 1, MIN_EPOCH + 1, MAX_EPOCH, MAX_EPOCH + 1, MAX_EPOCH - 1,
              2 ** 31 - 1, 2 ** 31, -2 ** 31, 2 ** 32, 2 ** 53, 2 ** 63 - 1, 2 ** 63, -2 ** 63, -2 ** 63 - 1, 10 ** 20, -10 ** 20, 10 ** 30, -10 ** 30,
              67768036191676799, 67768036191676800, -67768040609740800, -67768040609740801, 10 ** 16, -10 ** 16, 10 ** 17, -10 ** 17,
              951782400, 951868800, 4107542400, 1582934400, 68169600, -2203891200, 253370764800, -62135510400, -62104060800]


def _rand_int(rng):
    r = rng.random()
    if r < 0.35:
        return rng.randint(MIN_EPOCH, MAX_EPOCH)
    if r < 0.55:
        return rng.choice(_EDGE_INTS) + rng.choice([0, 0, 1, -1, 86400, -86400])
    if r < 0.65:
        return rng.choice([MIN_EPOCH, MAX_EPOCH]) + rng.randint(-200000, 200000)
    if r < 0.75:
        return rng.choice([-1, 1]) * rng.randint(0, 10 ** rng.randint(1, 40))
    if r < 0.85:
        return rng.choice([67768036191676800, -67768040609740800, 2 ** 63, -2 ** 63]) + rng.randint(-100000, 100000)
    y = rng.choice([1, 4, 100, 400, 1900, 2000, 2100, 9999, rng.randint(1, 9999)])
    return _days_from_civil(y, rng.choice([1, 2, 3, 12]), rng.choice([1, 28])) * 86400 + rng.choice([0, -1, 86399, 43200])


def _rand_float(rng):
    r = rng.random()
    if r < 0.1:
        return rng.choice(["nan", "inf", "-inf"])
    if r < 0.4:
        f = float(_rand_int(rng))
    elif r < 0.7:
        f = rng.uniform(0, MAX_EPOCH + 10)
    elif r < 0.8:
        f = rng.uniform(MIN_EPOCH - 10, 0)
    elif r < 0.9:
        f = rng.choice([1e300, -1e300, 1e19, -1e19, 9.3e18, 2.0 ** 63, -(2.0 ** 63), 2.0 ** 63 - 1024, 1e-300, -1e-300, 0.0, -0.0, 0.5, -0.5, 0.999999, 5e-324,
                        MAX_EPOCH + 0.5, MAX_EPOCH + 0.999, float(MAX_EPOCH + 1), MIN_EPOCH - 0.5, float(MIN_EPOCH), MIN_EPOCH + 0.5, 1.7976931348623157e308])
    else:
        f = math.ldexp(rng.random() - 0.5, rng.randint(-10, 80))
    return f.hex()


_UNI_DIGITS = "0123456789٠١٢٣٤٥٦٧٨٩०१२३४५६७८९０１２３４５６７８９𝟎𝟏𝟐𝟑"
_ODD_DIGITS = "²³¹⁰⁴₀₁①⑨❶"
_ALPHABET = "0123456789-:T Z+._/\t\n\xa0 xXtz,eE\x00\x1c٣९２²é€𝟗\ud800"


def _rand_digits(rng):
    r = rng.random()
    n = rng.choice([1, 2, 5, 9, 10, 11, 12, 13, 15, 19, 20, 25, 33, 34, 40, rng.randint(1, 40)])
    if r < 0.55:
        s = "".join(rng.choice("0123456789") for _ in range(n))
        if rng.random() < 0.3:
            s = str(abs(_rand_int(rng)))
        if rng.random() < 0.15:
            s = "0" * rng.randint(1, 12) + s
        return s
    if r < 0.85:
        return "".join(rng.choice(_UNI_DIGITS) for _ in range(n))
    return "".join(rng.choice(_UNI_DIGITS + _ODD_DIGITS) for _ in range(n))


def _mutate(rng, s):
    r0 = rng.random()
    if r0 < 0.25 and len(s) >= 10:
        # aim at the structural positions and the ends
        i = rng.choice([4, 7, 10, 13, 16, 19, len(s) - 1, len(s) - 3, len(s) - 5, len(s) - 6])
        if i < len(s):
            return s[:i] + rng.choice(_ALPHABET + "zZ-+:") + s[i + 1:]
    if r0 < 0.35:
        return s + rng.choice(_ALPHABET + "zZ")
    if r0 < 0.40:
        return rng.choice(_ALPHABET + "zZ") + s
    s = list(s)
    for _ in range(rng.choice([1, 1, 1, 2, 3])):
        r = rng.random()
        if not s:
            break
        i = rng.randrange(len(s))
        if r < 0.4:
            s[i] = rng.choice(_ALPHABET)
        elif r < 0.6:
            del s[i]
        elif r < 0.8:
            s.insert(i, rng.choice(_ALPHABET))
        elif r < 0.9 and len(s) > 1:
            j = rng.randrange(len(s))
            s[i], s[j] = s[j], s[i]
        else:
            s = s[:i]
    return "".join(s)


_FIXED_TEXTS = [
    "", "Z", "+", "-", "T", "2020", "2020-01-01X10:00:00", "2_20-01-01", "2020-01-01-05:00", "2020-01-0Z", "2020-01-01T10:00:00.123456789+00:00",
    "2020-01-01T10:00:00.12345678+0000", "२०२०-01-01", " 202-01-01", "2020-1 -01", "2020-+1-01", "2020-01-01T24:00:00", "2020-02-30", "0000-01-01",
    "2020-01-01T10:00:60", "2020-01-01T10:0", "2020-01-01T10:00:0", "2020-01-01T10:00x00", "2020-01-01 10:00+", "+020-01-01", "2020-01-01T10-00-00",
    "2020-01-01T1-0500", "2020-01-01T10:1-05:00", "2020-01-01T10:00:00.1-2-3", "2020-01-01T10:00:00.+00:00", "2020-01-01T10:00:00Z+01:00",
    "2020-01-01T10:00:00ZZ", "2020-01-01Z", "2020-01-01+01:00", "2020-01-01T10:00Z", "2020-01-01T10:00:00-0٣00", "2020-01-01T10:00:0--500",
    "2020-01-01T10:00-----", "2021-02-29", "2020-02-29", "1900-02-29", "2000-02-29", "2020-13-01", "2020-00-10", "2020-01-00", "2020-01-32",
    "2020-04-31", "10000-01-01", "-001-01-01", "2020-01-01 10:00:00", "2020-01-01\t10:00:00", "2020-01-01T10:00:00" + "0" * 14, "2020-01-01T10:00:00" + "0" * 15,
    "9" * 4300, "9" * 4301, "0" * 4301, "0" * 4300, "0" * 4290 + "1234567890", "²", "12²", "١٢٣", " 123", "12 3", "1_000", "+123", "-123", "1.5", "1e5", "0x10", "١٢٣4567890",
    "2020-01-01T10:00:00\x00", "20\ud80020-01-01", "2020-01-01T1_:00:00", "2020-01-01T+1:00:00", "2020-01-01T 1: 1: 1", "    -  -  ", "----------",
    "2020-01-01T10:00:00+", "+2020-01-01T10:00:00", "2020-01-01T10:00:00.123+05:00:00", "2020-01-01T10:00:00,5", "2020-W01-1", "2020-001", "20200101",
    "2020-01-01z", "2020-01-01T10:00z", "2020-01-01T10:00:00z", "2020-01-01T10:00:00.5z", "2020-01-01T10:00 Z", "2020-01-01T10:00ZZ", "2020-01-01 Z",
    "20200101T100000", "2020-01-01T10", "2020-01-01T1000", "2020-01-01T10:00:00-05", "2020-01-01T10:00:00 -05:00", "12:00:00", "1970-01-01T00:00:00Z",
]


def _rand_text(rng):
    r = rng.random()
    if r < 0.25:
        return _rand_digits(rng)
    if r < 0.70:
        return _mutate(rng, iso_text(_rand_iso(rng)))
    if r < 0.80:
        return rng.choice(_FIXED_TEXTS)
    n = rng.choice([0, 1, 5, 9, 10, 11, 15, 16, 17, 19, 20, 26, 32, 33, 34, 50])
    return "".join(rng.choice(_ALPHABET) for _ in range(n))


def _rand_bytes(rng):
    r = rng.random()
    if r < 0.4:
        b = _rand_text(rng).encode("utf-8", "surrogatepass")
    elif r < 0.7:
        b = bytearray(_rand_text(rng).encode("utf-8", "surrogatepass"))
        if b:
            for _ in range(rng.choice([1, 1, 2])):
                b[rng.randrange(len(b))] = rng.choice([0x80, 0xBF, 0xC0, 0xC1, 0xC2, 0xE0, 0xED, 0xF0, 0xF4, 0xF5, 0xFF, 0xA0, 0x9F, 0x8F, 0x90, rng.randrange(256)])
        b = bytes(b)
    elif r < 0.85:
        b = bytes(rng.randrange(256) for _ in range(rng.choice([1, 2, 3, 4, 10, 19, 33])))
    else:
        b = rng.choice([b"\xc0\x80", b"\xe0\x80\x80", b"\xed\xa0\x80", b"\xf4\x90\x80\x80", b"\xf0\x8f\xbf\xbf", b"\xef\xbf\xbd", b"\xf4\x8f\xbf\xbf",
                        b"\xe2\x82", b"\xc2", b"2020-01-01\xff", b"\xef\xbb\xbf2020-01-01", "२०२०-01-01".encode(), "١٢٣".encode(), b"2020-01-01T10:00:00"])
    return b


def _rand_native(rng):
    y, m, d, h, mi, s = _rand_fields(rng)
    us = rng.choice([0, 0, 1, 500000, 999999, rng.randint(0, 999999)])
    ty = rng.choice(["date", "datetime", "datetime", "datetime_tz"])
    return {"k": "native", "ty": ty, "f": [y, m, d, h, mi, s, us], "off": rng.choice([0, 60, -300, 330, -720, 840, 1439, -1439])}


_DT64_UNITS = ["Y", "M", "W", "D", "h", "m", "s", "ms", "us", "ns", "ns", "us", "ms", "s", "D", "ps", "fs", "as"]
_UNIT_SEC = {"Y": 31556952, "M": 2629746, "W": 604800, "D": 86400, "h": 3600, "m": 60, "s": 1}
_UNIT_PER_SEC = {"ms": 10 ** 3, "us": 10 ** 6, "ns": 10 ** 9, "ps": 10 ** 12, "fs": 10 ** 15, "as": 10 ** 18}
_I64 = 2 ** 63


def _rand_dt64(rng):
    if rng.random() < 0.04:
        return {"k": "dt64", "nat": True}
    u = rng.choice(_DT64_UNITS)
    r = rng.random()
    if r < 0.5:
        sec = rng.randint(MIN_EPOCH, MAX_EPOCH)
    elif r < 0.65:
        sec = rng.randint(-4 * 10 ** 9, 4 * 10 ** 9)          # around 1970, both sides
    elif r < 0.8:
        sec = rng.choice([MIN_EPOCH, MAX_EPOCH, 0]) + rng.randint(-10 ** 6, 10 ** 6)
    elif r < 0.9:
        sec = rng.randint(-10 ** 13, 10 ** 13)                # far outside years 1..9999
    else:
        sec = rng.choice([-1, 1]) * rng.randint(0, 10 ** rng.randint(1, 19))
    if u in _UNIT_SEC:
        i = sec // _UNIT_SEC[u] + rng.choice([0, 0, 1, -1])
    else:
        k = _UNIT_PER_SEC[u]
        # whole second plus a sub-second part: zero, one tick either side, half, just below the next second
        i = sec * k + rng.choice([0, 0, 1, -1, k // 2, k - 1, k - 1000 if k > 1000 else 0, rng.randint(0, k - 1)])
    rr = rng.random()
    if rr < 0.06:
        i = rng.choice([_I64 - 1, -_I64 + 1, -_I64 + 2, _I64 - 2]) + 0
    elif rr < 0.12:
        i = rng.choice([-1, 1]) * (_I64 - 1 - rng.randint(0, 10 ** rng.randint(0, 18)))
    elif rr < 0.16 and u in _UNIT_PER_SEC:
        i = rng.randint(0, 10) * rng.choice([1, -1])      # a few ticks around the epoch (all that fs / as can hold near it)
    i = max(-_I64 + 1, min(_I64 - 1, i))
    return {"k": "dt64", "unit": u, "i": i}


def _rand_pandas(rng):
    if rng.random() < 0.05:
        return {"k": "pandas", "nat": True}
    sec = rng.choice([rng.randint(-9 * 10 ** 9, 9 * 10 ** 9), rng.randint(-10 ** 6, 10 ** 6), rng.randint(-9 * 10 ** 9, 0)])
    ns = sec * 10 ** 9 + rng.choice([0, 0, 1, 500, 500000000, 123456000, 999999999, 999999000, 1000])
    return {"k": "pandas", "ns": ns, "tz": rng.choice([None, None, "UTC", "US/Eastern", "Asia/Kolkata"])}


def _random_case(rng):
    r = rng.random()
    if r < 0.36:
        return _rand_iso(rng)
    if r < 0.46:
        n = _rand_int(rng)
        ty = "np.int64" if (-2 ** 63 <= n < 2 ** 63 and rng.random() < 0.3) else "int"
        return {"k": "int", "n": n, "ty": ty}
    if r < 0.54:
        return {"k": "float", "x": _rand_float(rng), "ty": rng.choice(["float", "float", "np.float64"])}
    if r < 0.70:
        return {"k": "text", "s": _rand_text(rng)}
    if r < 0.77:
        return {"k": "bytes", "b": _rand_bytes(rng).hex(), "ty": rng.choice(["bytes", "bytes", "np.bytes_"])}
    if r < 0.82:
        return _rand_native(rng)
    if r < 0.87:
        return _rand_dt64(rng)
    if r < 0.89:
        return _rand_pandas(rng)
    if r < 0.92:
        return {"k": "obj", "what": rng.choice(sorted(_objects()))}
    if r < 0.95:
        return {"k": "lib_fromts", "n": _rand_int(rng)}
    if r < 0.98:
        s = _rand_text(rng) if rng.random() < 0.5 else _mutate(rng, rng.choice(["2020", "01", " 12", "1_0", "+5", "-07", "٣٤", "１２", "12 ", "\xa07", "7 "]))
        return {"k": "lib_int", "s": s}
    return {"k": "lib_utf8", "b": _rand_bytes(rng).hex()}


def corpus():
    for w in F1_WITNESSES + F2_WITNESSES + F3_WITNESSES + F4_WITNESSES:
        yield w
    for c in [{"k": "dt64", "unit": "Y", "i": 7357062231923646800}, {"k": "dt64", "unit": "ns", "i": -2 ** 63 + 1},
              {"k": "dt64", "unit": "as", "i": -1}, {"k": "dt64", "unit": "Y", "i": 2 ** 40}, {"k": "dt64", "unit": "M", "i": -1},
              {"k": "dt64", "unit": "Y", "i": 8029}, {"k": "dt64", "unit": "Y", "i": 8030}, {"k": "dt64", "unit": "Y", "i": -1969}, {"k": "dt64", "unit": "Y", "i": -1970}]:
        yield c
    for s in _FIXED_TEXTS:
        yield {"k": "text", "s": s}
    for n in _EDGE_INTS:
        yield {"k": "int", "n": n, "ty": "int"}
        yield {"k": "lib_fromts", "n": n}
        if len(str(abs(n))) <= 40:
            yield {"k": "text", "s": str(abs(n))}
    for x in ["nan", "inf", "-inf", (1e300).hex(), (-1e300).hex(), (0.0).hex(), (-0.0).hex(), (0.5).hex(), float(MAX_EPOCH).hex(), float(MAX_EPOCH + 1).hex(),
              (MAX_EPOCH + 0.5).hex(), float(MIN_EPOCH).hex(), float(MIN_EPOCH - 1).hex(), (2.0 ** 63).hex(), (-(2.0 ** 63)).hex(), (9.3e18).hex(), (-1.5).hex()]:
        yield {"k": "float", "x": x, "ty": "float"}
        yield {"k": "float", "x": x, "ty": "np.float64"}
    for what in sorted(_objects()):
        yield {"k": "obj", "what": what}
    # every suffix x form x separator on one fixed date-time, fractions 0..9
    for form in (0, 1, 2):
        for sep in "T ":
            for suf in (["none"], ["Z"], ["+", True, 5, 30], ["+", False, 5, 30], ["-", True, 5, 30], ["-", False, 5, 30]):
                for nfrac in ([0, 1, 3, 6, 7, 8, 9] if form == 0 else [0]):
                    for by in (False, True):
                        yield {"k": "iso", "f": [2020, 2, 29, 23, 59, 58], "form": form, "sep": sep, "frac": "123456789"[:nfrac], "suf": suf, "bytes": by}
    for c in [{"k": "dt64", "nat": True}, {"k": "dt64", "unit": "D", "i": 0},
              {"k": "pandas", "ns": 1577872800000000000, "tz": None},
              {"k": "bytes", "b": "ff", "ty": "bytes"}, {"k": "bytes", "b": b"2020-01-01".hex(), "ty": "np.bytes_"}, {"k": "bytes", "b": b"1234567890".hex(), "ty": "bytes"}]:
        yield c
    for y, m, d in [(1, 1, 1), (9999, 12, 31), (2000, 2, 29), (1900, 2, 28), (1970, 1, 1)]:
        for ty in ("date", "datetime", "datetime_tz"):
            yield {"k": "native", "ty": ty, "f": [y, m, d, 23, 59, 59, 999999], "off": -330}


def exhaustive(tier):
    if tier != "thorough":
        return None
    seed = int(os.environ.get("VERIF_SEED", "0") or 0)
    y0 = 1 + 400 * (seed % 24)
    first = datetime.date(y0, 1, 1).toordinal()
    last = datetime.date(y0 + 399, 12, 31).toordinal()

    def it():
        for o in range(first, last + 1):
            for v in range(4):
                yield {"k": "sweep", "o": o, "v": v}

    return it(), "every day of the 400 years %04d-01-01..%04d-12-31 x 4 variants (seconds+T, seconds+space+microseconds, minute form, date only), suffix cycling over all six" % (y0, y0 + 399)


def generate(rng, tier):
    count = 2200 if tier == "quick" else 40000
    for _ in range(count):
        yield _random_case(rng)


def search(rng):
    while True:
        r = rng.random()
        if r < 0.3:
            yield _rand_iso(rng)
        elif r < 0.45:
            yield {"k": "int", "n": _rand_int(rng), "ty": "int"}
        elif r < 0.55:
            yield {"k": "float", "x": _rand_float(rng), "ty": "float"}
        elif r < 0.8:
            yield {"k": "text", "s": _rand_text(rng)}
        elif r < 0.9:
            yield {"k": "bytes", "b": _rand_bytes(rng).hex(), "ty": "bytes"}
        else:
            yield _random_case(rng)


def shrink(case):
    if case["k"] == "sweep":
        c = dict(_norm(case))
        c.pop("sweep", None)
        yield c
        return
    k = case["k"]
    if k == "iso":
        if case["bytes"]:
            yield dict(case, bytes=False)
        if case["frac"]:
            yield dict(case, frac="")
            yield dict(case, frac=case["frac"][:-1])
        if case["suf"][0] != "none":
            yield dict(case, suf=["none"])
        f = case["f"]
        for i, lo in enumerate([2020, 1, 1, 0, 0, 0]):
            if f[i] != lo:
                g = list(f)
                g[i] = lo
                try:
                    datetime.datetime(*g)
                    yield dict(case, f=g)
                except ValueError:
                    pass
    elif k == "text":
        s = case["s"]
        for i in range(len(s)):
            yield dict(case, s=s[:i] + s[i + 1:])
    elif k == "bytes":
        b = bytes.fromhex(case["b"])
        for i in range(len(b)):
            yield dict(case, b=(b[:i] + b[i + 1:]).hex())
    elif k == "int":
        n = int(case["n"])
        for c in (n // 2, n - 1 if n > 0 else n + 1, MAX_EPOCH + 1, MIN_EPOCH - 1):
            if c != n:
                yield dict(case, n=c)
